#!/usr/bin/env bash
# MANIFEST.setup_cmd: offline build of everything the checks need.
set -eu
ROOT=$(cd "$(dirname "$0")" && pwd)
export CARGO_NET_OFFLINE=true
cd "$ROOT/harness"
cargo build --release --offline --bins
(cd /repo && cargo build --offline --bin kp --target-dir "$ROOT/harness/target/kp")
echo "setup done"
