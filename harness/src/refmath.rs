//! Independent reference mathematics (closed forms and quadrature), written
//! from textbooks, not from the library: used as oracles.

use std::f64::consts::{FRAC_PI_2, FRAC_PI_4, PI};

/// Ellipsoid of revolution described by (a, f) only.
#[derive(Clone, Copy, Debug, PartialEq)]
pub struct El {
    pub a: f64,
    pub f: f64,
}

/// The 47 PROJ ellipsoids the library says it copies: (name, a, 1/f) with 1/f = 0 for spheres.
/// Typed in from PROJ's `ellps.cpp` (a + rf, or a + b converted as noted).
pub const PROJ_ELLIPSOIDS: [(&str, f64, f64); 47] = [
    ("MERIT", 6378137.0, 298.257),
    ("SGS85", 6378136.0, 298.257),
    ("GRS80", 6378137.0, 298.257222101),
    ("IAU76", 6378140.0, 298.257),
    ("airy", 6377563.396, 299.3249646),
    ("APL4.9", 6378137.0, 298.25),
    ("NWL9D", 6378145.0, 298.25),
    ("mod_airy", 6377340.189, 299.3249373654824), // PROJ: b=6356034.446
    ("andrae", 6377104.43, 300.0),
    ("danish", 6377019.2563, 300.0),
    ("aust_SA", 6378160.0, 298.25),
    ("GRS67", 6378160.0, 298.2471674270),
    ("GSK2011", 6378136.5, 298.2564151),
    ("bessel", 6377397.155, 299.1528128),
    ("bess_nam", 6377483.865, 299.1528128),
    ("clrk66", 6378206.4, 294.9786982138982), // PROJ: b=6356583.8
    ("clrk80", 6378249.145, 293.4663),
    ("clrk80ign", 6378249.2, 293.4660212936269),
    ("CPM", 6375738.7, 334.29),
    ("delmbr", 6376428.0, 311.5),
    ("engelis", 6378136.05, 298.2566),
    ("evrst30", 6377276.345, 300.8017),
    ("evrst48", 6377304.063, 300.8017),
    ("evrst56", 6377301.243, 300.8017),
    ("evrst69", 6377295.664, 300.8017),
    ("evrstSS", 6377298.556, 300.8017),
    ("fschr60", 6378166.0, 298.3),
    ("fschr60m", 6378155.0, 298.3),
    ("fschr68", 6378150.0, 298.3),
    ("helmert", 6378200.0, 298.3),
    ("hough", 6378270.0, 297.0),
    ("intl", 6378388.0, 297.0),
    ("krass", 6378245.0, 298.3),
    ("kaula", 6378163.0, 298.24),
    ("lerch", 6378139.0, 298.257),
    ("mprts", 6397300.0, 191.0),
    ("new_intl", 6378157.5, 298.2496153900135), // PROJ: b=6356772.2
    ("plessis", 6376523.0, 308.64099709583735), // PROJ: b=6355863
    ("PZ90", 6378136.0, 298.25784),
    ("SEasia", 6378155.0, 298.3000002408657), // PROJ: b=6356773.3205
    ("walbeck", 6376896.0, 302.78000018165636), // PROJ: b=6355834.8467
    ("WGS60", 6378165.0, 298.3),
    ("WGS66", 6378145.0, 298.25),
    ("WGS72", 6378135.0, 298.26),
    ("WGS84", 6378137.0, 298.257223563),
    ("sphere", 6370997.0, 0.0),
    ("unitsphere", 1.0, 0.0),
];

impl El {
    pub fn new(a: f64, f: f64) -> El {
        El { a, f }
    }
    pub fn from_rf(a: f64, rf: f64) -> El {
        El { a, f: if rf == 0.0 { 0.0 } else { 1.0 / rf } }
    }
    pub fn grs80() -> El {
        El::from_rf(6378137.0, 298.257222100882711243)
    }
    pub fn b(&self) -> f64 {
        self.a * (1.0 - self.f)
    }
    pub fn es(&self) -> f64 {
        self.f * (2.0 - self.f)
    }
    pub fn e(&self) -> f64 {
        self.es().sqrt()
    }
    pub fn n3(&self) -> f64 {
        self.f / (2.0 - self.f)
    }
    /// second eccentricity squared
    pub fn e2s(&self) -> f64 {
        self.es() / (1.0 - self.es())
    }
    /// meridional radius of curvature
    pub fn m(&self, phi: f64) -> f64 {
        let s = phi.sin();
        self.a * (1.0 - self.es()) / (1.0 - self.es() * s * s).powf(1.5)
    }
    /// prime vertical radius of curvature
    pub fn n(&self, phi: f64) -> f64 {
        let s = phi.sin();
        self.a / (1.0 - self.es() * s * s).sqrt()
    }
    /// meridian arc length from the equator to phi: composite Gauss-Legendre quadrature of M
    pub fn meridian_arc(&self, phi: f64) -> f64 {
        integrate(|p| self.m(p), 0.0, phi, 12)
    }
    pub fn meridian_quadrant(&self) -> f64 {
        self.meridian_arc(FRAC_PI_2)
    }
    /// geographic (lon, lat, h) -> geocentric cartesian
    pub fn cartesian(&self, lon: f64, lat: f64, h: f64) -> [f64; 3] {
        let n = self.n(lat);
        [
            (n + h) * lat.cos() * lon.cos(),
            (n + h) * lat.cos() * lon.sin(),
            (n * (1.0 - self.es()) + h) * lat.sin(),
        ]
    }
    /// geocentric latitude
    pub fn geocentric(&self, phi: f64) -> f64 {
        if phi.abs() >= FRAC_PI_2 {
            return phi;
        }
        ((1.0 - self.es()) * phi.tan()).atan()
    }
    /// reduced (parametric) latitude
    pub fn reduced(&self, phi: f64) -> f64 {
        if phi.abs() >= FRAC_PI_2 {
            return phi;
        }
        ((1.0 - self.f) * phi.tan()).atan()
    }
    /// isometric latitude psi = atanh(sin phi) - e atanh(e sin phi)
    pub fn isometric(&self, phi: f64) -> f64 {
        let e = self.e();
        phi.sin().atanh() - e * (e * phi.sin()).atanh()
    }
    /// conformal latitude chi = gd(psi)
    pub fn conformal(&self, phi: f64) -> f64 {
        if phi.abs() >= FRAC_PI_2 {
            return phi;
        }
        self.isometric(phi).sinh().atan()
    }
    /// authalic q function
    pub fn q(&self, phi: f64) -> f64 {
        let e = self.e();
        let s = phi.sin();
        if e < 1e-12 {
            return 2.0 * s;
        }
        (1.0 - e * e) * (s / (1.0 - e * e * s * s) + (e * s).atanh() / e)
    }
    /// authalic latitude xi = asin(q/qp)
    pub fn authalic(&self, phi: f64) -> f64 {
        let r = self.q(phi) / self.q(FRAC_PI_2);
        r.clamp(-1.0, 1.0).asin()
    }
    /// rectifying latitude mu = (pi/2) * M(phi)/M(pi/2)
    pub fn rectifying(&self, phi: f64) -> f64 {
        FRAC_PI_2 * self.meridian_arc(phi) / self.meridian_quadrant()
    }
    /// radius of the authalic sphere
    pub fn rq(&self) -> f64 {
        self.a * (self.q(FRAC_PI_2) / 2.0).sqrt()
    }
}

/// Composite 16-point Gauss-Legendre quadrature on `panels` equal panels.
pub fn integrate(f: impl Fn(f64) -> f64, a: f64, b: f64, panels: usize) -> f64 {
    // nodes and weights of the 16 point rule on [-1, 1]
    const X: [f64; 8] = [
        0.0950125098376374401853193,
        0.2816035507792589132304605,
        0.4580167776572273863424194,
        0.6178762444026437484466718,
        0.7554044083550030338951012,
        0.8656312023878317438804679,
        0.9445750230732325760779884,
        0.9894009349916499325961542,
    ];
    const W: [f64; 8] = [
        0.1894506104550684962853967,
        0.1826034150449235888667637,
        0.1691565193950025381893121,
        0.1495959888165767320815017,
        0.1246289712555338720524763,
        0.0951585116824927848099251,
        0.0622535239386478928628438,
        0.0271524594117540948517806,
    ];
    let h = (b - a) / panels as f64;
    let mut total = 0.0;
    for p in 0..panels {
        let lo = a + h * p as f64;
        let mid = lo + h / 2.0;
        let half = h / 2.0;
        let mut s = 0.0;
        for i in 0..8 {
            s += W[i] * (f(mid + half * X[i]) + f(mid - half * X[i]));
        }
        total += s * half;
    }
    total
}

/// Great circle on a sphere of radius r: (distance, forward azimuth at p1, forward azimuth at p2)
pub fn great_circle(r: f64, lon1: f64, lat1: f64, lon2: f64, lat2: f64) -> (f64, f64, f64) {
    let dl = lon2 - lon1;
    let (s1, c1) = lat1.sin_cos();
    let (s2, c2) = lat2.sin_cos();
    let y = ((c2 * dl.sin()).powi(2) + (c1 * s2 - s1 * c2 * dl.cos()).powi(2)).sqrt();
    let x = s1 * s2 + c1 * c2 * dl.cos();
    let d = r * y.atan2(x);
    let az1 = (c2 * dl.sin()).atan2(c1 * s2 - s1 * c2 * dl.cos());
    let az2 = (c1 * dl.sin()).atan2(-s1 * c2 + c1 * s2 * dl.cos());
    (d, az1, az2)
}

/// Direct problem on a sphere: from (lon, lat) go `s` along azimuth `az`.
pub fn great_circle_direct(r: f64, lon1: f64, lat1: f64, az: f64, s: f64) -> (f64, f64) {
    let d = s / r;
    let lat2 = (lat1.sin() * d.cos() + lat1.cos() * d.sin() * az.cos()).asin();
    let lon2 = lon1 + (az.sin() * d.sin() * lat1.cos()).atan2(d.cos() - lat1.sin() * lat2.sin());
    (lon2, lat2)
}

/// 4th order central difference of a scalar function
pub fn diff4(f: impl Fn(f64) -> f64, x: f64, h: f64) -> f64 {
    (-f(x + 2.0 * h) + 8.0 * f(x + h) - 8.0 * f(x - h) + f(x - 2.0 * h)) / (12.0 * h)
}

/// Bilinear interpolation in a cell with corner values
/// ll (lower-left), lr, ul, ur and fractions fx (towards right), fy (towards up).
pub fn bilinear(ll: f64, lr: f64, ul: f64, ur: f64, fx: f64, fy: f64) -> f64 {
    let lower = ll + (lr - ll) * fx;
    let upper = ul + (ur - ul) * fx;
    lower + (upper - lower) * fy
}

/// Wrap an angle difference into (-pi, pi]
pub fn wrap_pi(mut d: f64) -> f64 {
    if !d.is_finite() {
        return d;
    }
    d %= 2.0 * PI;
    if d > PI {
        d -= 2.0 * PI;
    } else if d <= -PI {
        d += 2.0 * PI;
    }
    d
}

/// 3x3 matrix helpers ---------------------------------------------------------------
pub type M3 = [[f64; 3]; 3];

pub fn mat_mul(a: &M3, b: &M3) -> M3 {
    let mut r = [[0.0; 3]; 3];
    for i in 0..3 {
        for j in 0..3 {
            for k in 0..3 {
                r[i][j] += a[i][k] * b[k][j];
            }
        }
    }
    r
}
pub fn mat_vec(a: &M3, v: &[f64; 3]) -> [f64; 3] {
    let mut r = [0.0; 3];
    for i in 0..3 {
        for k in 0..3 {
            r[i] += a[i][k] * v[k];
        }
    }
    r
}
pub fn transpose(a: &M3) -> M3 {
    let mut r = [[0.0; 3]; 3];
    for i in 0..3 {
        for j in 0..3 {
            r[i][j] = a[j][i];
        }
    }
    r
}

/// Position-vector rotation matrix (EPSG Guidance Note 7-2, method 1033 family).
/// `exact` = product of the three elementary rotations Rz*Ry*Rx for the
/// position vector convention; otherwise the small-angle form.
/// Angles in radians.
pub fn rotation_position_vector(rx: f64, ry: f64, rz: f64, exact: bool) -> M3 {
    if !exact {
        return [[1.0, -rz, ry], [rz, 1.0, -rx], [-ry, rx, 1.0]];
    }
    let (sx, cx) = rx.sin_cos();
    let (sy, cy) = ry.sin_cos();
    let (sz, cz) = rz.sin_cos();
    // R = Rz(rz) * Ry(ry) * Rx(rx), each a right-handed rotation of the position vector
    let rxm: M3 = [[1.0, 0.0, 0.0], [0.0, cx, -sx], [0.0, sx, cx]];
    let rym: M3 = [[cy, 0.0, sy], [0.0, 1.0, 0.0], [-sy, 0.0, cy]];
    let rzm: M3 = [[cz, -sz, 0.0], [sz, cz, 0.0], [0.0, 0.0, 1.0]];
    mat_mul(&rzm, &mat_mul(&rym, &rxm))
}

pub fn norm3(v: &[f64; 3]) -> f64 {
    (v[0] * v[0] + v[1] * v[1] + v[2] * v[2]).sqrt()
}

pub fn arcsec(v: f64) -> f64 {
    (v / 3600.0).to_radians()
}

pub const HALF_PI: f64 = FRAC_PI_2;
pub const QUARTER_PI: f64 = FRAC_PI_4;
