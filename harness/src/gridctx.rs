//! `GridCtx`: a user-provided `Context` (public trait, modelled on the repo's
//! tests/maximal.rs) that serves grids and blobs from memory by name, so grid
//! operators can be exercised without touching the file system or the
//! process-wide grid cache of `Plain`.
//!
//! Grids registered with `add_grid_bytes` are decoded with the library's own
//! decoders (`Ntv2Grid::new` for names ending in `.gsb`, `BaseGrid::gravsoft`
//! otherwise), exactly as `Plain` does. `add_grid` registers a ready-made `Grid`.

use geodesy::authoring::*;
use std::collections::BTreeMap;
use std::sync::Arc;

#[derive(Debug, Default)]
pub struct GridCtx {
    constructors: BTreeMap<String, OpConstructor>,
    resources: BTreeMap<String, String>,
    operators: BTreeMap<OpHandle, Op>,
    grids: BTreeMap<String, Arc<dyn Grid>>,
    blobs: BTreeMap<String, Vec<u8>>,
}

const BAD_ID_MESSAGE: Error = Error::General("GridCtx: Unknown operator id");

impl GridCtx {
    /// Decode `bytes` like Plain would for a file called `name` and register the grid.
    pub fn add_grid_bytes(&mut self, name: &str, bytes: &[u8]) -> Result<(), Error> {
        let grid: Arc<dyn Grid> = if name.ends_with(".gsb") {
            Arc::new(Ntv2Grid::new(bytes)?)
        } else {
            Arc::new(BaseGrid::gravsoft(bytes)?)
        };
        self.grids.insert(name.to_string(), grid);
        self.blobs.insert(name.to_string(), bytes.to_vec());
        Ok(())
    }
    pub fn add_grid(&mut self, name: &str, grid: Arc<dyn Grid>) {
        self.grids.insert(name.to_string(), grid);
    }
    pub fn add_blob(&mut self, name: &str, bytes: &[u8]) {
        self.blobs.insert(name.to_string(), bytes.to_vec());
    }
}

impl Context for GridCtx {
    fn new() -> GridCtx {
        let mut ctx = GridCtx::default();
        for item in BUILTIN_ADAPTORS {
            ctx.register_resource(item.0, item.1);
        }
        ctx
    }

    fn op(&mut self, definition: &str) -> Result<OpHandle, Error> {
        let op = Op::new(definition, self)?;
        let id = op.id;
        self.operators.insert(id, op);
        Ok(id)
    }

    fn apply(&self, op: OpHandle, direction: Direction, operands: &mut dyn CoordinateSet) -> Result<usize, Error> {
        let op = self.operators.get(&op).ok_or(BAD_ID_MESSAGE)?;
        Ok(op.apply(self, operands, direction))
    }

    fn steps(&self, op: OpHandle) -> Result<&Vec<String>, Error> {
        let op = self.operators.get(&op).ok_or(BAD_ID_MESSAGE)?;
        Ok(&op.descriptor.steps)
    }

    fn params(&self, op: OpHandle, index: usize) -> Result<ParsedParameters, Error> {
        let op = self.operators.get(&op).ok_or(BAD_ID_MESSAGE)?;
        if op.steps.is_empty() {
            if index > 0 {
                return Err(Error::General("GridCtx: Bad step index"));
            }
            return Ok(op.params.clone());
        }
        if index >= op.steps.len() {
            return Err(Error::General("GridCtx: Bad step index"));
        }
        Ok(op.steps[index].params.clone())
    }

    fn globals(&self) -> BTreeMap<String, String> {
        BTreeMap::from([("ellps".to_string(), "GRS80".to_string())])
    }

    fn register_op(&mut self, name: &str, constructor: OpConstructor) {
        self.constructors.insert(String::from(name), constructor);
    }

    fn get_op(&self, name: &str) -> Result<OpConstructor, Error> {
        if let Some(result) = self.constructors.get(name) {
            return Ok(OpConstructor(result.0));
        }
        Err(Error::NotFound(name.to_string(), ": User defined constructor".to_string()))
    }

    fn register_resource(&mut self, name: &str, definition: &str) {
        self.resources.insert(String::from(name), String::from(definition));
    }

    fn get_resource(&self, name: &str) -> Result<String, Error> {
        if let Some(result) = self.resources.get(name) {
            return Ok(result.to_string());
        }
        Err(Error::NotFound(name.to_string(), ": User defined resource".to_string()))
    }

    fn get_blob(&self, name: &str) -> Result<Vec<u8>, Error> {
        self.blobs.get(name).cloned().ok_or_else(|| Error::NotFound(name.to_string(), ": Blob".to_string()))
    }

    fn get_grid(&self, name: &str) -> Result<Arc<dyn Grid>, Error> {
        self.grids.get(name).cloned().ok_or_else(|| Error::NotFound(name.to_string(), ": Grid".to_string()))
    }
}

/// Write a Gravsoft text grid. `values[band][row][col]`, row 0 = northernmost row,
/// col 0 = westernmost column; header in degrees (or any unit): lat_s lat_n lon_w lon_e dlat dlon.
/// Node records are written row by row from the north, bands interleaved per node.
pub fn gravsoft_text(lat_s: f64, lat_n: f64, lon_w: f64, lon_e: f64, dlat: f64, dlon: f64, values: &[Vec<Vec<f64>>]) -> String {
    let mut s = format!("{lat_s} {lat_n} {lon_w} {lon_e} {dlat} {dlon}\n");
    let bands = values.len();
    let rows = values[0].len();
    let cols = values[0][0].len();
    for r in 0..rows {
        for c in 0..cols {
            for b in 0..bands {
                s.push_str(&format!("{} ", values[b][r][c]));
            }
            s.push(' ');
        }
        s.push('\n');
    }
    s
}
