//! C01 — the inverse direction undoes the forward direction for every invertible operator.
//!
//! Oracle: round trip in both orders (Fwd then Inv on domain points; Inv then Fwd on the
//! 1 mm lattice image of domain points), error measured in ground metres on the ellipsoid
//! the operator uses; `op inv` applied forward must equal `op` applied inverse bit for bit.
//! Generated: operator x aspect x parameters x ellipsoid (47 built-in + random a,rf) x
//! batches of domain points; typed pipelines and macros; grid operators on GridCtx.
//! Round values: the catalogue, the pipelines and the shipped grids are generated a second time
//! in round-value mode (every parameter and coordinate draw snapped onto multiples of 15, 6, 1
//! or 0.5 of its unit: whole and half degrees, zone edges, the central meridian / centre /
//! standard parallel as coordinate, whole metres and years, grid nodes), where the
//! inverse-then-forward order also starts from the round neighbours of the images (the image
//! itself +-0..4 ulp for angles, whole metres in the plane); the carries of the sexagesimal
//! encodings of dm / dms (every whole degree x minutes x seconds, +-4 ulp, reached in radians
//! and via degrees, both signs, zero degrees) are enumerated in both orders, for the plain
//! operators, their inv twins, as pipeline steps and as writers behind a degree input.

use geodesy::prelude::*;
use proptest::prelude::*;
use serde::{Deserialize, Serialize};
use serde_json::json;
use std::f64::consts::{FRAC_PI_2, PI};
use vcore::geo::*;
use vcore::gridctx::{gravsoft_text, GridCtx};
use vcore::refmath::{great_circle_direct, wrap_pi, El, PROJ_ELLIPSOIDS};
use vcore::*;

const EARTH_A: f64 = 6378137.0;
const EPS: f64 = f64::EPSILON;

// ---- tolerances (ground metres) ------------------------------------------------------
// class levels stated by the property; per operator constants calibrated on the tree
// (worst observed x margin, see evidence "worst_m:*"), never looser than the class level.
const TOL_RIGOROUS: f64 = 1.0e-5; // "a few micrometres or better"
const TOL_CART_LOW: f64 = 5.0e-7; // cart, h in [-10, 100] km
const TOL_CART_HIGH: f64 = 1.0e-3; // cart, h up to 1e7 m
const TOL_APPROX: f64 = 5.0e-3; // btmerc, omerc: "millimetre level"
const TOL_GRID: f64 = 1.0e-7; // gridshift inside coverage
const MOLO_C: f64 = 4.0; // molodensky: MOLO_C * delta^2 / (a cos(phi)) + MOLO_FLOOR
const MOLO_FLOOR: f64 = 1.0e-4;

// ---- small helpers -------------------------------------------------------------------

fn rd(v: f64, dec: i32) -> f64 {
    let p = 10f64.powi(dec);
    (v * p).round() / p
}
fn lin(u: f64, lo: f64, hi: f64) -> f64 {
    lo + (hi - lo) * u
}

// ---- round-value mode ----------------------------------------------------------------
// The generators below draw parameters and coordinates from continuous ranges: a random double
// essentially never is a whole degree, the central meridian, a zone edge, a grid node, a whole
// metre or a round epoch.  In round-value mode (a thread local switch, set only while the cases
// of the round-value sections are built) every such draw is snapped onto the exactly
// representable values users type: multiples of 15, 6, 1 or 0.5 inside the same range.
thread_local! { static ROUND: std::cell::Cell<bool> = const { std::cell::Cell::new(false) }; }
fn round_mode() -> bool {
    ROUND.with(|r| r.get())
}
struct RoundGuard;
impl Drop for RoundGuard {
    fn drop(&mut self) {
        ROUND.with(|r| r.set(false));
    }
}
fn in_round_mode<T>(f: impl FnOnce() -> T) -> T {
    ROUND.with(|r| r.set(true));
    let _g = RoundGuard;
    f()
}
/// a multiple of 15, 6, 1 or 0.5 within [lo, hi] (the plain linear map if the range holds less than two)
fn snap_with(u: f64, lo: f64, hi: f64, steps: &[f64]) -> f64 {
    let usable: Vec<f64> = steps.iter().copied().filter(|s| hi - lo >= 2.0 * s).collect();
    if usable.is_empty() || !(hi > lo) {
        return lin(u, lo, hi);
    }
    let w = (u * 7919.0).fract();
    let step = usable[((w * usable.len() as f64) as usize).min(usable.len() - 1)];
    let first = (lo / step).ceil();
    let cnt = (hi / step).floor() - first + 1.0;
    (first + (u * cnt).floor().min(cnt - 1.0)) * step
}
fn snap(u: f64, lo: f64, hi: f64) -> f64 {
    snap_with(u, lo, hi, &[15.0, 6.0, 1.0, 0.5])
}
/// `lin`, or its round-value counterpart
fn rlin(u: f64, lo: f64, hi: f64) -> f64 {
    if round_mode() {
        snap(u, lo, hi)
    } else {
        lin(u, lo, hi)
    }
}
/// the double k units in the last place away from v (k may be negative; crosses zero through -0.0)
fn ulps_from(v: f64, k: i64) -> f64 {
    if !v.is_finite() || k == 0 {
        return v;
    }
    let ord = |b: i64| b ^ ((((b >> 63) as u64) >> 1) as i64);
    let o = ord(v.to_bits() as i64).saturating_add(k);
    let r = f64::from_bits(ord(o) as u64);
    if r.is_finite() {
        r
    } else {
        v
    }
}
/// deterministic small offset in -4..=4 ulp for point i of a batch (0 for one point in nine)
fn ulp_offset(i: usize, v: f64) -> i64 {
    let mut s = (i as u64).wrapping_mul(0x9E3779B97F4A7C15) ^ v.to_bits();
    (splitmix(&mut s) % 9) as i64 - 4
}

/// cursor over the unit-interval parameter draws of a case; u = 0 is the "simplest" choice
struct Cur<'a> {
    u: &'a [f64],
    k: usize,
}
impl<'a> Cur<'a> {
    fn new(u: &'a [f64]) -> Self {
        Cur { u, k: 0 }
    }
    fn u(&mut self) -> f64 {
        let v = self.u[self.k % self.u.len()];
        self.k += 1;
        v
    }
    fn lin(&mut self, lo: f64, hi: f64) -> f64 {
        let u = self.u();
        rlin(u, lo, hi)
    }
    /// true with probability p; false when u = 0
    fn flag(&mut self, p: f64) -> bool {
        self.u() > 1.0 - p
    }
    fn pick(&mut self, n: usize) -> usize {
        ((self.u() * n as f64) as usize).min(n - 1)
    }
}

#[derive(Clone, Debug)]
struct Raw {
    kind: usize,
    ell: usize,
    u: Vec<f64>,
    pts: Vec<[f64; 5]>,
}

fn splitmix(x: &mut u64) -> u64 {
    *x = x.wrapping_add(0x9E3779B97F4A7C15);
    let mut z = *x;
    z = (z ^ (z >> 30)).wrapping_mul(0xBF58476D1CE4E5B9);
    z = (z ^ (z >> 27)).wrapping_mul(0x94D049BB133111EB);
    z ^ (z >> 31)
}
fn unit(x: &mut u64) -> f64 {
    (splitmix(x) >> 11) as f64 / (1u64 << 53) as f64
}
/// deterministic raw draws for the sweep sections: pure function of (seed, index)
fn raw_from_index(seed: u64, idx: u64, kind: usize, ell: usize, npts: usize) -> Raw {
    let mut s = seed ^ idx.wrapping_mul(0xD1342543DE82EF95) ^ 0xC01;
    let u = (0..NU).map(|_| unit(&mut s)).collect();
    let pts = (0..npts).map(|_| [unit(&mut s), unit(&mut s), unit(&mut s), unit(&mut s), unit(&mut s)]).collect();
    Raw { kind, ell, u, pts }
}
const NU: usize = 28;
const N_ELL: usize = 47 + 9; // 47 built-in + 9 slots of random a,rf

fn raw_strategy(n_kinds: usize, maxpts: usize) -> impl Strategy<Value = Raw> {
    (
        any::<u16>(),
        any::<u16>(),
        prop::collection::vec(0.0f64..1.0, NU),
        prop::collection::vec([0.0f64..1.0, 0.0f64..1.0, 0.0f64..1.0, 0.0f64..1.0, 0.0f64..1.0], 1..=maxpts),
    )
        .prop_map(move |(k, e, u, pts)| Raw { kind: pick(k, n_kinds), ell: pick(e, N_ELL), u, pts })
}

/// ellipsoid choice: index < 47 = built-in table entry, else random (a, rf) with f <= 1/150
fn ell_choice(idx: usize, c: &mut Cur) -> (String, f64, f64) {
    let (u1, u2, u3) = (c.u(), c.u(), c.u());
    if idx < 47 {
        let (name, a, rf) = PROJ_ELLIPSOIDS[idx];
        return (name.to_string(), a, if rf == 0.0 { 0.0 } else { 1.0 / rf });
    }
    let a = if u1 > 0.75 { rd(10f64.powf(lin(u2, 0.0, 6.845)), 3).max(1.0) } else { rd(lin(u2, 6.2e6, 6.5e6), 3) };
    // nearly spherical bodies (rf >> 1000, but not a sphere) are left out: ancillary::qs loses
    // digits as eps/e^2 there (laea: 2.5 um at rf = 1e6, 100 um close to a pole at rf = 1e5)
    let rf = if u3 < 0.1 { 150.0 } else { rd(lin(u3, 150.0, 600.0), 6) };
    (format!("{a},{rf}"), a, 1.0 / rf)
}
/// Earth sized built-in ellipsoids (for pipelines, molodensky pairs)
const EARTHLIKE: [&str; 10] = ["GRS80", "WGS84", "intl", "bessel", "clrk66", "krass", "airy", "WGS72", "hough", "GRS67"];
fn builtin(name: &str) -> (f64, f64) {
    let e = PROJ_ELLIPSOIDS.iter().find(|e| e.0 == name).expect("known ellipsoid");
    (e.1, if e.2 == 0.0 { 0.0 } else { 1.0 / e.2 })
}

// ---- the case ------------------------------------------------------------------------

#[derive(Clone, Debug, Serialize, Deserialize)]
struct GridSpec {
    name: String,
    lat_s: F,
    lon_w: F,
    dlat: F,
    dlon: F,
    rows: u32,
    cols: u32,
    base: Vec<F>, // per band: constant part
    var: Vec<F>,  // per band: amplitude of the smooth variation
    coef: Vec<F>, // 4 shape coefficients
}

#[derive(Clone, Debug, Serialize, Deserialize)]
struct Case {
    op: String,     // catalogue operator
    aspect: String, // aspect / parameterisation class (part of the failure key)
    def: String,    // definition of the forward operator (without inv)
    macros: Vec<(String, String)>,
    ell: String, // ellipsoid text as given to the operator
    a: F,
    f: F,
    q: Vec<F>, // numbers the tolerance formula needs (operator specific)
    grids: Vec<GridSpec>,
    pts: Vec<P4>,
    /// round-value case: the inverse-then-forward order additionally starts from the round
    /// neighbours of the images (whole metres / the image itself and doubles a few ulp from it)
    #[serde(default)]
    round: bool,
    /// additional starting tuples (in the output space) for the inverse-then-forward order
    #[serde(default)]
    ystart: Vec<P4>,
}

/// coordinate spaces, for measuring an error in ground metres
#[derive(Clone, Copy, Debug, PartialEq)]
enum Sp {
    Geo,     // (lon, lat [rad], h, t)
    GeoDeg,  // (lat, lon [deg], h, t)
    GisDeg,  // (lon, lat [deg], h, t)
    Cart,    // (X, Y, Z, t)
    Plane,   // (x, y, -, -): via numerical Jacobian
    AuxLat,  // (lon, auxiliary latitude [rad], -, -)
    Iso(bool), // ISO 6709 (lat, lon) as DDDMM.mmm / DDDMMSS.sss (true = dms)
    GeodIn,  // (lat1, lon1, azimuth [deg], distance)
    GeodOut, // (lat2, lon2, lat1, lon1 [deg])
    Raw,     // compared element-wise: bits or ulps
    Any,     // output of a pipeline in unknown units: via numerical Jacobian
}

#[derive(Clone, Copy, Debug, PartialEq)]
enum Exact {
    Bits,
    Equal, // numerically equal: (-0.0 + t) - t is +0.0
    Ulps(f64),
}

// ---- the catalogue -------------------------------------------------------------------

const KINDS: &[(&str, &str)] = &[
    ("noop", "noop"), ("noop", "longlat"), ("noop", "latlon"), ("noop", "latlong"), ("noop", "lonlat"),
    ("addone", "integer"), ("addone", "general"),
    ("axisswap", "1"), ("axisswap", "2"), ("axisswap", "3"), ("axisswap", "4"),
    ("adapt", "noop"), ("adapt", "perm"), ("adapt", "mult"), ("adapt", "perm+mult"),
    ("unitconvert", "linear"), ("unitconvert", "angular"), ("unitconvert", "z"),
    ("helmert", "translation-int"), ("helmert", "translation"), ("helmert", "scale"),
    ("helmert", "small-angle-pv"), ("helmert", "small-angle-cf"), ("helmert", "exact-pv"), ("helmert", "exact-cf"),
    ("helmert", "dynamic"), ("helmert", "dynamic-exact"), ("helmert", "t_obs"),
    ("cart", "low"), ("cart", "high"),
    ("molodensky", "full"), ("molodensky", "abridged"), ("molodensky", "full-ellps01"), ("molodensky", "abridged-ellps01"),
    ("latitude", "geocentric"), ("latitude", "reduced"), ("latitude", "parametric"),
    ("latitude", "conformal"), ("latitude", "authalic"), ("latitude", "rectifying"),
    ("permtide", "any"),
    ("dm", "any"), ("dms", "any"),
    ("geodesic", "generic"), ("geodesic", "meridional"), ("geodesic", "equatorial"), ("geodesic", "short"),
    ("tmerc", "plain"), ("tmerc", "lat_0"), ("utm", "north"), ("utm", "south"),
    ("btmerc", "plain"), ("btmerc", "lat_0"), ("butm", "north"), ("butm", "south"),
    ("merc", "plain"), ("merc", "k_0"), ("merc", "lat_ts"), ("merc", "lon_0"), ("merc", "lat_0"), ("merc", "false-origin"),
    ("webmerc", "any"),
    ("lcc", "1sp-north"), ("lcc", "1sp-south"), ("lcc", "2sp-north"), ("lcc", "2sp-south"), ("lcc", "2sp-straddle"), ("lcc", "lat_0"),
    ("laea", "oblique-north"), ("laea", "oblique-south"), ("laea", "equatorial"), ("laea", "north-polar"), ("laea", "south-polar"),
    ("omerc", "A-north"), ("omerc", "A-south"), ("omerc", "B-north"), ("omerc", "B-south"), ("omerc", "laborde"),
    ("omerc", "A-alpha90"), ("omerc", "B-alpha90"), ("omerc", "laborde-alpha90"),
    ("omerc", "A-alpha-90"), ("omerc", "B-alpha-90"), ("omerc", "laborde-alpha-90"),
    ("omerc", "A-boundary"), ("omerc", "B-boundary"), ("omerc", "laborde-boundary"),
    ("somerc", "north"), ("somerc", "south"), ("somerc", "equator"),
    ("tmerc", "wrap"), ("utm", "wrap"), ("btmerc", "wrap"), ("butm", "wrap"), ("lcc", "wrap"), ("laea", "wrap"), ("omerc", "wrap"), ("somerc", "wrap"),
    ("gridshift", "datum"), ("gridshift", "geoid"), ("gridshift", "datum-list"), ("gridshift", "geoid-list"),
    ("deformation", "dt-list"),
    ("deformation", "dt"), ("deformation", "t_epoch"), ("deformation", "dt+t_epoch"),
    // parameter pairs of which one takes precedence, given together
    ("merc", "lat_ts+k_0"), ("helmert", "mixed-spellings"), ("helmert", "static+epochs"),
    ("molodensky", "full-all"), ("molodensky", "abridged-all"), ("lcc", "2sp-equal"),
    // the sexagesimal conversions as steps of a pipeline, and as the writing (inverted) last
    // step behind a degree input: degrees -> radians -> DDDMM.mmm / DDDMMSS.sss and back
    ("dm", "pipeline"), ("dms", "pipeline"),
    ("dm-out", "geo:in"), ("dm-out", "adapt"), ("dm-out", "swap+convert"),
    ("dms-out", "geo:in"), ("dms-out", "adapt"), ("dms-out", "swap+convert"),
];

/// fields of a sexagesimal angle next to the carries of the encoding
const CARRY_MINUTES: [f64; 6] = [0.0, 0.0, 1.0, 29.0, 30.0, 59.0];
const CARRY_SECONDS: [f64; 6] = [0.0, 0.0, 1.0, 30.0, 59.0, 59.0];

fn iso_forms(op: &str) -> Vec<String> {
    match op {
        "dm" | "dms" => vec![op.to_string(), format!("{op} | noop"), format!("noop | {op}"), format!("{op} | geo:out | geo:in")],
        _ => {
            let b = op.trim_end_matches("-out");
            vec![
                format!("geo:in | {b} inv"),
                format!("adapt from=neuf_deg | {b} inv"),
                format!("axisswap order=2,1 | unitconvert xy_in=deg xy_out=rad | {b} inv"),
            ]
        }
    }
}

/// a valid DDDMM.mmm / DDDMMSS.sss number from whole fields (+ a decimal fraction of the last field)
fn iso_encode(dms: bool, sign: f64, d: f64, m: f64, sec: f64, frac: f64) -> f64 {
    if dms {
        sign * (d * 10000.0 + m * 100.0 + sec + frac)
    } else {
        // the seconds become a decimal fraction of the minute: 0, 1/60 (rounded to 7 decimals), 0.5, ...
        sign * (d * 100.0 + rd(m + sec / 60.0 + frac, 7).min(59.9999999))
    }
}

/// operators of the library that the catalogue knows but does not round-trip, with the reason
const NOT_ROUNDTRIPPED: &[(&str, &str)] = &[
    ("curvature", "no inverse (one-way look-up helper)"),
    ("deflection", "no inverse (one-way look-up helper)"),
    ("gravity", "no inverse (one-way look-up helper)"),
    ("pipeline", "not a stand-alone operator; pipelines are covered by the pipelines section"),
    ("push", "stack instruction (C12)"),
    ("pop", "stack instruction (C12)"),
    ("stack", "stack instruction (C12)"),
];

const LINEAR: [&str; 20] = [
    "km", "m", "dm", "cm", "mm", "kmi", "in", "ft", "yd", "fath", "ch", "link", "us-in", "us-ft", "us-yd", "us-ch", "us-mi",
    "ind-yd", "ind-ft", "ind-ch",
];
const ANGULAR: [&str; 3] = ["rad", "deg", "grad"];

fn perm_of(mut idx: usize, k: usize) -> Vec<usize> {
    // idx-th permutation of 0..k (factorial number system); idx = 0 is the identity
    let mut pool: Vec<usize> = (0..k).collect();
    let mut out = vec![];
    let mut fact: usize = (1..k).product();
    for i in 0..k {
        let j = idx / fact.max(1);
        idx %= fact.max(1);
        out.push(pool.remove(j.min(pool.len() - 1)));
        if k - 1 - i > 0 {
            fact /= k - 1 - i;
        }
    }
    out
}

fn zt(p: &[f64; 5]) -> (f64, f64) {
    let z = if p[2] < 0.4 { 0.0 } else { rd(rlin(p[2], -500.0, 9000.0), 3) };
    let t = if p[3] < 0.4 { 0.0 } else { rd(rlin(p[3], 1985.0, 2035.0), 3) };
    (z, t)
}

/// (lon, lat) in radians: lon within dlonmax of lon0, |lat| <= latmax (degrees), with boundary classes
fn globe(p: &[f64; 5], lon0: f64, latmax: f64, dlonmax: f64) -> (f64, f64) {
    if round_mode() {
        // whole and half degrees, multiples of 6 (zone edges) and 15 degrees inside the same window
        // (the longitude itself is round, not its offset from the central meridian), with the
        // same boundary classes: the central meridian itself, the equator, the edges of the window
        let mut lon = snap(p[0], lon0 - dlonmax, lon0 + dlonmax);
        let mut lat = snap(p[1], -latmax, latmax);
        if p[4] > 0.9 {
            match ((p[4] - 0.9) * 100.0) as usize {
                0 => lat = 0.0,
                1 => lon = lon0,
                2 => lat = latmax,
                3 => lat = -latmax,
                4 => lon = lon0 + dlonmax,
                5 => lon = lon0 - dlonmax,
                6 => {
                    lat = 0.0;
                    lon = lon0
                }
                7 => lat = -0.0,
                _ => {}
            }
        }
        return (lon.to_radians(), lat.to_radians());
    }
    let mut dlon = lin(p[0], -dlonmax, dlonmax);
    let mut lat = lin(p[1], -latmax, latmax);
    if p[4] > 0.9 {
        match ((p[4] - 0.9) * 100.0) as usize {
            0 => lat = 0.0,
            1 => dlon = 0.0,
            2 => lat = latmax,
            3 => lat = -latmax,
            4 => dlon = dlonmax,
            5 => dlon = -dlonmax,
            6 => {
                lat = 0.0;
                dlon = 0.0
            }
            7 => lat = -0.0,
            _ => {}
        }
    }
    ((lon0 + dlon).to_radians(), lat.to_radians())
}

/// (lon, lat) in radians within rmax degrees (great circle on the sphere) of the centre (degrees)
fn disc(p: &[f64; 5], lonc: f64, latc: f64, rmax: f64) -> (f64, f64) {
    if round_mode() {
        let (lon, lat) = disc_deg(p, lonc, latc, rmax);
        return (lon.to_radians(), lat.to_radians());
    }
    let az = 2.0 * PI * p[0];
    let mut d = rmax.to_radians() * p[1].sqrt();
    if p[4] > 0.96 {
        d = 0.0; // the centre itself
    } else if p[4] > 0.92 {
        d = rmax.to_radians();
    }
    let (lon, lat) = great_circle_direct(1.0, lonc.to_radians(), latc.to_radians(), az, d);
    (lon, lat.clamp(-FRAC_PI_2, FRAC_PI_2))
}

/// the same in degrees; in round-value mode the point is moved onto the nearest whole or half
/// degree in both coordinates (the disc is shrunk by 1.5 steps first, so that it stays inside;
/// the centre itself, when it is round, is hit exactly)
fn disc_deg(p: &[f64; 5], lonc: f64, latc: f64, rmax: f64) -> (f64, f64) {
    if !round_mode() {
        let (lon, lat) = disc(p, lonc, latc, rmax);
        return (lon.to_degrees(), lat.to_degrees());
    }
    let step = if rmax < 4.0 || p[4] < 0.3 { 0.5 } else { 1.0 };
    let az = 2.0 * PI * p[0];
    let mut d = (rmax.to_radians() * p[1].sqrt()).min((rmax - 1.5 * step).to_radians());
    if p[4] > 0.96 {
        d = 0.0; // the centre itself
    }
    let (lon, lat) = great_circle_direct(1.0, lonc.to_radians(), latc.to_radians(), az, d);
    if d == 0.0 {
        return (lonc, latc);
    }
    let r = |v: f64| (v / step).round() * step;
    (r(lon.to_degrees()), r(lat.to_degrees()).clamp(-90.0, 90.0))
}

fn false_origin(c: &mut Cur, def: &mut String) {
    if c.flag(0.5) {
        let x0 = rd(c.lin(-2.0e6, 2.0e6), 2);
        let y0 = rd(c.lin(-2.0e6, 1.0e7), 2);
        def.push_str(&format!(" x_0={x0} y_0={y0}"));
    }
}
fn scale_k0(c: &mut Cur, def: &mut String) {
    if c.flag(0.5) {
        let k = rd(c.lin(0.9, 1.1), 6);
        def.push_str(&format!(" k_0={k}"));
    }
}
fn lon_0(c: &mut Cur, def: &mut String, wrap: bool) -> f64 {
    if wrap {
        let l = rd(c.lin(165.0, 180.0), 4) * if c.flag(0.5) { -1.0 } else { 1.0 };
        def.push_str(&format!(" lon_0={l}"));
        l
    } else if c.flag(0.7) {
        let l = rd(c.lin(-180.0, 180.0), 4);
        def.push_str(&format!(" lon_0={l}"));
        l
    } else {
        0.0
    }
}

/// a coarse (2 degree) grid with its own, different values around the detail grid `g1`,
/// reaching at least 2 degrees beyond it on every side
fn coarse_around(c: &mut Cur, g1: &GridSpec, name: &str, bands: usize, base_max: f64, var_max: f64) -> GridSpec {
    let mut g2 = grid_spec(c, name, bands, base_max, var_max, true);
    g2.lat_s = F((g1.lat_s.0 - 2.0).floor());
    g2.lon_w = F((g1.lon_w.0 - 2.0).floor());
    g2.rows = (((89.0 - g2.lat_s.0) / 2.0).floor() as u32 + 1).min(9);
    g2.cols = 9;
    g2
}

/// operand sets for a list of overlapping grids: tuples inside the detail grid (served by it)
/// and tuples 0.1 .. 1.5 degrees outside it (served by the coarse grid), in mixed order
fn mixed_coverage(g1: &GridSpec, p: &[f64; 5]) -> (f64, f64) {
    if p[4] < 0.5 {
        g1.interior(p)
    } else {
        g1.ring(p)
    }
}

fn grid_spec(c: &mut Cur, name: &str, bands: usize, base_max: f64, var_max: f64, coarse: bool) -> GridSpec {
    let steps = [0.1, 0.25, 0.5, 1.0];
    let (dlat, dlon) = if coarse { (2.0, 2.0) } else { (steps[c.pick(4)], steps[c.pick(4)]) };
    let rows = 3 + c.pick(10) as u32;
    let cols = 3 + c.pick(10) as u32;
    let ext_lat = dlat * (rows - 1) as f64;
    let ext_lon = dlon * (cols - 1) as f64;
    let lat_s = rd(c.lin(-80.0, 80.0 - ext_lat), 1);
    let lon_w = rd(c.lin(-175.0, 175.0 - ext_lon), 1);
    let base = (0..bands).map(|_| F(rd(c.lin(-base_max, base_max), 3))).collect();
    let var = (0..bands).map(|_| F(rd(c.lin(0.0, var_max), 3))).collect();
    let coef = (0..4).map(|_| F(rd(c.lin(-1.0, 1.0), 3))).collect();
    GridSpec { name: name.to_string(), lat_s: F(lat_s), lon_w: F(lon_w), dlat: F(dlat), dlon: F(dlon), rows, cols, base, var, coef }
}

impl GridSpec {
    fn lat_n(&self) -> f64 {
        self.lat_s.0 + self.dlat.0 * (self.rows - 1) as f64
    }
    fn lon_e(&self) -> f64 {
        self.lon_w.0 + self.dlon.0 * (self.cols - 1) as f64
    }
    /// node values [band][row from north][col from west], rounded as written to the file
    fn values(&self) -> Vec<Vec<Vec<f64>>> {
        let k = &self.coef;
        (0..self.base.len())
            .map(|b| {
                (0..self.rows)
                    .map(|r| {
                        (0..self.cols)
                            .map(|col| {
                                let x = col as f64 / (self.cols - 1) as f64;
                                let y = 1.0 - r as f64 / (self.rows - 1) as f64;
                                let s = k[0].0 * x + k[1].0 * y + k[2].0 * x * y + k[3].0 * (2.0 * x + 1.5 * y + b as f64).sin();
                                rd(self.base[b].0 + self.var[b].0 * s / 4.0, 5)
                            })
                            .collect()
                    })
                    .collect()
            })
            .collect()
    }
    fn text(&self) -> String {
        gravsoft_text(self.lat_s.0, self.lat_n(), self.lon_w.0, self.lon_e(), self.dlat.0, self.dlon.0, &self.values())
    }
    /// interior point (degrees): the central 80 % of the coverage
    fn interior(&self, p: &[f64; 5]) -> (f64, f64) {
        let mut lat = self.lat_s.0 + (self.lat_n() - self.lat_s.0) * lin(p[1], 0.1, 0.9);
        let mut lon = self.lon_w.0 + (self.lon_e() - self.lon_w.0) * lin(p[0], 0.1, 0.9);
        if round_mode() {
            // exactly on a row and/or a column of nodes of the central 80 % (the borders of the cells)
            let node = |u: f64, n: u32| -> f64 {
                let (lo, hi) = ((0.1 * (n - 1) as f64).ceil(), (0.9 * (n - 1) as f64).floor());
                (lo + (u * (hi - lo + 1.0)).floor().min(hi - lo)).min((n - 1) as f64)
            };
            let which = (p[4] * 977.0) as usize % 4;
            if which != 1 {
                lat = self.lat_s.0 + self.dlat.0 * node(p[1], self.rows);
            }
            if which != 2 {
                lon = self.lon_w.0 + self.dlon.0 * node(p[0], self.cols);
            }
        }
        (lon, lat)
    }
    /// a point (degrees) 0.1 .. 1.5 degrees outside the coverage, on any of the four sides
    fn ring(&self, p: &[f64; 5]) -> (f64, f64) {
        let off = 0.1 + 1.4 * (p[4] * 997.0).fract();
        let lon_along = self.lon_w.0 - 1.0 + (self.lon_e() - self.lon_w.0 + 2.0) * p[0];
        let lat_along = self.lat_s.0 - 1.0 + (self.lat_n() - self.lat_s.0 + 2.0) * p[1];
        match (p[4] * 64.0) as usize % 4 {
            0 => (lon_along, self.lat_n() + off),
            1 => (lon_along, self.lat_s.0 - off),
            2 => (self.lon_e() + off, lat_along),
            _ => (self.lon_w.0 - off, lat_along),
        }
    }
    /// (largest |value|, largest difference between adjacent nodes) over all bands
    fn extremes(&self) -> (f64, f64) {
        let v = self.values();
        let (mut vmax, mut dmax) = (0.0f64, 0.0f64);
        for b in &v {
            for r in 0..b.len() {
                for c in 0..b[r].len() {
                    vmax = vmax.max(b[r][c].abs());
                    if c + 1 < b[r].len() {
                        dmax = dmax.max((b[r][c + 1] - b[r][c]).abs());
                    }
                    if r + 1 < b.len() {
                        dmax = dmax.max((b[r + 1][c] - b[r][c]).abs());
                    }
                }
            }
        }
        (vmax, dmax)
    }
}

fn arbitrary_pt(p: &[f64; 5]) -> P4 {
    let v = |u: f64, k: usize| -> f64 {
        match ((p[4] * 40.0) as usize + k) % 40 {
            0 => 0.0,
            1 => -0.0,
            2 => rd(rlin(u, -3.2, 3.2), 9),
            3 => rd(rlin(u, -180.0, 180.0), 6),
            _ => rd(rlin(u, -1.0e7, 1.0e7), 4),
        }
    };
    p4(v(p[0], 0), v(p[1], 1), v(p[2], 2), v(p[3], 3))
}

fn adapt_descriptor(perm: usize, signs: usize, unit: usize) -> String {
    let axes = [['e', 'w'], ['n', 's'], ['u', 'd'], ['f', 'p']];
    let p = perm_of(perm, 4);
    let mut s: String = (0..4).map(|i| axes[p[i]][(signs >> i) & 1]).collect();
    s.push_str(["", "_rad", "_any", "_deg", "_gon"][unit]);
    s
}

/// Build the case for one catalogue entry from raw unit-interval draws.
fn build(raw: &Raw) -> Case {
    let (op, aspect) = KINDS[raw.kind % KINDS.len()];
    let mut c = Cur::new(&raw.u);
    let (mut ell, mut a, mut f) = ell_choice(raw.ell, &mut c);
    if op == "molodensky" && a < 6.0e6 {
        // datum shifts of hundreds of metres only make sense on an Earth sized body
        ell = "GRS80".to_string();
        (a, f) = builtin("GRS80");
    }
    let el = El { a, f };
    let mut q: Vec<F> = vec![];
    let mut grids: Vec<GridSpec> = vec![];
    let macros: Vec<(String, String)> = vec![];
    let mut def: String;
    let pts: Vec<P4>;
    let with_ell = |d: &mut String, ell: &str, c: &mut Cur| {
        // GRS80 is the context default: sometimes leave it implicit
        if !(ell == "GRS80" && c.flag(0.5)) {
            d.push_str(&format!(" ellps={ell}"));
        }
    };
    let geo2 = |lon: f64, lat: f64, p: &[f64; 5]| {
        let (z, t) = zt(p);
        p4(lon, lat, z, t)
    };
    match op {
        "noop" => {
            def = aspect.to_string();
            pts = raw.pts.iter().map(arbitrary_pt).collect();
        }
        "addone" => {
            def = "addone".to_string();
            pts = raw
                .pts
                .iter()
                .map(|p| {
                    let mut v = arbitrary_pt(p);
                    v[0] = F(if aspect == "integer" { lin(p[0], -1.0e7, 1.0e7).round() } else { rd(rlin(p[0], -1.0e7, 1.0e7), 4) });
                    v
                })
                .collect();
        }
        "axisswap" => {
            let k: usize = aspect.parse().unwrap();
            let fact: usize = (1..=k).product();
            let p = perm_of(c.pick(fact), k);
            let signs = c.pick(1 << k);
            let order: Vec<String> = (0..k).map(|i| format!("{}{}", if (signs >> i) & 1 == 1 { "-" } else { "" }, p[i] + 1)).collect();
            def = format!("axisswap order={}", order.join(","));
            pts = raw.pts.iter().map(arbitrary_pt).collect();
        }
        "adapt" => {
            let (pf, mut sf, uf) = (c.pick(24), c.pick(16), c.pick(5));
            let (mut pt, mut st, mut ut) = (c.pick(24), c.pick(16), c.pick(5));
            let factor = |u: usize| [0, 0, 0, 1, 2][u];
            match aspect {
                "noop" => {
                    pt = pf;
                    st = sf;
                    ut = uf;
                }
                "perm" => {
                    if pt == pf {
                        pt = (pf + 1) % 24;
                    }
                    sf = 0;
                    st = 0;
                    if factor(ut) != factor(uf) {
                        ut = uf;
                    }
                }
                "mult" => {
                    pt = pf;
                    if st == sf && factor(ut) == factor(uf) {
                        st = sf ^ 1;
                    }
                }
                _ => {
                    if pt == pf {
                        pt = (pf + 1) % 24;
                    }
                    if st == 0 && sf == 0 && factor(ut) == factor(uf) {
                        sf = 1 + c.pick(15);
                    }
                }
            }
            let from = adapt_descriptor(pf, sf, uf);
            let to = adapt_descriptor(pt, st, ut);
            let default_to = pt == 0 && st == 0 && ut == 0;
            let default_from = pf == 0 && sf == 0 && uf == 0;
            def = if default_to && c.flag(0.6) {
                format!("adapt from={from}")
            } else if default_from && c.flag(0.6) {
                format!("adapt to={to}")
            } else {
                format!("adapt from={from} to={to}")
            };
            // exact (bits) unless an angular unit factor is applied
            q.push(F(if factor(ut) == factor(uf) { 0.0 } else { 1.0 }));
            pts = raw.pts.iter().map(arbitrary_pt).collect();
        }
        "unitconvert" => {
            def = "unitconvert".to_string();
            match aspect {
                "linear" => {
                    def.push_str(&format!(" xy_in={} xy_out={}", LINEAR[c.pick(20)], LINEAR[c.pick(20)]));
                    if c.flag(0.5) {
                        def.push_str(&format!(" z_in={} z_out={}", LINEAR[c.pick(20)], LINEAR[c.pick(20)]));
                    }
                }
                "angular" => {
                    let (i, mut o) = (c.pick(3), c.pick(3));
                    if i == o {
                        o = (o + 1) % 3;
                    }
                    def.push_str(&format!(" xy_in={} xy_out={}", ANGULAR[i], ANGULAR[o]));
                    if c.flag(0.3) {
                        def.push_str(&format!(" z_out={}", LINEAR[c.pick(20)]));
                    }
                }
                _ => {
                    let (i, mut o) = (c.pick(20), c.pick(20));
                    if i == o {
                        o = (o + 1) % 20;
                    }
                    def.push_str(&format!(" z_in={} z_out={}", LINEAR[i], LINEAR[o]));
                }
            }
            pts = raw.pts.iter().map(arbitrary_pt).collect();
        }
        "helmert" => {
            def = "helmert".to_string();
            let special = aspect == "mixed-spellings" || aspect == "static+epochs";
            if special {
                let v3 = |c: &mut Cur, m: f64, dec: i32, pzero: f64| -> [f64; 3] {
                    let mut o = [0.0; 3];
                    for k in o.iter_mut() {
                        let v = rd(c.lin(-m, m), dec);
                        *k = if c.flag(pzero) { 0.0 } else { v };
                    }
                    o
                };
                let (tl, ts) = (v3(&mut c, 1000.0, 4, 0.0), v3(&mut c, 1000.0, 4, 0.3));
                let (rl, rs) = (v3(&mut c, 10.0, 5, 0.0), v3(&mut c, 10.0, 5, 0.3));
                let conv = if c.flag(0.5) { "coordinate_frame" } else { "position_vector" };
                if aspect == "mixed-spellings" {
                    // the scalar spelling wins where it is not 0, otherwise the list element counts
                    def.push_str(&format!(" translation={},{},{} x={} y={} z={}", tl[0], tl[1], tl[2], ts[0], ts[1], ts[2]));
                    def.push_str(&format!(" rotation={},{},{} rx={} ry={} rz={}", rl[0], rl[1], rl[2], rs[0], rs[1], rs[2]));
                    def.push_str(&format!(" scale={} s={} convention={conv}", rd(c.lin(-100.0, 100.0), 5), if c.flag(0.3) { 0.0 } else { rd(c.lin(-100.0, 100.0), 5) }));
                    let rr: f64 = (0..3).map(|i| (rl[i].abs().max(rs[i].abs()) / 3600.0).to_radians().powi(2)).sum();
                    q.push(F(rr));
                } else {
                    // no rates: t_epoch and t_obs have nothing to act on and the tuple epochs do not matter
                    def.push_str(&format!(" x={} y={} z={} rx={} ry={} rz={} s={} convention={conv} exact", tl[0], tl[1], tl[2], rl[0], rl[1], rl[2], rd(c.lin(-100.0, 100.0), 5)));
                    def.push_str(&format!(" t_epoch={} t_obs={}", rd(c.lin(1990.0, 2020.0), 2), rd(c.lin(1990.0, 2030.0), 2)));
                    q.push(F(0.0));
                }
            }
            let int = aspect == "translation-int";
            let dynamic = aspect.starts_with("dynamic") || aspect == "t_obs" || aspect == "static+epochs";
            if !special {
            let list = c.flag(0.4);
            let triple = |d: &mut String, names: [&str; 3], listname: &str, v: [f64; 3], list: bool| {
                if list {
                    d.push_str(&format!(" {listname}={},{},{}", v[0], v[1], v[2]));
                } else {
                    d.push_str(&format!(" {}={} {}={} {}={}", names[0], v[0], names[1], v[1], names[2], v[2]));
                }
            };
            let int = aspect == "translation-int";
            let t = [c.lin(-1000.0, 1000.0), c.lin(-1000.0, 1000.0), c.lin(-1000.0, 1000.0)];
            let t = if int { [t[0].round(), t[1].round(), t[2].round()] } else { [rd(t[0], 4), rd(t[1], 4), rd(t[2], 4)] };
            triple(&mut def, ["x", "y", "z"], "translation", t, list);
            let exact = aspect.starts_with("exact") || aspect == "dynamic-exact";
            let rotated = aspect.contains("angle") || aspect.starts_with("exact") || aspect.starts_with("dynamic") || aspect == "t_obs";
            let dynamic = aspect.starts_with("dynamic") || aspect == "t_obs";
            let mut rmax2 = 0.0; // (|r| + 50 |dr|)^2 in rad^2, for the small-angle bound
            if aspect != "translation-int" && aspect != "translation" {
                let s = rd(c.lin(-100.0, 100.0), 5);
                def.push_str(&format!(" {}={s}", if list { "scale" } else { "s" }));
            }
            if rotated {
                let amax = if exact && c.flag(0.5) { 648000.0 } else { 10.0 };
                let r = [rd(c.lin(-amax, amax), 5), rd(c.lin(-amax, amax), 5), rd(c.lin(-amax, amax), 5)];
                triple(&mut def, ["rx", "ry", "rz"], "rotation", r, list);
                let conv = if aspect.ends_with("-cf") || (dynamic && c.flag(0.5)) { "coordinate_frame" } else { "position_vector" };
                def.push_str(&format!(" convention={conv}"));
                if exact {
                    def.push_str(" exact");
                }
                let mut dr = [0.0; 3];
                if dynamic {
                    dr = [rd(c.lin(-0.01, 0.01), 6), rd(c.lin(-0.01, 0.01), 6), rd(c.lin(-0.01, 0.01), 6)];
                    let dt = [rd(c.lin(-0.1, 0.1), 5), rd(c.lin(-0.1, 0.1), 5), rd(c.lin(-0.1, 0.1), 5)];
                    triple(&mut def, ["dx", "dy", "dz"], "velocity", dt, list);
                    triple(&mut def, ["drx", "dry", "drz"], "angular_velocity", dr, list);
                    let ds = rd(c.lin(-0.01, 0.01), 6);
                    def.push_str(&format!(" {}={ds}", if list { "scale_trend" } else { "ds" }));
                    def.push_str(&format!(" t_epoch={}", rd(c.lin(1990.0, 2020.0), 2)));
                    if aspect == "t_obs" {
                        def.push_str(&format!(" t_obs={}", rd(c.lin(1990.0, 2030.0), 2)));
                    }
                }
                let rr: f64 = (0..3).map(|i| ((r[i].abs() + 50.0 * dr[i].abs()) / 3600.0).to_radians().powi(2)).sum();
                rmax2 = if exact { 0.0 } else { rr };
            }
            q.push(F(rmax2));
            }
            pts = raw
                .pts
                .iter()
                .map(|p| {
                    let (x, y, z) = if int {
                        (lin(p[0], -1.0e7, 1.0e7).round(), lin(p[1], -1.0e7, 1.0e7).round(), lin(p[2], -1.0e7, 1.0e7).round())
                    } else if p[4] < 0.7 {
                        // near the surface of the Earth
                        let (lon, lat) = globe(p, 0.0, 90.0, 180.0);
                        let xyz = El::grs80().cartesian(lon, lat, rlin(p[2], -1000.0, 9000.0));
                        (rd(xyz[0], 4), rd(xyz[1], 4), rd(xyz[2], 4))
                    } else {
                        (rd(rlin(p[0], -1.0e7, 1.0e7), 4), rd(rlin(p[1], -1.0e7, 1.0e7), 4), rd(rlin(p[2], -1.0e7, 1.0e7), 4))
                    };
                    let t = if dynamic || p[3] > 0.5 { rd(rlin(p[3], 1985.0, 2035.0), 2) } else { 0.0 };
                    p4(x, y, z, t)
                })
                .collect();
        }
        "cart" => {
            def = "cart".to_string();
            with_ell(&mut def, &ell, &mut c);
            let s = a / EARTH_A;
            pts = raw
                .pts
                .iter()
                .map(|p| {
                    let (lon, lat) = globe(p, 0.0, 90.0, 180.0);
                    let h = if aspect == "low" { rlin(p[2], -1.0e4, 1.0e5) } else { rlin(p[2], 1.0e5, 1.0e7) };
                    let h = if p[4] < 0.1 { 0.0 } else { rd(h * s, 4) };
                    p4(lon, lat, h, zt(p).1)
                })
                .collect();
        }
        "molodensky" => {
            def = "molodensky".to_string();
            let budget;
            if aspect.ends_with("-all") {
                // ellps, ellps_0/ellps_1 and da/df all given: whichever rule of precedence applies,
                // the tolerance covers every reading
                let (mut x, mut y, mut z) = (EARTHLIKE[c.pick(10)], EARTHLIKE[c.pick(10)], EARTHLIKE[c.pick(10)]);
                let da = rd(c.lin(-100.0, 100.0), 3);
                let df = rd(c.lin(-60.0, 60.0) / EARTH_A, 12);
                let delta = |x: &str, y: &str, z: &str| -> f64 {
                    let (a1, f1) = builtin(z);
                    [builtin(x), builtin(y), builtin("GRS80")]
                        .iter()
                        .map(|(a0, f0)| ((a1 - a0).abs() + a0 * (f1 - f0).abs()).max(da.abs() + a0 * df.abs()))
                        .fold(0.0, f64::max)
                };
                if delta(x, y, z) > 330.0 {
                    (x, y, z) = ("GRS80", "GRS80", "WGS84");
                }
                def.push_str(&format!(" ellps={x} ellps_0={y} ellps_1={z} da={da} df={df}"));
                (a, f) = builtin(x);
                ell = x.to_string();
                budget = 400.0 - delta(x, y, z);
                q.push(F(delta(x, y, z)));
            } else if aspect.ends_with("ellps01") {
                let (mut e0, mut e1) = (EARTHLIKE[c.pick(10)], EARTHLIKE[c.pick(10)]);
                let delta = |e0: &str, e1: &str| -> f64 {
                    // the library may take ellps_0 or the context default (GRS80) as the source: cover both
                    let (a1, f1) = builtin(e1);
                    [builtin(e0), builtin("GRS80")].iter().map(|(a0, f0)| (a1 - a0).abs() + a0 * (f1 - f0).abs()).fold(0.0, f64::max)
                };
                if delta(e0, e1) > 330.0 {
                    (e0, e1) = ("GRS80", "WGS84");
                }
                def.push_str(&format!(" ellps_0={e0} ellps_1={e1}"));
                (a, f) = builtin(e0);
                ell = e0.to_string();
                budget = 400.0 - delta(e0, e1);
                q.push(F(delta(e0, e1)));
            } else {
                let da = rd(c.lin(-150.0, 150.0), 3);
                let adf = c.lin(-100.0, 100.0);
                let df = rd(adf / a, 12);
                def.push_str(&format!(" da={da} df={df}"));
                with_ell(&mut def, &ell, &mut c);
                budget = 400.0 - da.abs() - a * df.abs();
                q.push(F(da.abs() + a * df.abs()));
            }
            let m = budget / 3f64.sqrt();
            let d = [rd(c.lin(-m, m), 3), rd(c.lin(-m, m), 3), rd(c.lin(-m, m), 3)];
            def.push_str(&format!(" dx={} dy={} dz={}", d[0], d[1], d[2]));
            if aspect.starts_with("abridged") {
                def.push_str(" abridged");
            }
            q[0] = F(q[0].0 + (d[0] * d[0] + d[1] * d[1] + d[2] * d[2]).sqrt());
            pts = raw
                .pts
                .iter()
                .map(|p| {
                    let (lon, lat) = globe(p, 0.0, 85.0, 180.0);
                    p4(lon, lat, if p[2] < 0.2 { 0.0 } else { rd(rlin(p[2], -100.0, 9000.0), 3) }, zt(p).1)
                })
                .collect();
        }
        "latitude" => {
            def = format!("latitude {aspect}");
            with_ell(&mut def, &ell, &mut c);
            pts = raw
                .pts
                .iter()
                .map(|p| {
                    let (lon, lat) = globe(p, 0.0, 90.0, 180.0);
                    geo2(lon, lat, p)
                })
                .collect();
        }
        "permtide" => {
            let sys = ["mean", "zero", "free"];
            def = format!("permtide from={} to={}", sys[c.pick(3)], sys[c.pick(3)]);
            if c.flag(0.5) {
                def.push_str(&format!(" k={}", rd(c.lin(0.2, 0.4), 4)));
            }
            with_ell(&mut def, &ell, &mut c);
            pts = raw
                .pts
                .iter()
                .map(|p| {
                    let (lon, lat) = globe(p, 0.0, 90.0, 180.0);
                    p4(lon, lat, rd(rlin(p[2], -120.0, 9000.0), 4), zt(p).1)
                })
                .collect();
        }
        "dm-out" | "dms-out" => {
            // (lat, lon) in degrees -> radians -> written as DDDMM.mmm / DDDMMSS.sss
            let forms = iso_forms(op);
            def = forms[match aspect { "geo:in" => 0, "adapt" => 1, _ => 2 }].clone();
            pts = raw
                .pts
                .iter()
                .map(|p| {
                    let (z, t) = zt(p);
                    if !round_mode() {
                        let s = |w: f64| if w > 0.5 { -1.0 } else { 1.0 };
                        return p4(s(p[2]) * lin(p[1], 0.0, 89.0), s(p[3]) * lin(p[0], 0.0, 179.0), z, t);
                    }
                    // whole degrees / minutes / seconds as typed in decimal degrees, and doubles a few ulp from them
                    let angle = |u: f64, w: f64, dmax: f64, i: usize| -> f64 {
                        let sign = if w > 0.5 { -1.0 } else { 1.0 };
                        let d = if (w * 10.0) as usize % 5 == 0 { 0.0 } else { (u * dmax).floor() };
                        let m = CARRY_MINUTES[((u * 8191.0).fract() * 6.0) as usize % 6];
                        let sec = CARRY_SECONDS[((u * 131071.0).fract() * 6.0) as usize % 6];
                        let v = d + m / 60.0 + sec / 3600.0;
                        sign * ulps_from(v, ulp_offset(i, v))
                    };
                    p4(angle(p[1], p[2], 89.0, 1), angle(p[0], p[3], 179.0, 2), z, t)
                })
                .collect();
        }
        "dm" | "dms" => {
            def = if aspect == "pipeline" { iso_forms(op)[1 + c.pick(3)].clone() } else { op.to_string() };
            pts = raw
                .pts
                .iter()
                .map(|p| {
                    if round_mode() {
                        // whole degrees (also zero), whole minutes, whole seconds, and the last
                        // representable fraction below / first above a carry: all fields valid (< 60)
                        let enc = |u: f64, w: f64, dmax: f64| -> f64 {
                            let sign = if w > 0.5 { -1.0 } else { 1.0 };
                            let d = if (w * 10.0) as usize % 5 == 0 { 0.0 } else { (u * dmax).floor() };
                            let m = CARRY_MINUTES[((u * 8191.0).fract() * 6.0) as usize % 6];
                            let sec = CARRY_SECONDS[((u * 131071.0).fract() * 6.0) as usize % 6];
                            let tiny = if op == "dm" { 1.0e-7 } else { 1.0e-6 };
                            let frac = [0.0, 0.0, 0.0, tiny, 1.0 - tiny, 0.5][((u * 524287.0).fract() * 6.0) as usize % 6];
                            iso_encode(op == "dms", sign, d, m, sec, frac)
                        };
                        let (z, t) = zt(p);
                        return p4(enc(p[1], p[2], 89.0), enc(p[0], p[3], 179.0), z, t);
                    }
                    let enc = |u: f64, dmax: f64, w: f64| -> f64 {
                        let sign = if w > 0.5 { -1.0 } else { 1.0 };
                        let v = u * dmax; // degrees
                        let d = v.floor();
                        let m = (v - d) * 60.0;
                        if op == "dm" {
                            let m = rd(m, 7).min(59.9999999);
                            sign * (d * 100.0 + m)
                        } else {
                            let mi = m.floor();
                            let s = rd((m - mi) * 60.0, 6).min(59.999999);
                            sign * (d * 10000.0 + mi * 100.0 + s)
                        }
                    };
                    let small = p[4] > 0.9; // |angle| < 1 degree: sign carried by the float only
                    let lat = enc(if small { p[1] / 89.0 } else { p[1] }, 89.0, p[2]);
                    let lon = enc(if small { p[0] / 179.0 } else { p[0] }, 179.0, p[3]);
                    let (z, t) = zt(p);
                    p4(lat, lon, z, t)
                })
                .collect();
        }
        "geodesic" => {
            def = "geodesic reversible".to_string();
            with_ell(&mut def, &ell, &mut c);
            let s = a / EARTH_A;
            pts = raw
                .pts
                .iter()
                .map(|p| {
                    let mut lat = rd(rlin(p[1], -89.0, 89.0), 7);
                    let lon = rd(rlin(p[0], -180.0, 180.0), 7);
                    let mut az = rd(rlin(p[2], -180.0, 180.0), 6);
                    // distance 1 m .. 18 000 km (log-uniform), scaled to the size of the ellipsoid
                    // (round-value mode: 1, 10, 100 ... metres and their square roots)
                    let d = rd(10f64.powf(rlin(p[3], 0.0, 7.2553)) * s, 4);
                    match aspect {
                        "meridional" => az = if p[2] < 0.5 { 0.0 } else { 180.0 },
                        "equatorial" => {
                            lat = 0.0;
                            az = if p[2] < 0.5 { 90.0 } else { -90.0 };
                        }
                        "short" => {
                            // very short lines: 1 um .. 10 m (log-uniform), exactly 0, all azimuths
                            // (incl. the cardinal ones) and latitudes (incl. the equator)
                            let d = if p[4] > 0.95 { 0.0 } else { rd(10f64.powf(rlin(p[3], -6.0, 1.0)) * s, 9) };
                            if p[4] > 0.8 && p[4] <= 0.95 {
                                az = [0.0, 90.0, 180.0, -90.0, -180.0][((p[4] - 0.8) / 0.15 * 5.0) as usize % 5];
                            }
                            if p[4] > 0.7 && p[4] <= 0.8 {
                                lat = 0.0;
                            }
                            return p4(lat, lon, az, d);
                        }
                        _ => {}
                    }
                    p4(lat, lon, az, d)
                })
                .collect();
        }
        _ => {
            return build_projection(raw, op, aspect, c, ell, a, f, el);
        }
    }
    Case { op: op.into(), aspect: aspect.into(), def, macros, ell, a: F(a), f: F(f), q, grids: std::mem::take(&mut grids), pts, round: round_mode(), ystart: vec![] }
}

#[allow(clippy::too_many_arguments)]
fn build_projection(raw: &Raw, op: &str, aspect: &str, mut c: Cur, mut ell: String, mut a: f64, mut f: f64, mut el: El) -> Case {
    if op == "deformation" && a < 6.0e6 {
        // velocities of cm/year only make sense on an Earth sized body
        ell = "GRS80".to_string();
        (a, f) = builtin("GRS80");
        el = El { a, f };
    }
    let mut q: Vec<F> = vec![];
    let mut grids: Vec<GridSpec> = vec![];
    let mut def: String = op.to_string();
    let pts: Vec<P4>;
    // the antimeridian class: a healthy base aspect, central meridian within 15 degrees of +-180
    let wrap = aspect == "wrap";
    let aspect = if wrap {
        match op {
            "lcc" => "2sp-north",
            "omerc" => "A-north",
            "somerc" => "north",
            "laea" => "oblique-north",
            "utm" | "butm" => "north",
            _ => "plain",
        }
    } else {
        aspect
    };
    let geo2 = |lon: f64, lat: f64, p: &[f64; 5]| {
        let (z, t) = zt(p);
        p4(lon, lat, z, t)
    };
    let ellps = |d: &mut String, c: &mut Cur| {
        if !(ell == "GRS80" && c.flag(0.5)) {
            d.push_str(&format!(" ellps={ell}"));
        }
    };
    match op {
        "tmerc" | "btmerc" => {
            let width = if op == "tmerc" { 30.0 } else { 3.0 };
            let l0 = lon_0(&mut c, &mut def, wrap);
            if aspect == "lat_0" {
                let mut lat0 = rd(c.lin(-80.0, 80.0), 4);
                if lat0 == 0.0 {
                    lat0 = 0.5;
                }
                def.push_str(&format!(" lat_0={lat0}"));
            }
            scale_k0(&mut c, &mut def);
            false_origin(&mut c, &mut def);
            ellps(&mut def, &mut c);
            pts = raw.pts.iter().map(|p| { let (lon, lat) = globe(p, l0, 89.9, width); geo2(lon, lat, p) }).collect();
        }
        "utm" | "butm" => {
            let width = if op == "utm" { 30.0 } else { 3.0 };
            let zone = if wrap { [1, 60][c.pick(2)] } else { 1 + c.pick(60) };
            def.push_str(&format!(" zone={zone}"));
            if aspect == "south" {
                def.push_str(" south");
            }
            if c.flag(0.25) {
                // not in the gamut of utm: fixed by the zone, must be ignored in both directions
                def.push_str(" lon_0=5 k_0=0.9 x_0=3 lat_0=10");
            }
            ellps(&mut def, &mut c);
            let l0 = -183.0 + 6.0 * zone as f64;
            pts = raw.pts.iter().map(|p| { let (lon, lat) = globe(p, l0, 89.9, width); geo2(lon, lat, p) }).collect();
        }
        "merc" => {
            let mut l0 = 0.0;
            match aspect {
                "k_0" => def.push_str(&format!(" k_0={}", rd(c.lin(0.5, 1.5), 6))),
                "lat_ts" => {
                    let mut ts = rd(c.lin(-85.0, 85.0), 4);
                    if ts == 0.0 {
                        ts = 1.0;
                    }
                    def.push_str(&format!(" lat_ts={ts}"));
                }
                "plain" if wrap => l0 = 0.0,
                "lat_ts+k_0" => {
                    // lat_ts (if not 0) takes precedence over k_0
                    let ts = if c.flag(0.8) { rd(c.lin(-85.0, 85.0), 4) } else { 0.0 };
                    def.push_str(&format!(" lat_ts={ts} k_0={}", rd(c.lin(0.5, 1.5), 6)));
                }
                "lon_0" => {
                    l0 = rd(c.lin(-180.0, 180.0), 4);
                    if l0 == 0.0 {
                        l0 = 9.0;
                    }
                    def.push_str(&format!(" lon_0={l0}"));
                }
                "lat_0" => {
                    let mut lat0 = rd(c.lin(-80.0, 80.0), 4);
                    if lat0 == 0.0 {
                        lat0 = 54.0;
                    }
                    def.push_str(&format!(" lat_0={lat0}"));
                }
                "false-origin" => {
                    def.push_str(&format!(" x_0={} y_0={}", rd(c.lin(-2.0e6, 2.0e6), 2), rd(c.lin(-2.0e6, 2.0e6), 2)));
                    if c.flag(0.5) {
                        def.push_str(&format!(" k_0={}", rd(c.lin(0.5, 1.5), 6)));
                    }
                }
                _ => {}
            }
            ellps(&mut def, &mut c);
            pts = raw.pts.iter().map(|p| { let (lon, lat) = globe(p, l0, 89.9, 179.9); geo2(lon, lat, p) }).collect();
        }
        "webmerc" => {
            // the operator's own default is WGS84, the context default GRS80: always explicit
            def.push_str(&format!(" ellps={ell}"));
            pts = raw.pts.iter().map(|p| { let (lon, lat) = globe(p, 0.0, 89.9, 180.0); geo2(lon, lat, p) }).collect();
        }
        "lcc" => {
            let south = aspect.ends_with("south") || (["lat_0", "2sp-straddle", "2sp-equal"].contains(&aspect) && c.flag(0.5));
            let sg = if south { -1.0 } else { 1.0 };
            let (lat1, lat2): (f64, Option<f64>) = match aspect {
                "1sp-north" | "1sp-south" => (sg * rd(c.lin(5.0, 85.0), 3), None),
                "2sp-equal" => {
                    let p = sg * rd(c.lin(5.0, 85.0), 3);
                    (p, Some(p))
                }
                "2sp-north" | "2sp-south" | "lat_0" => {
                    let p1 = rd(c.lin(5.0, 80.0), 3);
                    let p2 = rd((p1 + c.lin(1.0, 30.0)).min(85.0), 3);
                    if c.flag(0.5) { (sg * p1, Some(sg * p2)) } else { (sg * p2, Some(sg * p1)) }
                }
                _ => {
                    // standard parallels on both sides of the equator, |lat_1 + lat_2| >= 5
                    let p1 = rd(c.lin(1.0, 30.0), 3);
                    let p2 = rd(c.lin(p1 + 5.0, 75.0), 3);
                    (-sg * p1, Some(sg * p2))
                }
            };
            def.push_str(&format!(" lat_1={lat1}"));
            if let Some(l2) = lat2 {
                def.push_str(&format!(" lat_2={l2}"));
            }
            if aspect == "lat_0" || c.flag(0.3) {
                def.push_str(&format!(" lat_0={}", rd(c.lin(-85.0, 85.0), 3)));
            }
            let l0 = lon_0(&mut c, &mut def, wrap);
            scale_k0(&mut c, &mut def);
            false_origin(&mut c, &mut def);
            ellps(&mut def, &mut c);
            pts = raw.pts.iter().map(|p| { let (lon, lat) = globe(p, l0, 89.9, 179.9); geo2(lon, lat, p) }).collect();
        }
        "laea" => {
            let lat0 = match aspect {
                "oblique-north" => rd(c.lin(0.5, 89.0), 4),
                "oblique-south" => -rd(c.lin(0.5, 89.0), 4),
                "equatorial" => 0.0,
                "north-polar" => 90.0,
                _ => -90.0,
            };
            if !(lat0 == 0.0 && c.flag(0.5)) {
                def.push_str(&format!(" lat_0={lat0}"));
            }
            let l0 = lon_0(&mut c, &mut def, wrap);
            false_origin(&mut c, &mut def);
            ellps(&mut def, &mut c);
            pts = raw
                .pts
                .iter()
                .map(|p| {
                    let (mut lon, mut lat) = disc(p, l0, lat0, 148.0);
                    if p[4] > 0.84 && p[4] < 0.88 {
                        // 0.0001 .. 1 degree from the geographic pole on the side of the centre
                        lat = (90.0 - 10f64.powf(-4.0 * p[1])).to_radians() * if lat0 < 0.0 { -1.0 } else { 1.0 };
                        lon = (l0 + lin(p[0], -180.0, 180.0)).to_radians();
                    }
                    geo2(lon, lat, p)
                })
                .collect();
        }
        "omerc" => {
            let south = aspect.ends_with("south") || (!aspect.ends_with("north") && c.flag(0.5));
            let latc = rd(c.lin(2.0, 80.0), 4) * if south { -1.0 } else { 1.0 };
            let lonc = if wrap { rd(c.lin(172.0, 180.0), 4) * if c.flag(0.5) { -1.0 } else { 1.0 } } else { rd(c.lin(-180.0, 180.0), 4) };
            let alpha = if aspect.ends_with("alpha90") {
                90.0
            } else if aspect.ends_with("alpha-90") {
                -90.0
            } else if aspect.ends_with("boundary") {
                // exact boundary azimuths: 270 (= -90), +-180 and 0 (initial line along the meridian)
                [270.0, 180.0, -180.0, 0.0][c.pick(4)]
            } else {
                rd(c.lin(1.0, 179.0), 5) * if c.flag(0.3) { -1.0 } else { 1.0 }
            };
            def.push_str(&format!(" latc={latc} lonc={lonc} alpha={alpha}"));
            if !aspect.starts_with("laborde") {
                let g = if c.flag(0.5) { alpha } else { rd(alpha + c.lin(-2.0, 2.0), 5) };
                def.push_str(&format!(" gamma_c={g}"));
            }
            if aspect.starts_with("B-") {
                def.push_str(" variant");
            }
            scale_k0(&mut c, &mut def);
            false_origin(&mut c, &mut def);
            ellps(&mut def, &mut c);
            pts = raw.pts.iter().map(|p| { let (lon, lat) = disc(p, lonc, latc, 8.0); geo2(lon, lat, p) }).collect();
        }
        "somerc" => {
            let lat0 = match aspect {
                "north" => rd(c.lin(1.0, 80.0), 6),
                "south" => -rd(c.lin(1.0, 80.0), 6),
                _ => 0.0,
            };
            if !(lat0 == 0.0 && c.flag(0.5)) {
                def.push_str(&format!(" lat_0={lat0}"));
            }
            let l0 = lon_0(&mut c, &mut def, wrap);
            scale_k0(&mut c, &mut def);
            false_origin(&mut c, &mut def);
            ellps(&mut def, &mut c);
            pts = raw.pts.iter().map(|p| { let (lon, lat) = disc(p, l0, lat0, 8.0); geo2(lon, lat, p) }).collect();
        }
        "gridshift" => {
            let list = aspect.ends_with("-list");
            let geoid = aspect.starts_with("geoid");
            if geoid {
                grids.push(grid_spec(&mut c, "g1", 1, 50.0, 5.0, false));
            } else {
                grids.push(grid_spec(&mut c, "g1", 2, 10.0, 2.0, false));
            }
            def = if list {
                // an optional missing grid first, then the detail grid, then a coarse grid around it
                // whose corrections differ: every tuple must be served by the same grid in both
                // directions, whatever tuples come before it in the operand set
                let g2 = if geoid { coarse_around(&mut c, &grids[0], "g2", 1, 50.0, 5.0) } else { coarse_around(&mut c, &grids[0], "g2", 2, 10.0, 2.0) };
                grids.push(g2);
                "gridshift grids=@missing,g1,g2".to_string()
            } else {
                "gridshift grids=g1".to_string()
            };
            let g = grids[0].clone();
            pts = raw
                .pts
                .iter()
                .map(|p| {
                    let (lon, lat) = if list { mixed_coverage(&g, p) } else { g.interior(p) };
                    p4(lon.to_radians(), lat.to_radians(), rd(rlin(p[2], -100.0, 3000.0), 3), zt(p).1)
                })
                .collect();
        }
        "deformation" => {
            grids.push(grid_spec(&mut c, "v1", 3, 30.0, 4.0, false));
            def = "deformation grids=v1".to_string();
            let list = aspect == "dt-list";
            if list {
                let v2 = coarse_around(&mut c, &grids[0], "v2", 3, 30.0, 4.0);
                grids.push(v2);
                def = "deformation grids=v1,v2".to_string();
            }
            let dt;
            if aspect == "dt" || list {
                dt = rd(c.lin(-30.0, 30.0), 2);
                def.push_str(&format!(" dt={dt}"));
            } else if aspect == "dt+t_epoch" {
                // both given: whichever takes precedence, both directions must use the same duration;
                // the epochs of the points are unrelated to t_epoch + dt
                let d = rd(c.lin(-30.0, 30.0), 2);
                let e = rd(c.lin(1990.0, 2020.0), 2);
                if c.flag(0.5) {
                    def.push_str(&format!(" dt={d} t_epoch={e}"));
                } else {
                    def.push_str(&format!(" t_epoch={e} dt={d}"));
                }
                dt = d.abs().max((e - 1985.0).abs()).max((e - 2035.0).abs());
            } else {
                let e = rd(c.lin(1990.0, 2020.0), 2);
                def.push_str(&format!(" t_epoch={e}"));
                dt = (e - 1985.0).abs().max((e - 2035.0).abs());
            }
            ellps(&mut def, &mut c);
            q.push(F(dt.abs()));
            let g = grids[0].clone();
            pts = raw
                .pts
                .iter()
                .map(|p| {
                    let (lon, lat) = if list { mixed_coverage(&g, p) } else { g.interior(p) };
                    let xyz = el.cartesian(lon.to_radians(), lat.to_radians(), rlin(p[2], -100.0, 3000.0) * a / EARTH_A);
                    p4(xyz[0], xyz[1], xyz[2], rd(rlin(p[3], 1985.0, 2035.0), 2))
                })
                .collect();
        }
        other => panic!("catalogue entry without builder: {other}"),
    }
    let mut pts = pts;
    if wrap {
        // longitudes given in (-180, 180]: points close to the central meridian but on the
        // other side of the antimeridian are then numerically ~360 degrees away from it
        for p in pts.iter_mut() {
            p[0] = F(wrap_pi(p[0].0));
        }
    }
    let aspect = if wrap { "wrap".to_string() } else { aspect.to_string() };
    Case { op: op.into(), aspect, def, macros: vec![], ell, a: F(a), f: F(f), q, grids, pts, round: round_mode(), ystart: vec![] }
}

/// grid files shipped with the library: (operator, path below geodesy/, definition tail, lat_s, lat_n, lon_w, lon_e)
const FILE_GRIDS: &[(&str, &str, &str, f64, f64, f64, f64)] = &[
    ("gridshift", "datum/test.datum", "", 54.0, 58.0, 8.0, 16.0),
    ("gridshift", "geoid/test.geoid", "", 54.0, 58.0, 8.0, 16.0),
    ("gridshift", "gsb/5458.gsb", "", 54.0, 58.0, 8.0, 16.0),
    ("gridshift", "gsb/5458_with_subgrid.gsb", "", 54.0, 58.0, 8.0, 16.0),
    ("gridshift", "gsb/100800401.gsb", "", 40.0, 43.0, 0.0, 3.5),
    // detail grid (55.5..57.5 N, 11..13 E) listed ahead of the grid around it, corrections differ
    ("gridshift", "datum/test_subset.datum", ", test.datum", 54.0, 58.0, 8.0, 16.0),
    ("deformation", "deformation/test.deformation", " dt=25", 54.0, 58.0, 8.0, 16.0),
    ("deformation", "deformation/eur_nkg_nkgrf17vel.deformation", " t_epoch=2000", 49.0, 75.0, 0.0, 50.0),
    ("deformation", "deformation/test.deformation", " dt=25 t_epoch=2010", 54.0, 58.0, 8.0, 16.0),
    ("deformation", "deformation/eur_nkg_nkgrf17vel.deformation", " t_epoch=2000 dt=-20", 49.0, 75.0, 0.0, 50.0),
];

fn build_file_case(raw: &Raw) -> Case {
    let (op, path, tail, lat_s, lat_n, lon_w, lon_e) = FILE_GRIDS[raw.kind % FILE_GRIDS.len()];
    let name = path.rsplit('/').next().unwrap();
    let (a, f) = builtin("GRS80");
    let el = El { a, f };
    let pts = raw
        .pts
        .iter()
        .map(|p| {
            let mut lat = rlin(p[1], lat_s + 0.05 * (lat_n - lat_s), lat_n - 0.05 * (lat_n - lat_s));
            let mut lon = rlin(p[0], lon_w + 0.05 * (lon_e - lon_w), lon_e - 0.05 * (lon_e - lon_w));
            if name == "5458_with_subgrid.gsb" {
                // the synthetic sub-grid (55..56 N, 12..14 E) is not continuous with its parent: the
                // shift jumps at its border, where a shift of 0.016 degrees is not invertible. Stay
                // 0.1 degree away from the border (real NTv2 sub-grids are continuous by construction)
                for edge in [55.0, 56.0] {
                    if (lat - edge).abs() < 0.1 {
                        lat += 0.25;
                    }
                }
                for edge in [12.0, 14.0] {
                    if (lon - edge).abs() < 0.1 {
                        lon += 0.25;
                    }
                }
            }
            if name == "test_subset.datum" {
                // the two grids differ: stay 0.1 degree away from the border of the detail grid,
                // where the combined shift jumps and is not invertible
                for edge in [55.5, 57.5] {
                    if (lat - edge).abs() < 0.1 {
                        lat += 0.25;
                    }
                }
                for edge in [11.0, 13.0] {
                    if (lon - edge).abs() < 0.1 {
                        lon += 0.25;
                    }
                }
            }
            let (lat, lon) = (lat.to_radians(), lon.to_radians());
            let h = rd(rlin(p[2], -100.0, 3000.0), 3);
            if op == "deformation" {
                let xyz = el.cartesian(lon, lat, h);
                p4(xyz[0], xyz[1], xyz[2], rd(rlin(p[3], 1985.0, 2035.0), 2))
            } else {
                p4(lon, lat, h, zt(p).1)
            }
        })
        .collect();
    Case {
        op: format!("{op}-file"),
        aspect: if tail.contains("dt=") && tail.contains("t_epoch=") {
            format!("{name}+dt+t_epoch")
        } else if let Some(second) = tail.strip_prefix(", ") {
            format!("{name}+{second}")
        } else {
            name.to_string()
        },
        def: format!("{op} grids={name}{tail}"),
        macros: vec![],
        ell: "GRS80".into(),
        a: F(a),
        f: F(f),
        q: vec![],
        grids: vec![],
        pts,
        round: round_mode(),
        ystart: vec![],
    }
}

// ---- metrics -------------------------------------------------------------------------

fn spaces(op: &str) -> (Sp, Sp) {
    match op {
        "noop" | "addone" | "axisswap" | "adapt" | "unitconvert" => (Sp::Raw, Sp::Raw),
        "helmert" | "deformation" | "deformation-file" => (Sp::Cart, Sp::Cart),
        "gridshift-file" => (Sp::Geo, Sp::Geo),
        // the image of cart is judged through the Jacobian: a displacement at a height of
        // millions of metres is (N+h)/N times the displacement of the foot point on the ground
        "cart" => (Sp::Geo, Sp::Plane),
        "molodensky" | "permtide" | "gridshift" => (Sp::Geo, Sp::Geo),
        "latitude" => (Sp::Geo, Sp::AuxLat),
        "dm" => (Sp::Iso(false), Sp::Geo),
        "dms" => (Sp::Iso(true), Sp::Geo),
        "dm-out" => (Sp::GeoDeg, Sp::Iso(false)),
        "dms-out" => (Sp::GeoDeg, Sp::Iso(true)),
        "geodesic" => (Sp::GeodIn, Sp::GeodOut),
        "pipeline:geo" => (Sp::GeoDeg, Sp::Any),
        "pipeline:gis" => (Sp::GisDeg, Sp::Any),
        "pipeline:rad" => (Sp::Geo, Sp::Any),
        _ => (Sp::Geo, Sp::Plane),
    }
}

/// which of the four elements the operator works on; the others must survive bit for bit
fn touched(op: &str, aspect: &str) -> [bool; 4] {
    match op {
        "helmert" | "cart" | "molodensky" | "deformation" | "pipeline:geo" | "pipeline:gis" | "pipeline:rad" => [true, true, true, false],
        "permtide" => [false, false, true, false],
        "gridshift" if aspect.starts_with("geoid") => [false, false, true, false],
        "gridshift-file" if aspect == "test.geoid" => [false, false, true, false],
        "deformation-file" => [true, true, true, false],
        "geodesic" | "noop" | "addone" | "axisswap" | "adapt" | "unitconvert" => [true; 4],
        _ => [true, true, false, false],
    }
}

fn iso_decode(v: f64, dms: bool) -> f64 {
    // reference decoder written from the format description: DDDMM.mmm / DDDMMSS.sss -> degrees
    let s = if v.is_sign_negative() { -1.0 } else { 1.0 };
    let v = v.abs();
    if dms {
        let d = (v / 10000.0).floor();
        let m = ((v - d * 10000.0) / 100.0).floor();
        let sec = v - d * 10000.0 - m * 100.0;
        s * (d + m / 60.0 + sec / 3600.0)
    } else {
        let d = (v / 100.0).floor();
        let m = v - d * 100.0;
        s * (d + m / 60.0)
    }
}

fn geo_err(el: &El, lon0: f64, lat0: f64, h0: f64, lon1: f64, lat1: f64, h1: f64) -> f64 {
    let e = el.n(lat0) * lat0.cos().abs() * wrap_pi(lon1 - lon0);
    let n = el.m(lat0) * (lat1 - lat0);
    let u = h1 - h0;
    (e * e + n * n + u * u).sqrt()
}

/// distance in ground metres between the expected tuple p and the obtained tuple r in space sp
fn err_m(sp: Sp, el: &El, p: &Coor4D, r: &Coor4D) -> f64 {
    match sp {
        Sp::Geo => geo_err(el, p[0], p[1], p[2], r[0], r[1], r[2]),
        Sp::GeoDeg => geo_err(el, p[1].to_radians(), p[0].to_radians(), p[2], r[1].to_radians(), r[0].to_radians(), r[2]),
        Sp::GisDeg => geo_err(el, p[0].to_radians(), p[1].to_radians(), p[2], r[0].to_radians(), r[1].to_radians(), r[2]),
        Sp::Cart | Sp::Plane => ((r[0] - p[0]).powi(2) + (r[1] - p[1]).powi(2) + (r[2] - p[2]).powi(2)).sqrt(),
        Sp::AuxLat => {
            let e = el.n(p[1]) * p[1].cos().abs() * wrap_pi(r[0] - p[0]);
            (e * e + (el.a * (r[1] - p[1])).powi(2)).sqrt()
        }
        Sp::Iso(dms) => {
            let sphere = El { a: EARTH_A, f: 0.0 };
            let (la0, lo0) = (iso_decode(p[0], dms).to_radians(), iso_decode(p[1], dms).to_radians());
            let (la1, lo1) = (iso_decode(r[0], dms).to_radians(), iso_decode(r[1], dms).to_radians());
            geo_err(&sphere, lo0, la0, 0.0, lo1, la1, 0.0)
        }
        Sp::GeodIn => {
            let start = geo_err(el, p[1].to_radians(), p[0].to_radians(), 0.0, r[1].to_radians(), r[0].to_radians(), 0.0);
            // an azimuth error displaces the far end of the line by (reduced length) x (angle)
            let az = wrap_pi((r[2] - p[2]).to_radians()) * el.a * (p[3] / el.a).sin().abs();
            let d = r[3] - p[3];
            (start * start + az * az + d * d).sqrt()
        }
        Sp::GeodOut => {
            let e2 = geo_err(el, p[1].to_radians(), p[0].to_radians(), 0.0, r[1].to_radians(), r[0].to_radians(), 0.0);
            let e1 = geo_err(el, p[3].to_radians(), p[2].to_radians(), 0.0, r[3].to_radians(), r[2].to_radians(), 0.0);
            e1.hypot(e2)
        }
        Sp::Raw | Sp::Any => f64::NAN,
    }
}

/// round an image onto the 1 mm lattice of its space (so that it is in the range of the
/// operator but not an exact image)
fn lattice(sp: Sp, c: &Coor4D, el: &El) -> Coor4D {
    let r = |v: f64, step: f64| (v / step).round() * step;
    // 1 mm on the Earth; proportionally less on a (much) smaller body, where 1 mm is a large angle
    let mm = if el.a < 1.0e6 && sp == Sp::Plane { 1.0e3 * EARTH_A / el.a } else { 1.0e3 };
    let mut o = *c;
    match sp {
        Sp::Geo | Sp::AuxLat => {
            o[0] = r(c[0], 1e-10);
            o[1] = r(c[1], 1e-10).clamp(-FRAC_PI_2, FRAC_PI_2); // stay in the range
            o[2] = r(c[2], 1e-3);
        }
        Sp::GeoDeg | Sp::GisDeg => {
            o[0] = r(c[0], 1e-8);
            o[1] = r(c[1], 1e-8);
            o[2] = r(c[2], 1e-3);
        }
        Sp::GeodOut => {
            for i in 0..4 {
                o[i] = r(c[i], 1e-8);
            }
        }
        Sp::Raw => {
            for i in 0..4 {
                o[i] = (c[i] * 1000.0).round() / 1000.0;
            }
        }
        Sp::Iso(dms) => {
            // 0.001 minutes / seconds; where that would round a field up to 60.000 (not a valid
            // number, and not one the library wrote) the written number itself is kept
            for i in 0..2 {
                let r = (c[i] * 1000.0).round() / 1000.0;
                let mut probe = Coor4D::origin();
                probe[0] = r;
                o[i] = if iso_fields_60(&[probe], dms) > 0 { c[i] } else { r };
            }
        }
        Sp::Any => {
            // ten significant digits: at most 1 mm for metres, kilometres, feet, degrees, radians
            for i in 0..3 {
                if c[i] != 0.0 && c[i].is_finite() {
                    let m = 10f64.powi(9 - c[i].abs().log10().floor() as i32);
                    o[i] = (c[i] * m).round() / m;
                }
            }
        }
        _ => {
            for i in 0..3 {
                o[i] = (c[i] * mm).round() / mm;
            }
        }
    }
    for i in 0..4 {
        if !o[i].is_finite() {
            o[i] = c[i];
        }
    }
    o
}

/// move a tuple of an input space by `s` ground metres to the east / north / up (k = 0, 1, 2)
fn nudge(sp: Sp, el: &El, p: &Coor4D, k: usize, s: f64) -> Coor4D {
    let mut o = *p;
    let (ilon, ilat, deg) = match sp {
        Sp::GeoDeg => (1, 0, true),
        Sp::GisDeg => (0, 1, true),
        _ => (0, 1, false),
    };
    let lat = if deg { p[ilat].to_radians() } else { p[ilat] };
    let d = match k {
        0 => s / (el.n(lat) * lat.cos()),
        1 => s / el.m(lat),
        _ => s,
    };
    match k {
        0 => o[ilon] += if deg { d.to_degrees() } else { d },
        1 => o[ilat] += if deg { d.to_degrees() } else { d },
        _ => o[2] += d,
    }
    o
}

fn solve3(j: &[[f64; 3]; 3], d: &[f64; 3]) -> Option<[f64; 3]> {
    let det = j[0][0] * (j[1][1] * j[2][2] - j[1][2] * j[2][1]) - j[0][1] * (j[1][0] * j[2][2] - j[1][2] * j[2][0])
        + j[0][2] * (j[1][0] * j[2][1] - j[1][1] * j[2][0]);
    let norm = |c: usize| (j[0][c] * j[0][c] + j[1][c] * j[1][c] + j[2][c] * j[2][c]).sqrt();
    let scale = norm(0) * norm(1) * norm(2);
    if !det.is_finite() || !(det.abs() > 1e-9 * scale) || scale == 0.0 {
        return None;
    }
    let mut out = [0.0; 3];
    for k in 0..3 {
        let mut m = *j;
        for r in 0..3 {
            m[r][k] = d[r];
        }
        let dk = m[0][0] * (m[1][1] * m[2][2] - m[1][2] * m[2][1]) - m[0][1] * (m[1][0] * m[2][2] - m[1][2] * m[2][0])
            + m[0][2] * (m[1][0] * m[2][1] - m[1][1] * m[2][0]);
        out[k] = dk / det;
    }
    Some(out)
}

fn exact_mode(case: &Case) -> Option<Exact> {
    match (case.op.as_str(), case.aspect.as_str()) {
        ("noop", _) | ("axisswap", _) => Some(Exact::Bits),
        ("addone", "integer") | ("helmert", "translation-int") => Some(Exact::Equal),
        ("adapt", _) => Some(if case.q.first().map(|q| q.0) == Some(0.0) { Exact::Bits } else { Exact::Ulps(4.0) }),
        ("addone", _) | ("helmert", "translation") => Some(Exact::Ulps(2.0)),
        ("unitconvert", _) => Some(Exact::Ulps(4.0)),
        _ => None,
    }
}

/// lower and upper latitude bound, largest node value and largest adjacent node difference
fn grid_lipschitz(g: &GridSpec, el: &El) -> (f64, f64) {
    // (largest |value|, Lipschitz constant per ground metre) of the bilinear interpolant
    let (vmax, dmax) = g.extremes();
    let latmax = g.lat_s.0.abs().max(g.lat_n().abs()).to_radians();
    let cell_ns = g.dlat.0.to_radians() * el.a * (1.0 - el.es());
    let cell_ew = g.dlon.0.to_radians() * el.a * latmax.cos() * (1.0 - el.es()).sqrt();
    (vmax, dmax / cell_ns + dmax / cell_ew)
}

/// tolerance in ground metres for the tuple x (in the input space of the operator)
fn tol_m(case: &Case, el: &El, x: &Coor4D) -> f64 {
    match case.op.as_str() {
        // the authalic latitude is obtained as asin(q/qp): close to a geographic pole its
        // rounding error grows as eps a/cos(lat): measured up to 6 eps a/cos(lat), i.e. 3 um at 0.03 degrees
        // and 3 mm at 0.0001 degrees (11 m) from the pole; everywhere else the 10 um class level rules
        "laea" => TOL_RIGOROUS + 24.0 * EPS * el.a / x[1].cos().abs().max(1e-9),
        "pipeline:geo" | "pipeline:gis" | "pipeline:rad" => case.q[0].0 + 3.0 * (el.a + 3000.0) * case.q[1].0,
        "helmert" => {
            let r = (x[0] * x[0] + x[1] * x[1] + x[2] * x[2]).sqrt();
            3.0 * r * case.q[0].0 + 64.0 * EPS * (r + 2000.0) + 1e-9
        }
        // the non-iterative inverse (Fukushima) has a truncation error growing with f^2 at
        // heights of millions of metres: 0.36 mm for f = 1/298, 1.0 mm for mprts (1/191)
        "cart" if case.aspect == "high" => TOL_CART_HIGH * (el.f / (1.0 / 298.257222101)).powi(2).max(1.0),
        "cart" => TOL_CART_LOW,
        "molodensky" => MOLO_C * case.q[0].0.powi(2) / (el.a * x[1].cos().abs().max(0.05)) + MOLO_FLOOR,
        "btmerc" | "butm" | "omerc" => TOL_APPROX,
        "gridshift" | "gridshift-file" => TOL_GRID,
        // shipped velocity models: cm/year, varying by mm/year over hundreds of km; |dt| <= 35 years
        "deformation-file" => 1.0e-5,
        "deformation" => {
            let (vmax, lip) = case.grids.iter().map(|g| grid_lipschitz(g, el)).fold((0.0f64, 0.0f64), |m, v| (m.0.max(v.0), m.1.max(v.1)));
            // values are mm/year in the file
            let dt = case.q[0].0;
            2.0 * dt * dt * (vmax / 1000.0) * (lip / 1000.0) * 3.0 + 1.0e-6
        }
        // Vincenty's inverse stops when the auxiliary longitude moves < 1e-12 rad
        "geodesic" => 3.0e-12 * el.a + 1.0e-6,
        // the inverse iteration stops at |dphi| < 1e-10 and contracts with e^2
        "somerc" => 3.0e-10 * el.es() * el.a + 2.0e-7,
        // calibrated: 10 x the worst error seen in > 2e5 cases (evidence worst_m:*), below the class level
        "tmerc" | "utm" | "merc" | "webmerc" | "latitude" | "dm" | "dms" | "dm-out" | "dms-out" => 2.0e-7,
        "lcc" => 1.0e-6,
        "permtide" => 1.0e-10,
        _ => TOL_RIGOROUS,
    }
}

/// round-value counterpart of `lattice`: the round neighbours of an image as starting tuples
/// of the inverse-then-forward order.  Angles and tuples in unknown units: the image itself or a
/// double up to 4 ulp from it (the image of a round input is where the carries and branch points
/// of an encoding lie); metres: the nearest whole metre; plain numbers: the nearest integer;
/// written sexagesimal numbers: the image itself (its neighbours need not be valid encodings)
fn round_start(sp: Sp, i: usize, c: &Coor4D, el: &El) -> Option<Coor4D> {
    let mut o = *c;
    match sp {
        Sp::Geo | Sp::AuxLat => {
            o[0] = ulps_from(c[0], ulp_offset(i, c[0]));
            o[1] = ulps_from(c[1], ulp_offset(i + 1_000_003, c[1])).clamp(-FRAC_PI_2, FRAC_PI_2);
        }
        Sp::Any | Sp::GeodOut | Sp::GeoDeg | Sp::GisDeg | Sp::GeodIn => {
            for k in 0..(if sp == Sp::Any { 3 } else { 4 }) {
                o[k] = ulps_from(c[k], ulp_offset(i + k * 1_000_003, c[k]));
            }
        }
        Sp::Plane | Sp::Cart => {
            if el.a < 1.0e6 {
                return None; // a whole metre is a large angle on a small body
            }
            for k in 0..3 {
                if c[k].is_finite() {
                    o[k] = c[k].round();
                }
            }
        }
        Sp::Raw => {
            for k in 0..4 {
                if c[k].is_finite() {
                    o[k] = c[k].round();
                }
            }
        }
        Sp::Iso(_) => {}
    }
    Some(o)
}

/// number of written sexagesimal numbers (elements 0 and 1) with a minutes or seconds field >= 60
fn iso_fields_60(v: &[Coor4D], dms: bool) -> u64 {
    let bad = |x: f64| {
        let x = x.abs();
        x.is_finite() && (x % 100.0 >= 60.0 || (dms && (x / 100.0).floor() % 100.0 >= 60.0))
    };
    v.iter().map(|c| bad(c[0]) as u64 + bad(c[1]) as u64).sum()
}

const CARRY_OPS: [&str; 4] = ["dm", "dms", "dm-out", "dms-out"];
/// The carries of the sexagesimal encodings, enumerated: one case per (operator, form, whole
/// degree D in 0..=180); its points are D (latitude: D mod 90) + M minutes + S seconds for the
/// minutes in `minutes` and S in 0, 1, 30, 59, with both signs.  Radian side (what the writing
/// direction gets): the angle converted with to_radians() and moved by -4..=4 ulp, and the
/// angle moved by -2..=2 ulp in degrees and then converted.  Encoded side (what the reading
/// direction gets): the valid numbers with exactly these fields, plus the last representable
/// fraction below the next carry.
fn build_carry(i: usize, minutes: &[f64]) -> Case {
    let opi = i % 4;
    let fi = (i / 4) % 4;
    let deg = (i / 16) % 181;
    let op = CARRY_OPS[opi];
    let forms = iso_forms(op);
    let def = forms[fi % forms.len()].clone();
    let dms = op.starts_with("dms");
    let (dlon, dlat) = (deg as f64, (deg % 90) as f64 + if deg == 180 { 90.0 } else { 0.0 });
    let whole_only = deg == 180; // 180 E/W and the pole: no minutes beyond
    let mut enc: Vec<P4> = vec![];
    let mut rad: Vec<P4> = vec![];
    let mut degs: Vec<P4> = vec![];
    for &m in minutes {
        for sec in [0.0, 1.0, 30.0, 59.0] {
            let (m, sec) = if whole_only { (0.0, 0.0) } else { (m, sec) };
            for sign in [1.0, -1.0] {
                let (la, lo) = (dlat + m / 60.0 + sec / 3600.0, dlon + m / 60.0 + sec / 3600.0);
                for frac in [0.0, if dms { 0.999999 } else { 0.9999999 }] {
                    if frac > 0.0 && whole_only {
                        continue;
                    }
                    enc.push(p4(iso_encode(dms, sign, dlat, m, sec, frac), iso_encode(dms, -sign, dlon, m, sec, frac), 0.0, 0.0));
                }
                for k in -4i64..=4 {
                    rad.push(p4(sign * ulps_from(lo.to_radians(), k), -sign * ulps_from(la.to_radians(), -k).min(FRAC_PI_2), 100.0, 2020.0));
                    rad.push(p4(-sign * ulps_from(lo.to_radians(), k), -sign * ulps_from(la.to_radians(), k).min(FRAC_PI_2), 0.0, 0.0));
                    degs.push(p4(sign * ulps_from(la, k).min(90.0), -sign * ulps_from(lo, -k), 100.0, 2020.0));
                    degs.push(p4(sign * ulps_from(la, k).min(90.0), sign * ulps_from(lo, k), 0.0, 0.0));
                }
                for k in [-2i64, -1, 1, 2] {
                    rad.push(p4(sign * ulps_from(lo, k).to_radians(), sign * ulps_from(la, k).min(90.0).to_radians(), 0.0, 0.0));
                }
            }
        }
    }
    let (a, f) = builtin("GRS80");
    let out = op.ends_with("-out");
    Case {
        op: op.into(),
        aspect: "carry".into(),
        def,
        macros: vec![],
        ell: "GRS80".into(),
        a: F(a),
        f: F(f),
        q: vec![],
        grids: vec![],
        pts: if out { degs } else { enc },
        round: true,
        ystart: if out { vec![] } else { rad },
    }
}

// ---- the oracle ----------------------------------------------------------------------

fn run_op<C: Context>(ctx: &C, op: OpHandle, fwd: bool, data: &[Coor4D], what: &str) -> Result<Vec<Coor4D>, Failure> {
    let mut d = data.to_vec();
    match try_apply(ctx, op, dir_of(fwd), &mut d) {
        Err(p) => Err(Failure {
            key: format!("panic-apply@{}", p.sig()),
            msg: format!("applying '{what}' ({}) panics: {} at {}:{}", if fwd { "Fwd" } else { "Inv" }, p.msg, p.file, p.line),
        }),
        Ok(Err(e)) => Err(Failure { key: "apply-error".into(), msg: format!("apply of '{what}' returned an error: {e:?}") }),
        Ok(Ok(_)) => Ok(d),
    }
}

fn make_op<C: Context>(ctx: &mut C, def: &str, keytail: &str) -> Result<OpHandle, Failure> {
    match try_op(ctx, def) {
        Err(p) => Err(Failure {
            key: format!("panic-instantiate@{}", p.sig()),
            msg: format!("instantiating '{def}' panics: {} at {}:{}", p.msg, p.file, p.line),
        }),
        Ok(Err(e)) => Err(Failure { key: format!("rejected:{keytail}"), msg: format!("valid definition '{def}' rejected: {e:?}") }),
        Ok(Ok(h)) => Ok(h),
    }
}

/// `def` with the inv modifier, in one of two documented positions
fn with_inv(def: &str, after_name: bool) -> String {
    if after_name {
        match def.split_once(' ') {
            Some((name, rest)) => format!("{name} inv {rest}"),
            None => format!("{def} inv"),
        }
    } else {
        format!("{def} inv")
    }
}

struct Judge<'a> {
    case: &'a Case,
    el: El,
    key: String,
}

impl Judge<'_> {
    fn fail(&self, order: &str, i: usize, x: &Coor4D, img: &Coor4D, got: &Coor4D, err: f64, tol: f64, unit: &str) -> Failure {
        Failure {
            key: self.key.clone(),
            msg: format!(
                "{order}: '{}' (ellps {} a={} f={})\n  point #{i}: start {}\n  image {}\n  returned {}\n  error {err:e} {unit}, tolerance {tol:e} {unit}",
                self.case.def, self.case.ell, self.el.a, self.el.f, fmt_c4(x), fmt_c4(img), fmt_c4(got)
            ),
        }
    }

    /// compare `back` with `start` (both in space sp); `img` is the intermediate image
    #[allow(clippy::too_many_arguments)]
    fn compare(&self, rec: &mut Rec, order: &str, sp: Sp, start: &[Coor4D], img: &[Coor4D], back: &[Coor4D], ground: Option<&[Option<f64>]>, start_is_input: bool) -> CaseResult {
        let case = self.case;
        let t = touched(&case.op, &case.aspect);
        let exact = exact_mode(case);
        let mut worst = 0.0f64;
        let mut worst_ratio = 0.0f64;
        for i in 0..start.len() {
            let (x, a, b) = (&start[i], &img[i], &back[i]);
            for k in 0..4 {
                if !t[k] && !bits_eq(x[k], b[k]) {
                    return Err(Failure {
                        key: format!("untouched-element:{}", case.op),
                        msg: format!("{order}: '{}' changed element {k} which it does not work on: {} -> {} -> {}", case.def, fmt_c4(x), fmt_c4(a), fmt_c4(b)),
                    });
                }
            }
            match exact {
                Some(Exact::Bits) => {
                    if !c4_bits_eq(x, b) {
                        return Err(self.fail(order, i, x, a, b, f64::NAN, 0.0, "(bit-identical required)"));
                    }
                }
                Some(Exact::Equal) => {
                    if (0..4).any(|j| !(x[j] == b[j] || bits_eq(x[j], b[j]))) {
                        return Err(self.fail(order, i, x, a, b, f64::NAN, 0.0, "(exact equality required)"));
                    }
                }
                Some(Exact::Ulps(k)) => {
                    for j in 0..4 {
                        let m = if case.op == "adapt" { x[j].abs() } else { x[j].abs().max(a[j].abs()) };
                        let tol = k * EPS * m;
                        let e = (b[j] - x[j]).abs();
                        if !(e <= tol) {
                            return Err(self.fail(order, i, x, a, b, e, tol, &format!("(element {j}, {k} ulp of the larger intermediate)")));
                        }
                        if m > 0.0 {
                            worst = worst.max(e / (EPS * m));
                        }
                    }
                }
                None => {
                    let e = match ground {
                        Some(g) => match g[i] {
                            Some(e) => e,
                            None => {
                                rec.count("invfwd_skipped_singular_jacobian", 1);
                                continue;
                            }
                        },
                        None => err_m(sp, &self.el, x, b),
                    };
                    // the tolerance formulas refer to the tuple in the operator's input space
                    let tol = tol_m(case, &self.el, if start_is_input || spaces(&case.op).0 == spaces(&case.op).1 { x } else { a });
                    if !(e <= tol) {
                        return Err(self.fail(order, i, x, a, b, e, tol, "m"));
                    }
                    worst = worst.max(e);
                    worst_ratio = worst_ratio.max(e / tol);
                    if e > 0.2 * tol && std::env::var("C01_DEBUG").map(|v| v == case.op).unwrap_or(false) {
                        eprintln!("DBG {order}: {} | {} -> {} -> {} err {e:e}", case.def, fmt_c4(x), fmt_c4(a), fmt_c4(b));
                    }
                }
            }
        }
        let unit = if matches!(exact, Some(Exact::Ulps(_))) { "worst_ulps" } else { "worst_m" };
        if exact != Some(Exact::Bits) && exact != Some(Exact::Equal) {
            rec.metric(&format!("{unit}:{}", case.op.split(':').next().unwrap_or("")), worst);
            if exact.is_none() {
                // pipelines: one entry per projection, not per macro wrapping
                let asp = if case.op.starts_with("pipeline") { case.aspect.split('/').next().unwrap_or("") } else { case.aspect.as_str() };
                rec.metric(&format!("worst_over_tol:{}/{}", case.op.split(':').next().unwrap_or(""), asp), worst_ratio);
                if std::env::var("C01_DEBUG").map(|v| v == case.op).unwrap_or(false) {
                    // calibration aid: per ellipsoid worst error
                    rec.metric(&format!("dbg:{}/{}/{}", case.op, case.aspect, if case.ell.contains(',') { "random" } else { &case.ell }), worst);
                }
            }
        }
        Ok(())
    }
}

/// ground error of (got - want) in the output space, through the numerical Jacobian of the
/// forward operator with respect to east/north/up displacements of the input
fn jacobian_ground<C: Context>(ctx: &C, op: OpHandle, def: &str, insp: Sp, el: &El, x: &[Coor4D], fx: &[Coor4D], want: &[Coor4D], got: &[Coor4D]) -> Result<Vec<Option<f64>>, Failure> {
    let s = el.a * 2.0e-6;
    let mut cols: Vec<Vec<Coor4D>> = vec![];
    for k in 0..3 {
        let moved: Vec<Coor4D> = x.iter().map(|p| nudge(insp, el, p, k, s)).collect();
        cols.push(run_op(ctx, op, true, &moved, def)?);
    }
    let mut out = vec![];
    for i in 0..x.len() {
        let ilat = if insp == Sp::GeoDeg { 0 } else { 1 };
        let lat = if insp == Sp::Geo { x[i][ilat].to_degrees() } else { x[i][ilat] };
        if lat.abs() > 89.99 {
            out.push(None);
            continue;
        }
        let mut j = [[0.0; 3]; 3];
        for r in 0..3 {
            for k in 0..3 {
                j[r][k] = (cols[k][i][r] - fx[i][r]) / s;
            }
        }
        let d = [got[i][0] - want[i][0], got[i][1] - want[i][1], got[i][2] - want[i][2]];
        if d.iter().any(|v| !v.is_finite()) {
            out.push(Some(f64::NAN));
            continue;
        }
        out.push(solve3(&j, &d).map(|g| (g[0] * g[0] + g[1] * g[1] + g[2] * g[2]).sqrt()));
    }
    Ok(out)
}

fn check(case: &Case, rec: &mut Rec) -> CaseResult {
    if case.op.ends_with("-file") {
        // a grid file shipped with the library, served from memory by the harness context
        let root = std::env::var("VERIF_REPO_DIR").unwrap_or_else(|_| "/repo".into());
        let mut ctx = GridCtx::new();
        let mut loaded = std::collections::BTreeSet::new();
        for entry in FILE_GRIDS {
            let name = entry.1.rsplit('/').next().unwrap_or("");
            let named = case.def.split(|ch: char| ch == '=' || ch == ',' || ch.is_whitespace()).any(|tok| tok == name);
            if !named || !loaded.insert(name) {
                continue;
            }
            let path = format!("{root}/geodesy/{}", entry.1);
            let bytes = match std::fs::read(&path) {
                Ok(b) => b,
                Err(e) => vfail!("harness-grid-file-unreadable", "cannot read {path}: {e}"),
            };
            match vcore::guard::guard(|| ctx.add_grid_bytes(name, &bytes)) {
                Ok(Ok(())) => {}
                Ok(Err(e)) => vfail!(format!("shipped-grid-rejected:{name}"), "shipped grid {path} rejected by the decoder: {e:?}"),
                Err(p) => vfail!(format!("panic-grid-decode@{}", p.sig()), "decoding shipped grid {path} panics: {} at {}:{}", p.msg, p.file, p.line),
            }
        }
        if loaded.is_empty() {
            vfail!("harness-unknown-grid-file", "no shipped grid named in '{}'", case.def);
        }
        return check_with(&mut ctx, case, rec);
    }
    if case.grids.is_empty() {
        // the same operators through the library's Minimal context and through a user context
        if case.pts.len() % 2 == 0 {
            let mut ctx = Minimal::new();
            check_with(&mut ctx, case, rec)
        } else {
            let mut ctx = GridCtx::new();
            check_with(&mut ctx, case, rec)
        }
    } else {
        let mut ctx = GridCtx::new();
        for g in &case.grids {
            if let Err(e) = ctx.add_grid_bytes(&g.name, g.text().as_bytes()) {
                vfail!("harness-grid-rejected", "generated Gravsoft grid {} rejected by the decoder: {e:?}\n{}", g.name, g.text());
            }
        }
        check_with(&mut ctx, case, rec)
    }
}

fn check_with<C: Context>(ctx: &mut C, case: &Case, rec: &mut Rec) -> CaseResult {
    let el = El { a: case.a.0, f: case.f.0 };
    let sphere = if case.f.0 == 0.0 && !matches!(spaces(&case.op).0, Sp::Raw | Sp::Cart | Sp::Iso(_)) && !case.op.starts_with("pipeline") { ":sphere" } else { "" };
    let keytail = format!("{}:{}{}", case.op, case.aspect, sphere);
    let judge = Judge { case, el, key: format!("roundtrip:{keytail}") };
    for (name, body) in &case.macros {
        ctx.register_resource(name, body);
    }
    let def = case.def.as_str();
    rec.class(&format!("{}/{}", case.op, case.aspect));
    rec.class(&format!("ellps:{}", if case.ell.contains(',') { "random a,rf" } else { case.ell.as_str() }));
    let op = make_op(ctx, def, &keytail)?;
    let (insp, outsp) = spaces(&case.op);
    let x0: Vec<Coor4D> = c4s(&case.pts);
    let n = x0.len();

    // ---- forward, then inverse
    let a = run_op(ctx, op, true, &x0, def)?;
    let b = run_op(ctx, op, false, &a, def)?;
    judge.compare(rec, "forward then inverse", insp, &x0, &a, &b, None, true)?;

    // ---- the inv modifier: `op inv` forward == `op` inverse, bit for bit (and vice versa)
    let mut twins: Vec<(String, OpHandle)> = vec![];
    for after_name in [false, true] {
        if def.contains('|') || def.contains(" inv") {
            // `inv` after a pipeline text belongs to its last step: no twin to compare
            rec.count("twin_not_applicable_pipeline_text", 1);
            break;
        }
        let defi = with_inv(def, after_name);
        let opi = make_op(ctx, &defi, &keytail)?;
        let ai = run_op(ctx, opi, false, &x0, &defi)?;
        let bi = run_op(ctx, opi, true, &a, &defi)?;
        if let Some(i) = first_bits_diff(&a, &ai).or(first_bits_diff(&b, &bi)) {
            vfail!(
                format!("inv-twin:{}", case.op),
                "'{defi}' is not the mirror image of '{def}' at point #{i} {}: '{def}' Fwd {} / Inv(of that) {}, '{defi}' Inv {} / Fwd {}",
                fmt_c4(&x0[i]), fmt_c4(&a[i]), fmt_c4(&b[i]), fmt_c4(&ai[i]), fmt_c4(&bi[i])
            );
        }
        twins.push((defi, opi));
    }

    // ---- inverse, then forward: from the 1 mm lattice image; in a round-value case also from
    // the round neighbours of the image; from the starting tuples the case brings along
    let mut starts: Vec<(&str, Vec<Coor4D>)> = vec![("inverse then forward (from the 1 mm lattice image)", a.iter().map(|c| lattice(outsp, c, &el)).collect())];
    if case.round {
        rec.class("round-values");
        match a.iter().enumerate().map(|(i, c)| round_start(outsp, i, c, &el)).collect::<Option<Vec<Coor4D>>>() {
            Some(y) => {
                rec.count("round_inverse_starts", y.len() as u64);
                starts.push(("inverse then forward (from the round neighbours of the image: whole metres / doubles within 4 ulp)", y));
            }
            None => rec.count("round_inverse_starts_skipped_small_body", 1),
        }
    }
    if !case.ystart.is_empty() {
        if outsp == Sp::Plane || outsp == Sp::Any {
            vfail!("harness-ystart-space", "starting tuples given for an output space that needs the Jacobian: {}", case.op);
        }
        rec.count("given_inverse_starts", case.ystart.len() as u64);
        starts.push(("inverse then forward (from given tuples at the carries of the encoding)", c4s(&case.ystart)));
    }
    for (order, y) in &starts {
        let x = run_op(ctx, op, false, y, def)?;
        let y2 = run_op(ctx, op, true, &x, def)?;
        let ground = if outsp == Sp::Plane || outsp == Sp::Any { Some(jacobian_ground(ctx, op, def, insp, &el, &x0, &a, y, &y2)?) } else { None };
        judge.compare(rec, order, outsp, y, &x, &y2, ground.as_deref(), false)?;
        for (defi, opi) in &twins {
            let xi = run_op(ctx, *opi, true, y, defi)?;
            let y2i = run_op(ctx, *opi, false, &x, defi)?;
            if let Some(i) = first_bits_diff(&x, &xi).or(first_bits_diff(&y2, &y2i)) {
                vfail!(
                    format!("inv-twin:{}", case.op),
                    "'{defi}' is not the mirror image of '{def}' at image #{i} {}: '{def}' Inv {} / Fwd(of that) {}, '{defi}' Fwd {} / Inv {}",
                    fmt_c4(&y[i]), fmt_c4(&x[i]), fmt_c4(&y2[i]), fmt_c4(&xi[i]), fmt_c4(&y2i[i])
                );
            }
        }
        // the writing direction of the sexagesimal operators: how often a field of 60 was written
        if let Sp::Iso(dms) = insp {
            let k = iso_fields_60(&x, dms);
            if k > 0 {
                rec.count("iso_written_with_a_field_of_60", k);
            }
        }
    }
    if let Sp::Iso(dms) = outsp {
        let k = iso_fields_60(&a, dms);
        if k > 0 {
            rec.count("iso_written_with_a_field_of_60", k);
        }
    }

    // ---- bookkeeping
    rec.count("point_evaluations", n as u64);
    let moved = (0..n)
        .filter(|&i| (0..4).all(|k| a[i][k].is_finite() || x0[i][k].is_nan()) && (0..4).any(|k| {
            let d = (a[i][k] - x0[i][k]).abs();
            d > if insp == Sp::Raw || outsp == Sp::Plane || outsp == Sp::Cart || k >= 2 { 1.0 } else { 1e-7 }
        }))
        .count();
    if moved * 2 >= n && n > 0 {
        rec.nontrivial(&(&case.op, &case.aspect, &case.ell, &case.def, case.pts[0][0].0.to_bits(), case.pts[0][1].0.to_bits()));
    }
    Ok(())
}


// ---- pipelines and macros ------------------------------------------------------------

/// A type-correct pipeline of invertible steps around a centre point: external format ->
/// 0..2 datum shifts (cart | helmert | cart inv) -> optional projection -> output adaptor,
/// optionally wrapped in (nested, parameterised) macros.
fn build_pipeline(raw: &Raw) -> Case {
    let mut c = Cur::new(&raw.u);
    let ext = ["geo", "gis", "rad"][c.pick(3)];
    // centre far enough from the antimeridian that `cart inv` (which normalises longitudes)
    // does not move a point 360 degrees away from the central meridian of the projection
    let lonc = rd(c.lin(-172.0, 172.0), 3);
    let mut latc = rd(c.lin(-70.0, 70.0), 3);
    let mut steps: Vec<String> = vec![];
    let mut macros: Vec<(String, String)> = vec![];
    let (mut tol, mut rsq) = (0.0f64, 0.0f64);
    let head: &[&str] = match ext {
        "geo" => &["geo:in", "adapt from=neuf_deg", "axisswap order=2,1 | unitconvert xy_in=deg xy_out=rad", "neu:in | unitconvert xy_in=deg xy_out=rad"],
        "gis" => &["gis:in", "adapt from=enuf_deg", "unitconvert xy_in=deg xy_out=rad", "gis:out inv"],
        _ => &["", "noop", "longlat", "enu:in"],
    };
    let h = head[c.pick(4)];
    if !h.is_empty() {
        steps.push(h.to_string());
        tol += 1e-7;
    }
    // datum shifts
    let first = EARTHLIKE[c.pick(10)];
    let mut cur = first;
    let nshift = c.pick(3);
    let mut shift_range = (steps.len(), steps.len());
    for _ in 0..nshift {
        let next = EARTHLIKE[c.pick(10)];
        steps.push(format!("cart ellps={cur}"));
        let t = [rd(c.lin(-300.0, 300.0), 3), rd(c.lin(-300.0, 300.0), 3), rd(c.lin(-300.0, 300.0), 3)];
        let mut hm = format!("helmert x={} y={} z={}", t[0], t[1], t[2]);
        let kind = c.pick(3);
        if kind > 0 {
            let amax = if kind == 1 { 5.0 } else { 2.0 };
            let r = [rd(c.lin(-amax, amax), 4), rd(c.lin(-amax, amax), 4), rd(c.lin(-amax, amax), 4)];
            hm.push_str(&format!(" rx={} ry={} rz={} s={} convention={}", r[0], r[1], r[2], rd(c.lin(-20.0, 20.0), 4), if c.flag(0.5) { "coordinate_frame" } else { "position_vector" }));
            if kind == 1 {
                hm.push_str(" exact");
            } else {
                rsq += r.iter().map(|v| (v / 3600.0).to_radians().powi(2)).sum::<f64>();
            }
        }
        steps.push(hm);
        steps.push(format!("cart inv ellps={next}"));
        cur = next;
        tol += 3e-6;
    }
    shift_range.1 = steps.len();
    // projection
    let proj = c.pick(10);
    let mut aspect = "geographic";
    let mut proj_idx = None;
    if proj > 0 {
        proj_idx = Some(steps.len());
    }
    match proj {
        0 => {}
        1 => {
            let zone = (((lonc + 180.0) / 6.0).floor() as i64 + 1).clamp(1, 60);
            steps.push(format!("utm zone={zone}{} ellps={cur}", if latc < 0.0 { " south" } else { "" }));
            aspect = "utm";
        }
        2 => {
            steps.push(format!("tmerc lon_0={} lat_0={} k_0={} x_0={} ellps={cur}", rd(lonc, 1), rd(latc, 0), rd(c.lin(0.99, 1.0), 5), rd(c.lin(0.0, 1.0e6), 0)));
            aspect = "tmerc";
        }
        3 => {
            steps.push(format!("merc lat_ts={} ellps={cur}", rd(latc, 0).abs().max(1.0)));
            aspect = "merc";
        }
        4 => {
            steps.push(format!("webmerc ellps={cur}"));
            aspect = "webmerc";
        }
        5 => {
            if latc.abs() < 8.0 {
                latc = if latc < 0.0 { -8.0 } else { 8.0 };
            }
            steps.push(format!("lcc lat_1={} lat_2={} lon_0={} x_0={} y_0={} ellps={cur}", latc - 3.0, latc + 3.0, rd(lonc, 0), rd(c.lin(0.0, 1.0e6), 0), rd(c.lin(0.0, 1.0e6), 0)));
            aspect = "lcc";
        }
        6 => {
            if latc.abs() < 1.0 {
                latc = 1.0;
            }
            steps.push(format!("laea lat_0={latc} lon_0={lonc} x_0={} y_0={} ellps={cur}", rd(c.lin(0.0, 5.0e6), 0), rd(c.lin(0.0, 5.0e6), 0)));
            aspect = "laea";
        }
        7 => {
            if latc.abs() < 2.0 {
                latc = 2.0;
            }
            let alpha = rd(c.lin(5.0, 85.0), 4);
            steps.push(format!("omerc latc={latc} lonc={lonc} alpha={alpha} gamma_c={alpha} k_0={}{} ellps={cur}", rd(c.lin(0.999, 1.0), 5), if c.flag(0.5) { " variant" } else { "" }));
            tol += TOL_APPROX;
            aspect = "omerc";
        }
        8 if latc.abs() <= 40.0 => {
            steps.push(format!("btmerc lon_0={lonc} k_0=0.9996 x_0=500000 ellps={cur}"));
            tol += TOL_APPROX;
            aspect = "btmerc";
        }
        _ => {
            steps.push(format!("tmerc lon_0={} ellps={cur}", rd(lonc, 0)));
            aspect = "tmerc";
        }
    }
    tol += TOL_RIGOROUS;
    // output adaptors
    let ntail = c.pick(3);
    for _ in 0..ntail {
        let t: String = if proj > 0 {
            match c.pick(6) {
                0 => "axisswap order=2,1".into(),
                1 => "unitconvert xy_out=km".into(),
                2 => "unitconvert xy_in=m xy_out=us-ft z_out=us-ft".into(),
                3 => "adapt to=neuf".into(),
                4 => format!("helmert x={} y={}", c.lin(-1.0e6, 1.0e6).round(), c.lin(-1.0e6, 1.0e6).round()),
                _ => "addone".into(),
            }
        } else {
            match c.pick(3) {
                0 => format!("latitude geocentric ellps={cur}"),
                1 => "noop".into(),
                _ => "axisswap order=1,2,3".into(),
            }
        };
        steps.push(t);
        tol += 1e-7;
    }
    if proj == 0 {
        let out = ["geo:out", "gis:out", "unitconvert xy_in=rad xy_out=deg", "adapt to=neuf_deg", "geo:in inv", ""][c.pick(6)];
        if !out.is_empty() {
            steps.push(out.to_string());
            tol += 1e-7;
        }
    }
    if steps.is_empty() {
        steps.push("noop".into());
    }
    // macro wrapping
    let mode = c.pick(5);
    let mut label = "plain";
    if (mode == 1 || mode == 4) && shift_range.1 > shift_range.0 {
        let body: Vec<String> = steps.drain(shift_range.0..shift_range.1).collect();
        macros.push(("v:shift".into(), body.join(" | ")));
        steps.insert(shift_range.0, "v:shift".into());
        if let Some(i) = proj_idx.as_mut() {
            *i = *i + 1 - (shift_range.1 - shift_range.0);
        }
        label = "sub-macro";
    }
    if mode == 3 {
        if let Some(i) = proj_idx {
            if steps[i].starts_with("utm zone=") {
                // parameterised macro: the zone and the ellipsoid come from the invocation
                let zone: String = steps[i]["utm zone=".len()..].chars().take_while(|ch| ch.is_ascii_digit()).collect();
                let south = steps[i].contains(" south");
                macros.push(("v:proj".into(), format!("utm zone=$z{}", if south { " south" } else { "" })));
                steps[i] = format!("v:proj z={zone} ellps={cur}");
                label = "parameterised-macro";
            }
        }
    }
    let mut def = steps.join(" | ");
    if mode == 2 || mode == 4 {
        macros.push(("v:all".into(), def));
        def = "v:all".into();
        label = if mode == 4 { "nested-macro" } else { "whole-macro" };
    }
    let (a, f) = builtin(first);
    let pts = raw
        .pts
        .iter()
        .map(|p| {
            let hgt = if p[2] < 0.3 { 0.0 } else { rd(rlin(p[2], -100.0, 3000.0), 3) };
            let t = zt(p).1;
            if ext == "rad" {
                let (lon, lat) = disc(p, lonc, latc, 2.0);
                return p4(lon, lat, hgt, t);
            }
            // (round-value mode: whole and half degrees as typed, not the radian round trip of them)
            let (lon, lat) = disc_deg(p, lonc, latc, 2.0);
            if ext == "geo" {
                p4(lat, lon, hgt, t)
            } else {
                p4(lon, lat, hgt, t)
            }
        })
        .collect();
    Case { op: format!("pipeline:{ext}"), aspect: format!("{aspect}/{label}"), def, macros, ell: first.into(), a: F(a), f: F(f), q: vec![F(tol), F(rsq)], grids: vec![], pts, round: round_mode(), ystart: vec![] }
}


fn main() {
    let mut run = Run::init("C01");
    run.assume("ground metres are measured on the ellipsoid the operator is given (M and N radii of the harness), longitudes and azimuths modulo 360 degrees");
    run.assume("tolerance classes: bit-identical for noop/axisswap/adapt without unit change/integer translations; <= 2-4 ulp of the larger intermediate for general translations and unit scalings; 10 um rigorous class (cart 1 um / 1 mm by height class); 5 mm for btmerc/butm/omerc; molodensky 4 d^2/(a cos(lat)) + 0.1 mm (first order method, d = |shift|+|da|+a|df| <= 400 m); small-angle helmert 3|x||r|^2 (transposed matrix is not the exact inverse); deformation 6 dt^2 |v|max Lip(v) + 1 um (the operator documents that it does not iterate)");
    run.assume("inverse-then-forward errors of projections are converted to the ground through the numerical Jacobian of the library's own forward function (points within 0.01 degree of a pole skipped)");
    run.assume("laea: 10 um + 24 eps a/cos(lat): the authalic latitude is computed as asin(q/qp), whose rounding error grows towards the geographic poles (measured 3 um at 0.03 degrees, 3 mm at 0.0001 degrees from a pole); somerc: 3e-10 e^2 a + 0.2 um and geodesic: 3e-12 a + 1 um follow from the stopping rules of their iterations; cart above 100 km: 1 mm scaled by (f/f_GRS80)^2 for flatter ellipsoids (measured 0.36 mm on GRS80, 1.01 mm on mprts at h = 8e6 m)");
    run.assume("random ellipsoids: a in [1, 7e6], 1/f in [150, 600]; nearly spherical non-spheres are not generated (ancillary::qs loses digits as eps/e^2)");
    run.assume("antimeridian class ('wrap'): longitudes are given in (-180, 180] with a central meridian within 15 degrees of +-180, so that lon - lon_0 is numerically ~360 degrees for points geometrically close to the central meridian");
    run.assume("grid operators: generated Gravsoft grids are smooth (contraction constant < 0.01) and points lie in the central 80-90 % of the coverage; in the shipped 5458_with_subgrid.gsb the sub-grid is not continuous with its parent (1 arcsec jump), so points within 0.1 degree of the sub-grid border are moved away from it");
    run.assume("geodesic reversible, short lines (1 um .. 10 m and exactly 0): as for all lines the azimuth is judged by the displacement of the far end point it causes (angle x a sin(s/a)), so a line of length 0 may come back with any azimuth");
    run.assume("geodesic reversible: distances 1 m .. 18 000 km (scaled with a), |lat| <= 89 degrees; Vincenty's near-antipodal zone excluded by construction");

    // operators of the library the catalogue does not cover
    let covered: std::collections::BTreeSet<&str> = KINDS.iter().map(|k| k.0).chain(["longlat", "latlon", "latlong", "lonlat"]).collect();
    let mut uncovered = vec![];
    for name in geodesy::verif_hooks::builtin_operator_names() {
        if !covered.contains(name) {
            let reason = NOT_ROUNDTRIPPED.iter().find(|r| r.0 == name).map(|r| r.1).unwrap_or("UNKNOWN TO THE CATALOGUE");
            uncovered.push(json!({"operator": name, "reason": reason}));
        }
    }
    run.note("uncovered_operators", json!(uncovered));
    let table_names: Vec<&str> = geodesy::verif_hooks::ellipsoid_table().iter().map(|e| e.0).collect();
    let missing: Vec<&&str> = table_names.iter().filter(|n| !PROJ_ELLIPSOIDS.iter().any(|p| p.0 == **n)).collect();
    run.note("ellipsoids_not_in_harness_table", json!(missing));
    run.note(
        "tolerances_m",
        json!({"rigorous": TOL_RIGOROUS, "cart_low": TOL_CART_LOW, "cart_high": TOL_CART_HIGH, "approximate": TOL_APPROX, "gridshift": TOL_GRID,
               "molodensky": format!("{MOLO_C} d^2/(a cos lat) + {MOLO_FLOOR}"), "helmert": "3|x||r|^2 + 64 eps |x| + 1e-9",
               "calibrated_below_class_level": {"tmerc/utm/merc/webmerc/latitude/dm/dms": 2.0e-7, "lcc": 1.0e-6, "permtide": 1.0e-10, "laea": TOL_RIGOROUS},
               "somerc": "3e-10 e^2 a + 2e-7", "geodesic": "3e-12 a + 1e-6", "cart_high": "1e-3 max(1,(f/f_GRS80)^2)", "deformation": "6 dt^2 |v|max Lip(v) + 1e-6"}),
    );

    // (quick counts: the engine multiplies them by 3)
    // 1. every catalogue entry x every ellipsoid (47 built-in + one random), deterministic draws
    let reps = run.scale(3, 96);
    let npts = if run.is_thorough() { 256 } else { 64 };
    let nk = KINDS.len();
    let seed = run.seed;
    run.sweep(
        "catalogue-sweep",
        "every catalogue entry (operator x aspect) x all 47 built-in ellipsoids + a random a,rf, parameters and domain points from seeded draws; non-trivial = at least half of the forward images differ from the input by > 1 m (1e-7 rad)",
        nk * 48 * reps,
        move |i| {
            let kind = i % nk;
            let e = (i / nk) % 48;
            build(&raw_from_index(seed, i as u64, kind, if e == 47 { 47 + (i / (nk * 48)) % 9 } else { e }, npts))
        },
        check,
    );

    // 2. random operator instances
    let n = run.scale(25_000, 2_800_000);
    let maxpts = if run.is_thorough() { 256 } else { 128 };
    run.section(
        "operators-random",
        "random catalogue entry x ellipsoid (built-in or random a in [1, 7e6], f <= 1/150) x parameters x 16..256 domain points incl. boundary classes; both orders; inv twins; non-trivial as above, distinct by definition text and first point",
        n,
        move || raw_strategy(nk, maxpts).prop_map(|r| build(&r)),
        check,
    );

    // 2b. the grid files shipped with the library, inside their coverage
    let nf = FILE_GRIDS.len();
    let reps = run.scale(20, 600);
    run.sweep(
        "shipped-grids",
        "gridshift / deformation with each grid file shipped in /repo/geodesy (Gravsoft datum, geoid, deformation; NTv2 with and without sub-grid), served by GridCtx, points in the central 90 % of the coverage",
        nf * reps,
        move |i| build_file_case(&raw_from_index(seed, 0x5117 + i as u64, i % nf, 0, npts)),
        check,
    );

    // 3. typed pipelines and macros
    let n = run.scale(8_000, 1_200_000);
    run.section(
        "pipelines",
        "type-correct pipelines (external lat/lon degrees | lon/lat degrees | radians -> 0..2 datum shifts cart|helmert|cart inv -> optional projection utm/tmerc/merc/webmerc/lcc/laea/omerc/btmerc -> output adaptors), plain or wrapped in sub-chain / whole / nested / parameterised macros; points within 2 degrees of a random centre; tolerance = sum of the step tolerances; macro invocations also get the inv twin check",
        n,
        move || raw_strategy(1, maxpts).prop_map(|r| build_pipeline(&r)),
        check,
    );

    // 4. round values: the same catalogue, pipelines and shipped grids with every parameter and
    // coordinate draw snapped onto the values users type
    let reps = run.scale(2, 24);
    run.sweep(
        "round-values",
        "every catalogue entry x all 47 built-in ellipsoids + a random a,rf in round-value mode: parameters (lon_0, lat_0, lat_1/2, latc/lonc, alpha, false origins, shifts, rotations, epochs, dt) and coordinates are multiples of 15, 6, 1 or 0.5 of their unit inside the same ranges (whole and half degrees, zone edges, the central meridian and the centre themselves, equator, poles, whole metres, whole years, grid nodes; dm/dms: whole degrees/minutes/seconds, zero degrees, the last fraction below a carry); the inverse-then-forward order additionally starts from the round neighbours of the images (image +-0..4 ulp for angles, whole metres for plane and geocentric coordinates); non-trivial as above",
        nk * 48 * reps,
        move |i| {
            let kind = i % nk;
            let e = (i / nk) % 48;
            in_round_mode(|| build(&raw_from_index(seed, 0x4000_0000 + i as u64, kind, if e == 47 { 47 + (i / (nk * 48)) % 9 } else { e }, npts)))
        },
        check,
    );
    let n = run.scale(2_000, 150_000);
    run.sweep(
        "pipelines-round",
        "the typed pipelines / macros of section 'pipelines' in round-value mode: round centre, shifts and projection parameters, points on whole and half degrees (degree input exactly as typed) within 1.25 degrees of the centre, the centre itself; inverse starts also at the image +-0..4 ulp",
        n,
        move |i| in_round_mode(|| build_pipeline(&raw_from_index(seed, 0x5000_0000 + i as u64, 0, 0, npts))),
        check,
    );
    let reps = run.scale(10, 150);
    run.sweep(
        "shipped-grids-round",
        "the shipped grid files at whole and half degrees (and multiples of 6 and 15 degrees in the large model) inside the central 90 % of the coverage, whole metres and years",
        nf * reps,
        move |i| in_round_mode(|| build_file_case(&raw_from_index(seed, 0x6000_0000 + i as u64, i % nf, 0, npts))),
        check,
    );

    // 5. the carries of the sexagesimal encodings, enumerated
    let minutes: Vec<f64> = if run.is_thorough() { (0..60).map(|m| m as f64).collect() } else { vec![0.0, 1.0, 29.0, 30.0, 59.0] };
    run.enumerate(
        "sexagesimal-carry",
        "dm, dms (plain, as first / last step of a pipeline, behind a degree round trip; inv twins) and `geo:in | dm inv`-like writers x every whole degree 0..=180 (latitude: mod 90, and the pole) x minutes (quick: 0, 1, 29, 30, 59; thorough: all) x seconds 0, 1, 30, 59 x both signs: written then read from the angle converted with to_radians() and moved by -4..=4 ulp, and moved by -2..=2 ulp in degrees before conversion; read then written from the valid encodings with exactly these fields and with the last fraction below the next carry; judged at 0.2 um like every other input of dm/dms",
        4 * 4 * 181,
        move |i| build_carry(i, &minutes),
        check,
    );

    run.finish("round trips (both orders) of every invertible operator of the catalogue over generated parameter sets, ellipsoids and domain points, measured in ground metres against the tolerance class the property states; inv twins bit for bit");
}
