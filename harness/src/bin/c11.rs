//! C11 — adapt, axisswap and unitconvert do exactly the declared reordering and scaling.
//!
//! Oracle: table-driven reference model written from the documentation
//! (ruminations/002: operators `adapt`, `axisswap`, `unitconvert`; the module comment of
//! adapt.rs; the PROJ unit table the library says it copies). Everything is a finite
//! domain and is enumerated:
//!   * adapt: all 1920 x 1920 from/to spellings (x spelling variants), all 4096 words over
//!     the descriptor alphabet x valid/invalid suffixes for acceptance/rejection,
//!     `to=X` == `inv from=X`, the eight built-in macros;
//!   * axisswap: every index list over -5..5 of length 1..5 (442 valid signed partial
//!     permutations, everything else must be rejected);
//!   * unitconvert: every 4-tuple of published unit names; the unit tables via the hook.
//! Permutation/sign part compared bit for bit; scaled elements against a double-double
//! evaluation of the exact published ratio, tolerance TOL_ULP.
//!
//! Containers: the reference is a statement about the 4-D view of a tuple, so it is also
//! checked on operand sets of all 36 container kinds (Vec / array / &mut slice of Coor4D,
//! Coor3D, Coor2D, Coor32; plain and in the (set, h, t) / (set, t) adapters), both directions:
//! the view documented in src/coordinate/set.rs (missing height 0, missing epoch NaN, f32
//! widened, adapter constants) -> declared mapping -> dimensions the element type keeps
//! (f32 narrowed). axisswap: all 442 orders; adapt: every spelling as from and as to per
//! kind; unitconvert: every xy pair and every z pair per kind.
//!
//! Magnitudes: "scaled by the declared factor" is a statement about every finite value. The probe
//! tuples therefore carry a magnitude dimension (`magnitudes`: 0, subnormals, the smallest normal
//! numbers, 1e-300, 1e-30, 1, 1e30, 1e300 ... f64::MAX/2, f64::MAX, seeded mantissas dense within
//! 2^21 of both ends of the normal range; every value in every element position, both signs):
//! completely in `unitconvert-magnitudes` (every unit pair as xy and as z pair) and
//! `adapt-magnitudes` (every spelling as from and as to), one rotating tuple in the exhaustive
//! `unitconvert-pairs`, `adapt-family` and `adapt-pairs`. Oracle `check_scaled`: exact result
//! (double-double factor applied to the mantissa) normal -> within the ulp tolerance, hence finite;
//! beyond f64::MAX -> the infinity of the right sign; below the normal range -> right sign and
//! within `tol` subnormal spacings; zero -> the zero of the product sign.
//!
//! Set length: "for every tuple" includes the length of the operand set. `large-sets` applies a
//! sample of configurations of all three operators (adapt pairs that permute + sign-flip + convert,
//! axisswap orders, unit pairs; plain and `inv`, both directions) in ONE apply call to sets of 0, 1,
//! 2, 255..257, 511..513, 1023..1025, 4095, 4097 and 20011 tuples whose values are a function of the
//! tuple index (all distinct), every tuple against the same per-tuple reference, count == length.
//!
//! A mismatch of an adapt result is additionally classified by replaying the library's
//! bookkeeping with up to three index slips switched on (see `lib_model`): the failure key
//! names exactly the set of slips that reproduces the library output, so that a different
//! wrong mapping still gets its own key ("adapt-wrong-output").

use geodesy::prelude::*;
use serde::{Deserialize, Serialize};
use std::sync::OnceLock;
use vcore::geo::*;
use vcore::*;

/// Tolerance for scaled adapt elements, in ulps of the exact result (double-double
/// reference). A straightforward implementation rounds up to five times (pi, pi/180 or
/// pi/200, the ratio of two such constants, its reciprocal for the inverse, the product):
/// worst case ~4.4 ulp; observed 1.45 ulp over all pairs (see `worst_ulp` in the evidence).
/// DESIGN.md planned 2 ulp, which is below what the rounding analysis guarantees.
const TOL_ULP: f64 = 6.0;
/// Same for unitconvert: two table constants, a reciprocal, their product, the product (or
/// quotient) with the coordinate: worst case 5 ulp, observed 2.41 ulp over all unit 4-tuples.
const TOL_UC_ULP: f64 = 8.0;

// ---------------------------------------------------------------------------------------
// double-double arithmetic (reference values accurate to ~1e-30 relative)
// ---------------------------------------------------------------------------------------

#[derive(Clone, Copy, Debug)]
struct DD {
    hi: f64,
    lo: f64,
}

fn two_sum(a: f64, b: f64) -> DD {
    let s = a + b;
    let bb = s - a;
    DD { hi: s, lo: (a - (s - bb)) + (b - bb) }
}
fn quick_two_sum(a: f64, b: f64) -> DD {
    let s = a + b;
    DD { hi: s, lo: b - (s - a) }
}
fn two_prod(a: f64, b: f64) -> DD {
    let p = a * b;
    DD { hi: p, lo: a.mul_add(b, -p) }
}

impl DD {
    fn f(x: f64) -> DD {
        DD { hi: x, lo: 0.0 }
    }
    fn from_u128(n: u128) -> DD {
        let hi = n as f64;
        let back = hi as u128;
        let lo = if back > n { -((back - n) as f64) } else { (n - back) as f64 };
        quick_two_sum(hi, lo)
    }
    fn pi() -> DD {
        DD { hi: std::f64::consts::PI, lo: 1.2246467991473532e-16 }
    }
    fn mul(self, o: DD) -> DD {
        let p = two_prod(self.hi, o.hi);
        quick_two_sum(p.hi, p.lo + (self.hi * o.lo + self.lo * o.hi))
    }
    fn sub(self, o: DD) -> DD {
        let s = two_sum(self.hi, -o.hi);
        quick_two_sum(s.hi, s.lo + (self.lo - o.lo))
    }
    fn div(self, o: DD) -> DD {
        let q1 = self.hi / o.hi;
        let r = self.sub(o.mul(DD::f(q1)));
        let q2 = r.hi / o.hi;
        let r = r.sub(o.mul(DD::f(q2)));
        let q3 = r.hi / o.hi;
        let s = quick_two_sum(q1, q2);
        quick_two_sum(s.hi, s.lo + q3)
    }
    fn neg(self) -> DD {
        DD { hi: -self.hi, lo: -self.lo }
    }
}

/// spacing of doubles at |v| (normal numbers)
fn ulp_of(v: f64) -> f64 {
    let e = v.abs().to_bits() & 0x7ff0_0000_0000_0000;
    if e == 0 {
        return f64::from_bits(1);
    }
    f64::from_bits(e) * f64::EPSILON
}

/// |got - want| in ulps of want
fn ulp_err(got: f64, want: DD) -> f64 {
    if !got.is_finite() {
        return f64::INFINITY;
    }
    if want.hi == 0.0 {
        return if got == 0.0 { 0.0 } else { f64::INFINITY };
    }
    ((got - want.hi) - want.lo).abs() / ulp_of(want.hi)
}

// ---------------------------------------------------------------------------------------
// scaled elements over the whole f64 magnitude range
// ---------------------------------------------------------------------------------------
//
// "Multiplies by the ratio / converts by the factor" is a statement about every finite value, not
// only about values of order 1..1e7: whenever the exactly scaled value is a normal f64 the
// delivered one must be that value (within the rounding tolerance) - in particular finite, whatever
// an intermediate quantity would do -, an exact result beyond f64::MAX must be the infinity of the
// right sign, and an exact result below the normal range must have the right sign and an absolute
// error of a few subnormal spacings. The plain double-double product overflows / underflows itself
// at such values, so the reference is formed on the mantissa: v = m x 2^e, exact = (r x m) x 2^e.

/// 2^k, k in -1074..=1023
fn pow2(k: i32) -> f64 {
    if k >= -1022 {
        f64::from_bits(((k + 1023) as u64) << 52)
    } else {
        f64::from_bits(1u64 << (k + 1074))
    }
}
/// x * 2^k without spurious intermediate overflow / underflow
fn scale2(mut x: f64, mut k: i32) -> f64 {
    while k > 1000 {
        x *= pow2(1000);
        k -= 1000;
    }
    while k < -1000 {
        x *= pow2(-1000);
        k += 1000;
    }
    x * pow2(k)
}
/// positive finite non-zero x (also subnormal) = m * 2^e, m in [1, 2)
fn frexp1(x: f64) -> (f64, i32) {
    let (x, adj) = if x < f64::MIN_POSITIVE { (x * pow2(64), -64) } else { (x, 0) };
    let b = x.to_bits();
    let e = ((b >> 52) & 0x7ff) as i32 - 1023;
    (f64::from_bits((b & 0x000f_ffff_ffff_ffff) | (1023u64 << 52)), e + adj)
}

/// where the exactly scaled value lies (and, for normal results, where the input lay)
#[derive(Clone, Copy, Debug, PartialEq, Eq)]
enum Rng {
    /// NaN / infinite input
    NonFinite,
    Zero,
    /// exact result beyond f64::MAX: the infinity of the right sign
    Overflow,
    /// exact result within the tolerance of the overflow threshold: infinity or the finite neighbour
    NearMax,
    /// exact result below the normal range
    Subnormal,
    /// normal result of an input above f64::MAX / 2^21 (times the largest published factor it overflows)
    NormalFromHuge,
    /// normal result of an input below 2^21 x the smallest normal number (subnormal inputs included)
    NormalFromTiny,
    Normal,
}
const RNG_LABELS: [&str; 8] = [
    "non-finite-input",
    "zero-input",
    "exact-result-overflows(inf-required)",
    "exact-result-at-overflow-threshold",
    "exact-result-subnormal",
    "normal-result-of-huge-input(>MAX/2^21)",
    "normal-result-of-tiny-input(<2^21*MIN_POSITIVE)",
    "normal-result-of-ordinary-input",
];
impl Rng {
    fn idx(self) -> usize {
        self as usize
    }
    /// suffix of a failure key: the magnitude class is part of the defect signature
    fn key_suffix(self) -> &'static str {
        match self {
            Rng::Overflow | Rng::NearMax | Rng::NormalFromHuge => "[huge-magnitude]",
            Rng::Subnormal | Rng::NormalFromTiny => "[tiny-magnitude]",
            Rng::Zero => "[zero]",
            _ => "",
        }
    }
}

/// histogram of the range classes of the scaled elements of a case + worst error
#[derive(Clone, Copy, Debug, Default)]
struct Stats {
    worst: f64,
    hist: [u64; 8],
}
impl Stats {
    fn add(&mut self, e: f64, r: Rng) {
        if e > self.worst {
            self.worst = e;
        }
        self.hist[r.idx()] += 1;
    }
    fn record(&self, rec: &mut Rec) {
        rec.metric("worst_ulp", self.worst);
        for (i, n) in self.hist.iter().enumerate() {
            if *n > 0 {
                rec.count(&format!("scaled-elements:{}", RNG_LABELS[i]), *n);
            }
        }
    }
    fn extreme(&self) -> bool {
        [Rng::Overflow, Rng::NearMax, Rng::Subnormal, Rng::NormalFromHuge, Rng::NormalFromTiny].iter().any(|r| self.hist[r.idx()] > 0)
    }
}

/// the exact value (sign, w x 2^e with w in [1, 2) as a double-double) of v x r, v finite non-zero, r > 0
fn exact_scaled(v: f64, r: DD, neg: bool) -> (bool, DD, i32) {
    let (m, e) = frexp1(v.abs());
    let w = r.mul(DD::f(m));
    let (_, k) = frexp1(w.hi);
    let s = pow2(-k);
    (v.is_sign_negative() != neg, DD { hi: w.hi * s, lo: w.lo * s }, e + k)
}

/// the double nearest to v x r (for messages and the loose classification only)
fn scaled_value(v: f64, r: DD, neg: bool) -> f64 {
    let s = if neg { -1.0 } else { 1.0 };
    if v.is_nan() || v.is_infinite() || v == 0.0 {
        return s * v;
    }
    let (n, w, e) = exact_scaled(v, r, neg);
    let a = scale2(w.hi, e);
    if n { -a } else { a }
}

/// Range-aware comparison of a delivered value with (neg ? -1 : 1) x v x r, r > 0 the exact factor:
/// Ok(error in ulps of the exact result (subnormal spacings below the normal range), class) or
/// Err(description, class). Tolerance model: `tol` ulp of the exact result as everywhere else; the
/// spacing below 2^-1022 is the constant 2^-1074; within tol + 2 ulp of 2^1024 both the infinity and
/// a finite value (within tol ulp) are accepted; sign always (IEEE: products and quotients of non-zero
/// factors carry the product of the signs, also when they round to zero or overflow).
fn check_scaled(got: f64, v: f64, r: DD, neg: bool, tol: f64) -> Result<(f64, Rng), (String, Rng)> {
    assert!(r.hi > 0.0 && r.hi.is_finite(), "harness: factor {r:?}");
    if v.is_nan() {
        return if got.is_nan() { Ok((0.0, Rng::NonFinite)) } else { Err((format!("library {got:?}, expected NaN (the source element is NaN)"), Rng::NonFinite)) };
    }
    let want_neg = v.is_sign_negative() != neg;
    let sgn = if want_neg { -1.0 } else { 1.0 };
    if v.is_infinite() {
        return if got == sgn * f64::INFINITY { Ok((0.0, Rng::NonFinite)) } else { Err((format!("library {got:?}, expected {:?}", sgn * f64::INFINITY), Rng::NonFinite)) };
    }
    if v == 0.0 {
        return if got == 0.0 && got.is_sign_negative() == want_neg {
            Ok((0.0, Rng::Zero))
        } else {
            Err((format!("library {got:?}, expected {:?} (a zero scaled by a finite non-zero factor is the zero of the product sign)", sgn * 0.0), Rng::Zero))
        };
    }
    let (_, mut w, mut e) = exact_scaled(v, r, neg);
    let guard = (tol + 2.0) * f64::EPSILON;
    if e == 1024 && w.hi < 1.0 + guard {
        w = DD { hi: 2.0 * w.hi, lo: 2.0 * w.lo };
        e = 1023;
    }
    let want = sgn * scale2(w.hi, e);
    if e >= 1024 {
        return if got == sgn * f64::INFINITY {
            Ok((0.0, Rng::Overflow))
        } else {
            Err((format!("library {got:?}, expected {:?}: the exactly scaled value, about {:?} x 2^{e}, exceeds f64::MAX", sgn * f64::INFINITY, sgn * w.hi), Rng::Overflow))
        };
    }
    let near_max = e == 1023 && w.hi > 2.0 - guard;
    let class = if near_max {
        Rng::NearMax
    } else if e < -1022 {
        Rng::Subnormal
    } else if v.abs() > f64::MAX / pow2(21) {
        Rng::NormalFromHuge
    } else if v.abs() < f64::MIN_POSITIVE * pow2(21) {
        Rng::NormalFromTiny
    } else {
        Rng::Normal
    };
    if near_max && got == sgn * f64::INFINITY {
        return Ok((0.0, class));
    }
    if !got.is_finite() {
        return Err((
            format!("library {got:?}, expected {want:?}: the exactly scaled value (input {v:?} x factor {:?}) is a representable finite number, so the result must be finite whatever an intermediate quantity does", r.hi),
            class,
        ));
    }
    if got.is_sign_negative() != want_neg {
        return Err((format!("library {got:?}, expected {want:?}: wrong sign"), class));
    }
    // error in units of the spacing of doubles at the exact value: 2^(e-52), below the normal range 2^-1074
    let ue = (e - 52).max(-1074);
    let gu = scale2(got.abs(), -ue);
    let sh = (e - ue).max(-1000);
    let (wh, wl) = (scale2(w.hi, sh), scale2(w.lo, sh));
    let err = ((gu - wh) - wl).abs();
    if err <= tol {
        Ok((err, class))
    } else {
        Err((
            format!("library {got:?}, expected {want:?} (input {v:?} x exact factor evaluated in double-double), off by {err:.3e} {}, tolerance {tol}",
                if e < -1022 { "subnormal spacings (2^-1074)" } else { "ulp" }),
            class,
        ))
    }
}

// ---------------------------------------------------------------------------------------
// adapt: descriptors, the documented mapping, and the library's bookkeeping with slips
// ---------------------------------------------------------------------------------------

#[derive(Clone, Copy, Debug, PartialEq, Eq, Hash)]
enum U {
    One, // radians / no angular unit declared ("", _rad, _any)
    Deg,
    Gon,
}

impl U {
    fn name(self) -> &'static str {
        match self {
            U::One => "1",
            U::Deg => "(pi/180)",
            U::Gon => "(pi/200)",
        }
    }
    fn idx(self) -> usize {
        self as usize
    }
}

/// to-radians factor of the unit, exact to double-double precision
fn unit_dd(u: U) -> DD {
    match u {
        U::One => DD::f(1.0),
        U::Deg => DD::pi().div(DD::f(180.0)),
        U::Gon => DD::pi().div(DD::f(200.0)),
    }
}

fn ratio_dd(num: U, den: U) -> DD {
    static T: OnceLock<[[DD; 3]; 3]> = OnceLock::new();
    let t = T.get_or_init(|| {
        let us = [U::One, U::Deg, U::Gon];
        let mut t = [[DD::f(1.0); 3]; 3];
        for n in us {
            for d in us {
                t[n.idx()][d.idx()] = unit_dd(n).div(unit_dd(d));
            }
        }
        t
    });
    t[num.idx()][den.idx()]
}

const POS_LETTERS: [char; 4] = ['e', 'n', 'u', 'f'];
const NEG_LETTERS: [char; 4] = ['w', 's', 'd', 'p'];
const ALPHABET: [char; 8] = ['e', 'n', 'u', 'f', 'w', 's', 'd', 'p'];
const VALID_SUFFIXES: [(&str, U); 5] = [("", U::One), ("_rad", U::One), ("_deg", U::Deg), ("_gon", U::Gon), ("_any", U::One)];
const INVALID_SUFFIXES: [&str; 16] = [
    "_pap", "_grad", "_DEG", "_Deg", "_de", "_degs", "deg", "-deg", ".deg", "_", "_ra", "rad_", "_r4d", "_GON", "_rad_deg", "_dge",
];

/// A coordinate order descriptor as documented: external position i carries the internal
/// axis `axis[i]` (0 = east, 1 = north, 2 = up, 3 = future), reverted if `neg[i]`; the
/// angular unit applies to the horizontal (east/north-ish) elements.
#[derive(Clone, Debug, PartialEq, Eq)]
struct Desc {
    axis: [usize; 4],
    neg: [bool; 4],
    unit: U,
}

/// Parser for the documented descriptor grammar (independent of the library's).
fn parse_desc(t: &str) -> Option<Desc> {
    let chars: Vec<char> = t.chars().collect();
    if chars.len() < 4 {
        return None;
    }
    let suffix: String = chars[4..].iter().collect();
    let unit = VALID_SUFFIXES.iter().find(|s| s.0 == suffix)?.1;
    let mut axis = [9usize; 4];
    let mut neg = [false; 4];
    let mut seen = [false; 4];
    for i in 0..4 {
        let c = chars[i];
        if let Some(a) = POS_LETTERS.iter().position(|p| *p == c) {
            axis[i] = a;
        } else if let Some(a) = NEG_LETTERS.iter().position(|p| *p == c) {
            axis[i] = a;
            neg[i] = true;
        } else {
            return None;
        }
        if seen[axis[i]] {
            return None;
        }
        seen[axis[i]] = true;
    }
    Some(Desc { axis, neg, unit })
}

fn perms4() -> &'static Vec<[usize; 4]> {
    static P: OnceLock<Vec<[usize; 4]>> = OnceLock::new();
    P.get_or_init(|| {
        let mut v = vec![];
        for a in 0..4 {
            for b in 0..4 {
                for c in 0..4 {
                    for d in 0..4 {
                        let p = [a, b, c, d];
                        let mut seen = [false; 4];
                        p.iter().for_each(|x| seen[*x] = true);
                        if seen == [true; 4] {
                            v.push(p);
                        }
                    }
                }
            }
        }
        assert_eq!(v.len(), 24);
        v
    })
}

const N_SPELL: usize = 1920;

/// The s-th of the 1920 valid spellings: 24 orders x 16 sign combinations x 5 suffix forms.
fn spelling(s: usize) -> String {
    let suffix = VALID_SUFFIXES[s % 5].0;
    let signs = (s / 5) % 16;
    let perm = perms4()[s / 80];
    let mut t = String::with_capacity(8);
    for i in 0..4 {
        let a = perm[i];
        t.push(if signs & (1 << a) != 0 { NEG_LETTERS[a] } else { POS_LETTERS[a] });
    }
    t.push_str(suffix);
    t
}

/// out[i] = (neg ? -1 : 1) * x[src] * num/den
#[derive(Clone, Copy, Debug, PartialEq, Eq)]
struct Elem {
    src: usize,
    neg: bool,
    num: U,
    den: U,
}
type Map = [Elem; 4];

fn elem_text(i: usize, e: &Elem) -> String {
    let f = if e.num == U::One && e.den == U::One { String::new() } else { format!(" * {}/{}", e.num.name(), e.den.name()) };
    format!("out[{i}] = {}in[{}]{f}", if e.neg { "-" } else { "" }, e.src)
}
fn map_text(m: &Map) -> String {
    (0..4).map(|i| elem_text(i, &m[i])).collect::<Vec<_>>().join("; ")
}
fn same_factor(a: &Elem, b: &Elem) -> bool {
    let n = |e: &Elem| if e.num == e.den { (U::One, U::One) } else { (e.num, e.den) };
    a.src == b.src && a.neg == b.neg && n(a) == n(b)
}

/// THE REFERENCE, from the documentation: data described by `s` are delivered as
/// described by `d`. Element i of the result is the element of the source that carries
/// the same axis, reverted if exactly one of the two descriptors reverts that axis, and,
/// for the horizontal axes only, converted from the angular unit of `s` to that of `d`.
fn reference(s: &Desc, d: &Desc) -> Map {
    let mut m = [Elem { src: 0, neg: false, num: U::One, den: U::One }; 4];
    for i in 0..4 {
        let a = d.axis[i];
        let k = s.axis.iter().position(|x| *x == a).unwrap();
        let horizontal = a < 2;
        m[i] = Elem {
            src: k,
            neg: s.neg[k] != d.neg[i],
            num: if horizontal { s.unit } else { U::One },
            den: if horizontal { d.unit } else { U::One },
        };
    }
    m
}

#[derive(Clone, Copy, Debug, PartialEq, Eq)]
struct Slips {
    /// combine_descriptors takes from.mult at the output position instead of the source position
    combine: bool,
    /// the inverse takes 1/mult at the source position instead of the output position
    inv: bool,
    /// the angular factor goes to external positions 0 and 1 instead of the e/n-ish elements
    angular_pos: bool,
}

const SLIP_SETS: [Slips; 7] = [
    Slips { combine: true, inv: false, angular_pos: false },
    Slips { combine: false, inv: true, angular_pos: false },
    Slips { combine: false, inv: false, angular_pos: true },
    Slips { combine: true, inv: true, angular_pos: false },
    Slips { combine: true, inv: false, angular_pos: true },
    Slips { combine: false, inv: true, angular_pos: true },
    Slips { combine: true, inv: true, angular_pos: true },
];

impl Slips {
    fn label(&self) -> String {
        let mut v = vec![];
        if self.combine {
            v.push("combine");
        }
        if self.inv {
            v.push("inv");
        }
        if self.angular_pos {
            v.push("angular-pos");
        }
        v.join("+")
    }
}

/// The library's bookkeeping (descriptor -> (post, mult); combine; forward gather /
/// inverse scatter), symbolically, with selectable index slips. Used (a) with no slips as
/// a cross-check of `reference`, (b) with slips only to *name* a mismatch.
fn lib_model(from: &Desc, to: &Desc, inverse_path: bool, s: Slips) -> Map {
    let mult = |d: &Desc, i: usize| -> (bool, U) {
        let angular = if s.angular_pos { i < 2 } else { d.axis[i] < 2 };
        (d.neg[i], if angular { d.unit } else { U::One })
    };
    let mut post = [0usize; 4];
    let mut gm = [(false, U::One, U::One); 4]; // (neg, num, den)
    for i in 0..4 {
        let k = from.axis.iter().position(|x| *x == to.axis[i]).unwrap();
        post[i] = k;
        let f = mult(from, if s.combine { i } else { k });
        let t = mult(to, i);
        gm[i] = (f.0 != t.0, f.1, t.1);
    }
    let mut m = [Elem { src: 0, neg: false, num: U::One, den: U::One }; 4];
    if !inverse_path {
        for i in 0..4 {
            m[i] = Elem { src: post[i], neg: gm[i].0, num: gm[i].1, den: gm[i].2 };
        }
    } else {
        for j in 0..4 {
            let g = gm[if s.inv { post[j] } else { j }];
            m[post[j]] = Elem { src: j, neg: g.0, num: g.2, den: g.1 };
        }
    }
    m
}

/// Strict comparison of one element. Ok(ulp error, range class) or Err(description, range class).
fn check_elem(got: f64, x: &[f64; 4], e: &Elem, tol: f64) -> Result<(f64, Option<Rng>), (String, Rng)> {
    let v = x[e.src];
    if e.num == U::One && e.den == U::One {
        let want = if e.neg { -v } else { v };
        if bits_eq(got, want) {
            Ok((0.0, None))
        } else {
            Err((format!("library {got:?}, expected exactly {want:?} (bit-identical: pure reordering / sign)"), Rng::Normal))
        }
    } else {
        match check_scaled(got, v, ratio_dd(e.num, e.den), e.neg, tol) {
            Ok((err, c)) => Ok((err, Some(c))),
            Err((t, c)) => Err((format!("{t} [exact ratio {}/{}]", e.num.name(), e.den.name()), c)),
        }
    }
}

/// Strict comparison of whole tuples against a map. Returns the first mismatch text and the
/// magnitude class of the mismatching element.
fn compare_map(m: &Map, input: &[[f64; 4]], out: &[Coor4D], tol: f64, st: &mut Stats) -> Option<(String, Rng)> {
    for (p, x) in input.iter().enumerate() {
        for i in 0..4 {
            match check_elem(out[p][i], x, &m[i], tol) {
                Ok((e, c)) => {
                    if let Some(c) = c {
                        st.add(e, c);
                    }
                }
                Err((t, c)) => {
                    return Some((
                        format!(
                            "tuple {p} element {i} ({}): {t}\n  input    {:?}\n  library  {}\n  expected {:?}",
                            elem_text(i, &m[i]),
                            x,
                            fmt_c4(&out[p]),
                            expected_tuple(m, x)
                        ),
                        c,
                    ))
                }
            }
        }
    }
    None
}

fn expected_tuple(m: &Map, x: &[f64; 4]) -> [f64; 4] {
    let mut o = [0.0; 4];
    for i in 0..4 {
        let e = &m[i];
        o[i] = if e.num == U::One && e.den == U::One {
            if e.neg { -x[e.src] } else { x[e.src] }
        } else {
            scaled_value(x[e.src], ratio_dd(e.num, e.den), e.neg)
        };
    }
    o
}

/// Loose comparison (1e-12 relative), only used to name a mismatch.
fn matches_loose(m: &Map, input: &[[f64; 4]], out: &[Coor4D]) -> bool {
    for (p, x) in input.iter().enumerate() {
        let w = expected_tuple(m, x);
        for i in 0..4 {
            let g = out[p][i];
            if !(g == w[i] || (g - w[i]).abs() <= 1e-12 * w[i].abs()) {
                return false;
            }
        }
    }
    true
}

// ---------------------------------------------------------------------------------------
// running a definition
// ---------------------------------------------------------------------------------------

enum Outcome {
    Rejected(String),
    Done(usize, Vec<Coor4D>),
}

fn run_in<C: Context>(mut ctx: C, def: &str, fwd: bool, input: &[[f64; 4]]) -> Result<Outcome, Failure> {
    let op = match try_op(&mut ctx, def) {
        Err(p) => vfail!(format!("panic-instantiate@{}", p.sig()), "instantiating '{def}' panics: {} at {}:{}", p.msg, p.file, p.line),
        Ok(Err(e)) => return Ok(Outcome::Rejected(format!("{e:?}"))),
        Ok(Ok(op)) => op,
    };
    let mut data: Vec<Coor4D> = input.iter().map(|c| Coor4D(*c)).collect();
    let dir = dir_of(fwd);
    match try_apply(&ctx, op, dir_of(fwd), &mut data) {
        Err(p) => vfail!(format!("panic-apply@{}", p.sig()), "applying '{def}' ({dir:?}) panics: {} at {}:{}", p.msg, p.file, p.line),
        Ok(Err(e)) => vfail!("apply-error", "apply of '{def}' ({dir:?}) returned an error: {e:?}"),
        Ok(Ok(n)) => Ok(Outcome::Done(n, data)),
    }
}

/// ctx: 0 = Minimal::default (no macros), 1 = Minimal::new, 2 = Plain::default, 3 = Plain::new
fn run_def(def: &str, ctx: u8, fwd: bool, input: &[[f64; 4]]) -> Result<Outcome, Failure> {
    match ctx {
        0 => run_in(Minimal::default(), def, fwd, input),
        1 => run_in(Minimal::new(), def, fwd, input),
        2 => run_in(Plain::default(), def, fwd, input),
        _ => run_in(Plain::new(), def, fwd, input),
    }
}

fn raw(ps: &[P4]) -> Vec<[f64; 4]> {
    ps.iter().map(|p| [p[0].0, p[1].0, p[2].0, p[3].0]).collect()
}

fn splitmix(x: u64) -> u64 {
    let mut z = x.wrapping_add(0x9E3779B97F4A7C15);
    z = (z ^ (z >> 30)).wrapping_mul(0xBF58476D1CE4E5B9);
    z = (z ^ (z >> 27)).wrapping_mul(0x94D049BB133111EB);
    z ^ (z >> 31)
}
fn frac(seed: u64, k: u64) -> f64 {
    (splitmix(seed ^ splitmix(k)) >> 11) as f64 / (1u64 << 53) as f64
}

/// Probe tuples: values in separated magnitude bands so that no quotient of two elements is
/// near any factor the operators can apply (1, 0.9, 10/9, pi/180, pi/200 and reciprocals):
/// a value that lands on the wrong element, or gets the wrong factor, cannot look right.
fn probes(seed: u64, n: usize) -> Vec<P4> {
    let mut v = vec![
        p4(1.2345678901234567, 23.456789012345678, 345.67890123456789, 4567.8901234567890),
        p4(0.0, -0.0, -61.803398874989485, 2020.5),
    ];
    let mut k = 0;
    while v.len() < n {
        let s = |j: u64| if frac(seed, 1000 + 8 * k + j) < 0.5 { -1.0 } else { 1.0 };
        v.push(p4(
            s(4) * (1.0 + frac(seed, 8 * k)),
            s(5) * (20.0 + 10.0 * frac(seed, 8 * k + 1)),
            s(6) * (300.0 + 100.0 * frac(seed, 8 * k + 2)),
            s(7) * (5000.0 + 1000.0 * frac(seed, 8 * k + 3)),
        ));
        k += 1;
    }
    v.truncate(n);
    v
}

/// The magnitude dimension of the probe values: positive values over the whole finite f64 range.
/// Fixed landmarks (0, the smallest / a few / the largest subnormal, the smallest normal number and
/// its neighbour, 1e-300, 1e-30, 1, 1e30, 1e300, f64::MAX/4, /2, its predecessor, f64::MAX) and
/// seeded generic mantissas at binary exponents that are dense within 2^21 (the largest ratio of two
/// published unit factors, kmi/mm = 1.852e6) of both ends of the normal range - there the exact
/// result stays representable while any detour through a larger / smaller intermediate does not -
/// and sparse in between.
fn magnitudes(seed: u64) -> Vec<f64> {
    let mut v = vec![
        0.0,
        f64::from_bits(1),
        f64::from_bits(3),
        1.0e-320,
        f64::from_bits(0x000f_ffff_ffff_ffff),
        f64::MIN_POSITIVE,
        f64::from_bits(f64::MIN_POSITIVE.to_bits() + 1),
        1.0e-307,
        1.0e-305,
        1.0e-300,
        1.0e-30,
        1.0,
        1.0e30,
        1.0e300,
        1.0e305,
        1.0e306,
        f64::MAX / 4.0,
        f64::MAX / 2.0,
        1.0e308,
        f64::from_bits(f64::MAX.to_bits() - 1),
        f64::MAX,
    ];
    const EXPONENTS: [i32; 30] = [
        -1070, -1050, -1035, -1026, -1023, -1022, -1021, -1019, -1016, -1013, -1011, -1008, -1004, -1001, -997, -100, 0, 100, 997, 1001, 1003, 1006, 1009, 1011,
        1013, 1016, 1019, 1021, 1022, 1023,
    ];
    for (k, e) in EXPONENTS.iter().enumerate() {
        // 1 <= m < 2 with 52 random mantissa bits; below the normal range the low bits drop out exactly
        let m = 1.0 + frac(seed ^ 0x3A6, k as u64);
        v.push(scale2(m, *e));
    }
    v
}

/// Probe tuples carrying the magnitude dimension: every magnitude in every element position with
/// either sign (tuple k of pass s: element j = (-1)^(j+s) x magnitude[k + offset_j]); the values of
/// one tuple lie far apart, so the fourth (never scaled by unitconvert) element is extreme as well.
fn mag_probes(seed: u64) -> Vec<P4> {
    let m = magnitudes(seed);
    let n = m.len();
    let mut v = Vec::with_capacity(2 * n);
    for s in 0..2usize {
        for k in 0..n {
            let e = |j: usize| {
                let x = m[(k + [0, 13, 26, 38][j]) % n];
                if (j + s) % 2 == 0 { x } else { -x }
            };
            v.push(p4(e(0), e(1), e(2), e(3)));
        }
    }
    v
}

// ---------------------------------------------------------------------------------------
// adapt: pairs
// ---------------------------------------------------------------------------------------

#[derive(Clone, Debug, Serialize, Deserialize)]
struct PairCase {
    /// descriptor the data come in
    from: String,
    /// descriptor the data are delivered in
    to: String,
    /// 0: `adapt from=F to=T`; 1: `adapt to=T from=F`; 2: `adapt inv from=T to=F`; 3: variant 0 on Plain
    variant: u8,
    /// direction the handle is applied in (Inv must then deliver T -> F)
    fwd: bool,
    probes: Vec<P4>,
}

/// (definition, declared from, declared to, inv flag, context)
fn pair_def(c: &PairCase) -> (String, String, String, bool, u8) {
    match c.variant {
        0 => (format!("adapt from={} to={}", c.from, c.to), c.from.clone(), c.to.clone(), false, 0),
        1 => (format!("adapt to={} from={}", c.to, c.from), c.from.clone(), c.to.clone(), false, 0),
        2 => (format!("adapt inv from={} to={}", c.to, c.from), c.to.clone(), c.from.clone(), true, 0),
        _ => (format!("adapt from={} to={}", c.from, c.to), c.from.clone(), c.to.clone(), false, 2),
    }
}

/// Common oracle for every adapt instantiation: `def` declares (dfrom, dto, inv flag) and is
/// applied in direction `fwd`. Returns the library output for further comparisons.
fn check_adapt(def: &str, dfrom: &str, dto: &str, inv_flag: bool, ctx: u8, fwd: bool, input: &[[f64; 4]], rec: &mut Rec) -> Result<Vec<Coor4D>, Failure> {
    let (Some(f), Some(t)) = (parse_desc(dfrom), parse_desc(dto)) else {
        vfail!("harness-bad-case", "case descriptors '{dfrom}' / '{dto}' are not valid spellings")
    };
    let dir = dir_of(fwd);
    let (n, out) = match run_def(def, ctx, fwd, input)? {
        Outcome::Rejected(e) => vfail!("adapt-valid-rejected", "'{def}': valid descriptors rejected: {e}"),
        Outcome::Done(n, out) => (n, out),
    };
    vensure!(n == input.len(), "adapt-count", "'{def}' ({dir:?}) on {} tuples reports {n} successes", input.len());
    let inverse_path = inv_flag != !fwd;
    // the documented meaning: forward delivers `to` from `from`, the inverse is the reverse mapping
    let want = if inverse_path { reference(&t, &f) } else { reference(&f, &t) };
    // cross-check of the two independently written models (harness bug if it fires)
    let none = Slips { combine: false, inv: false, angular_pos: false };
    let lm = lib_model(&f, &t, inverse_path, none);
    assert!((0..4).all(|i| same_factor(&lm[i], &want[i])), "harness: models disagree for {def}: {lm:?} vs {want:?}");

    let mut st = Stats::default();
    if let Some((mis, rng)) = compare_map(&want, input, &out, TOL_ULP, &mut st) {
        let mut key = "adapt-wrong-output".to_string();
        let mut expl = "the library output is not explained by any of the modelled index slips".to_string();
        if matches_loose(&want, input, &out) {
            // right elements, right factors to 1e-12: a rounding / magnitude matter, not a bookkeeping slip
            expl = "the library output agrees with the documented mapping to 1e-12 relative: the deviation is one of rounding / magnitude, not of bookkeeping".to_string();
        } else {
            for s in SLIP_SETS {
                let m = lib_model(&f, &t, inverse_path, s);
                if matches_loose(&m, input, &out) {
                    key = format!("adapt-mult-misindexed[{}]", s.label());
                    expl = format!("the library output equals the mapping {{{}}}, i.e. the bookkeeping with the index slip(s) [{}]", map_text(&m), s.label());
                    break;
                }
            }
        }
        key.push_str(rng.key_suffix());
        vfail!(key, "'{def}' applied {dir:?} ({}): {mis}\n  documented mapping {{{}}}\n  {expl}",
            if inverse_path { format!("must deliver '{dfrom}' from '{dto}'") } else { format!("must deliver '{dto}' from '{dfrom}'") },
            map_text(&want));
    }
    st.record(rec);
    if st.extreme() {
        rec.class("scaled-element-at-extreme-magnitude");
    }
    // classes
    let perm = (0..4).any(|i| want[i].src != i);
    let sign = (0..4).any(|i| want[i].neg);
    let unit = (0..4).any(|i| want[i].num != want[i].den);
    rec.class(match (perm, sign, unit) {
        (false, false, false) => "identity",
        (true, false, false) => "perm",
        (false, true, false) => "sign",
        (false, false, true) => "unit",
        (true, true, false) => "perm+sign",
        (true, false, true) => "perm+unit",
        (false, true, true) => "sign+unit",
        (true, true, true) => "perm+sign+unit",
    });
    rec.class(if inverse_path { "path-inverse" } else { "path-forward" });
    // non-trivial: some element moves, and the moved element's multiplier differs from the
    // multiplier of the element it displaces (in the source or in the target descriptor)
    let m_of = |d: &Desc, i: usize| (d.neg[i], if d.axis[i] < 2 { d.unit } else { U::One });
    let (s, d) = if inverse_path { (&t, &f) } else { (&f, &t) };
    if (0..4).any(|i| want[i].src != i && (m_of(s, want[i].src) != m_of(s, i) || m_of(d, want[i].src) != m_of(d, i))) {
        rec.class("nontrivial");
        rec.nontrivial(&(def.to_string(), fwd));
    }
    Ok(out)
}

fn check_pair(c: &PairCase, rec: &mut Rec) -> CaseResult {
    let (def, dfrom, dto, inv, ctx) = pair_def(c);
    check_adapt(&def, &dfrom, &dto, inv, ctx, c.fwd, &raw(&c.probes), rec).map(|_| ())
}

// ---------------------------------------------------------------------------------------
// adapt: one-sided forms, `to=X` == `inv from=X`
// ---------------------------------------------------------------------------------------

#[derive(Clone, Debug, Serialize, Deserialize)]
struct SideCase {
    x: String,
    fwd: bool,
    ctx: u8,
    probes: Vec<P4>,
}

fn check_side(c: &SideCase, rec: &mut Rec) -> CaseResult {
    let input = raw(&c.probes);
    let x = &c.x;
    // `from` / `to` default to the internal format enuf(_rad)
    let a = check_adapt(&format!("adapt from={x}"), x, "enuf", false, c.ctx, c.fwd, &input, rec)?;
    let b = check_adapt(&format!("adapt inv to={x}"), "enuf", x, true, c.ctx, c.fwd, &input, rec)?;
    let t = check_adapt(&format!("adapt to={x}"), "enuf", x, false, c.ctx, c.fwd, &input, rec)?;
    let u = check_adapt(&format!("adapt inv from={x}"), x, "enuf", true, c.ctx, c.fwd, &input, rec)?;
    // documented equivalence, compared directly as well
    for (l, r, what) in [(&t, &u, ("adapt to=", "adapt inv from=")), (&a, &b, ("adapt from=", "adapt inv to="))] {
        for p in 0..input.len() {
            for i in 0..4 {
                let d = ulps(l[p][i], r[p][i]);
                rec.metric("equivalent_forms_ulp", d as f64);
                vensure!(d as f64 <= 2.0 * TOL_ULP, "adapt-to-differs-from-inv-from",
                    "'{}{x}' and '{}{x}' ({:?}) differ on input {:?}: {} vs {}", what.0, what.1, dir_of(c.fwd), input[p], fmt_c4(&l[p]), fmt_c4(&r[p]));
            }
        }
    }
    Ok(())
}

// ---------------------------------------------------------------------------------------
// adapt: acceptance / rejection
// ---------------------------------------------------------------------------------------

#[derive(Clone, Debug, Serialize, Deserialize)]
struct AcceptCase {
    desc: String,
    /// 0: from=, 1: to=
    role: u8,
}

fn check_accept(c: &AcceptCase, rec: &mut Rec) -> CaseResult {
    let def = format!("adapt {}={}", if c.role == 0 { "from" } else { "to" }, c.desc);
    let valid = parse_desc(&c.desc).is_some();
    let mut ctx = Minimal::default();
    match try_op(&mut ctx, &def) {
        Err(p) => vfail!(format!("panic-instantiate@{}", p.sig()), "instantiating '{def}' panics instead of {}: {} at {}:{}",
            if valid { "succeeding" } else { "rejecting the invalid descriptor" }, p.msg, p.file, p.line),
        Ok(Ok(_)) => {
            vensure!(valid, "adapt-invalid-accepted", "'{def}': the descriptor is not one of the documented spellings (four letters, one of each of e|w n|s u|d f|p, optional _rad/_deg/_gon/_any) but is accepted");
            rec.class("accepted");
        }
        Ok(Err(e)) => {
            vensure!(!valid, "adapt-valid-rejected", "'{def}': documented spelling rejected: {e:?}");
            rec.class("rejected");
            rec.nontrivial(&def);
        }
    }
    Ok(())
}

fn odd_descriptors() -> Vec<String> {
    let mut v: Vec<String> = [
        "e", "en", "enu", "enuft", "enufx", "ENUF", "Enuf", "enuF", "1234", "enu1", "enuf_", "enuf_d", "enuf_de", "enuf_degs", "enuf_deg_",
        "enuf-deg", "enuf.deg", "enufdeg", "enufenuf", "enuf_DEG", "_degenuf", "deg_enuf", "enu_fdeg", "neuf_rad_deg", "pass_deg", "passs",
        "enun", "eeee", "ewnu", "nsuf", "udef", "fpen", "enuf_rad2", "enuf__deg", "x", "enu_", "e_n_u_f", "enuf_gra", "enuf_grad",
        // multi-byte characters: 4 or 8 bytes long but fewer than 4 letters, and other lengths
        "éé", "€e", "enñ", "eñu", "éé_deg", "eñu_deg", "enñ_gon", "ééuf", "enué", "enu€", "ñenu_deg", "enuf_dég", "еnuf", "ｅｎｕｆ",
    ]
    .iter()
    .map(|s| s.to_string())
    .collect();
    v.dedup();
    v
}

/// Two-sided (and `inv` / pipeline / layout) forms of the acceptance rule: a definition is
/// accepted iff EVERY descriptor it gives is a documented spelling — whatever the other
/// descriptor is, in particular also when both texts are the same invalid text.
#[derive(Clone, Debug, Serialize, Deserialize)]
struct TwoCase {
    from: String,
    to: String,
    /// 0 `adapt from=F to=T`; 1 `adapt to=T from=F`; 2 `adapt inv from=F to=T`; 3 `adapt inv to=T from=F`;
    /// 4 blanks around `=`; 5 second step of a pipeline; 6 first step of a pipeline; 7 form 0 on Plain;
    /// one-sided (only `from` is used): 8 `adapt inv from=F`; 9 `adapt inv to=F`; 10 `noop | adapt to=F`;
    /// 11 `adapt from=F | noop`
    form: u8,
}
const TWO_SIDED_FORMS: usize = 8;
const ALL_FORMS: usize = 12;

fn two_def(c: &TwoCase) -> (String, bool, u8) {
    let (f, t) = (&c.from, &c.to);
    match c.form {
        0 => (format!("adapt from={f} to={t}"), true, 0),
        1 => (format!("adapt to={t} from={f}"), true, 0),
        2 => (format!("adapt inv from={f} to={t}"), true, 0),
        3 => (format!("adapt inv to={t} from={f}"), true, 0),
        4 => (format!("adapt  from = {f}   to = {t} "), true, 0),
        5 => (format!("adapt from=neuf_deg | adapt from={f} to={t}"), true, 0),
        6 => (format!("adapt to={t} from={f} inv | noop"), true, 0),
        7 => (format!("adapt from={f} to={t}"), true, 2),
        8 => (format!("adapt inv from={f}"), false, 0),
        9 => (format!("adapt inv to={f}"), false, 0),
        10 => (format!("noop | adapt to={f}"), false, 0),
        _ => (format!("adapt from={f} | noop"), false, 0),
    }
}

fn check_two(c: &TwoCase, rec: &mut Rec) -> CaseResult {
    let (def, two_sided, ctxk) = two_def(c);
    let vf = parse_desc(&c.from).is_some();
    let vt = !two_sided || parse_desc(&c.to).is_some();
    let valid = vf && vt;
    let equal = two_sided && c.from == c.to;
    let res = if ctxk == 0 { try_op(&mut Minimal::default(), &def) } else { try_op(&mut Plain::default(), &def) };
    match res {
        Err(p) => vfail!(format!("panic-instantiate@{}", p.sig()), "instantiating '{def}' panics instead of {}: {} at {}:{}",
            if valid { "succeeding" } else { "rejecting the invalid descriptor" }, p.msg, p.file, p.line),
        Ok(Ok(_)) => {
            vensure!(valid, if equal { "adapt-invalid-accepted[equal-texts]" } else if two_sided { "adapt-invalid-accepted[two-sided]" } else { "adapt-invalid-accepted" },
                "'{def}' is accepted although {} not a documented spelling (four letters, one of each of e|w n|s u|d f|p, optional _rad/_deg/_gon/_any){}",
                match (vf, vt) { (false, false) if equal => format!("'{}' (given for both from and to) is", c.from), (false, false) => format!("'{}' and '{}' are", c.from, c.to), (false, true) => format!("'{}' is", c.from), _ => format!("'{}' is", c.to) },
                if equal { "; giving the same invalid text on both sides must not turn the operator into a silent no-op" } else { "" });
            rec.class(if equal { "accepted-equal-valid" } else { "accepted-valid" });
        }
        Ok(Err(e)) => {
            vensure!(!valid, "adapt-valid-rejected", "'{def}': documented spellings rejected: {e:?}");
            rec.class(match (equal, vf, vt, two_sided) {
                (true, ..) => "rejected-equal-invalid",
                (_, _, _, false) => "rejected-one-sided-inv-or-pipeline",
                (_, false, false, _) => "rejected-both-invalid-different",
                (_, false, true, _) => "rejected-from-invalid",
                _ => "rejected-to-invalid",
            });
            rec.nontrivial(&def);
        }
    }
    Ok(())
}

/// every invalid descriptor text of the acceptance sweep: (4096 words x 21 suffix forms) minus the
/// 1920 valid spellings, plus the odd descriptors
fn all_invalid_texts() -> Vec<String> {
    let mut v = vec![];
    for s in 0..VALID_SUFFIXES.len() + INVALID_SUFFIXES.len() {
        for w in 0..4096usize {
            let mut t: String = (0..4).map(|k| ALPHABET[(w >> (3 * k)) & 7]).collect();
            t.push_str(if s < 5 { VALID_SUFFIXES[s].0 } else { INVALID_SUFFIXES[s - 5] });
            if parse_desc(&t).is_none() {
                v.push(t);
            }
        }
    }
    v.extend(odd_descriptors());
    assert_eq!(v.len(), 4096 * 21 - N_SPELL + odd_descriptors().len());
    v
}

/// the k-th near-diagonal partner of the i-th invalid text
fn near_partner(inv: &[String], i: usize, k: usize) -> String {
    let x = &inv[i];
    let chars: Vec<char> = x.chars().collect();
    let word: String = chars.iter().take(4).collect();
    let rest: String = chars.iter().skip(4).collect();
    match k {
        // a different invalid text
        0 => inv[(i + 1) % inv.len()].clone(),
        // the same text in the other case
        1 => {
            let u = x.to_uppercase();
            let l = x.to_lowercase();
            if &u != x { u } else if &l != x { l } else { format!("{x}_") }
        }
        // a valid spelling, rotating
        2 => spelling((splitmix(i as u64) % N_SPELL as u64) as usize),
        // its own valid prefix (the four-letter word), else the internal order with its suffix, else enuf
        _ => {
            if parse_desc(&word).is_some() {
                word
            } else if parse_desc(&format!("enuf{rest}")).is_some() {
                format!("enuf{rest}")
            } else {
                "enuf".to_string()
            }
        }
    }
}

// ---------------------------------------------------------------------------------------
// adapt: the built-in macros
// ---------------------------------------------------------------------------------------

/// (macro, external descriptor, is_in) — from the documentation: geo = (lat, lon) degrees,
/// gis = (lon, lat) degrees, neu = (northing, easting, up), enu = internal; `:in` reads
/// external data into the internal format, `:out` writes them.
const MACROS: [(&str, &str, bool); 8] = [
    ("geo:in", "neuf_deg", true),
    ("geo:out", "neuf_deg", false),
    ("gis:in", "enuf_deg", true),
    ("gis:out", "enuf_deg", false),
    ("neu:in", "neuf", true),
    ("neu:out", "neuf", false),
    ("enu:in", "enuf", true),
    ("enu:out", "enuf", false),
];

#[derive(Clone, Debug, Serialize, Deserialize)]
struct MacroCase {
    /// one or two macro names
    steps: Vec<String>,
    /// append ` inv` to the (single) macro invocation
    inv_suffix: bool,
    plain: bool,
    fwd: bool,
    probes: Vec<P4>,
}

fn macro_map(name: &str, inverse: bool) -> Option<Map> {
    let m = MACROS.iter().find(|m| m.0 == name)?;
    let ext = parse_desc(m.1)?;
    let int = parse_desc("enuf")?;
    let reading = m.2 != inverse;
    Some(if reading { reference(&ext, &int) } else { reference(&int, &ext) })
}

fn check_macro(c: &MacroCase, rec: &mut Rec) -> CaseResult {
    let input = raw(&c.probes);
    let def = if c.steps.len() == 1 {
        format!("{}{}", c.steps[0], if c.inv_suffix { " inv" } else { "" })
    } else {
        c.steps.join(" | ")
    };
    let dir = dir_of(c.fwd);
    let (n, out) = match run_def(&def, if c.plain { 3 } else { 1 }, c.fwd, &input)? {
        Outcome::Rejected(e) => vfail!("macro-rejected", "'{def}': built-in adaptor macro not available: {e}"),
        Outcome::Done(n, out) => (n, out),
    };
    vensure!(n == input.len(), "macro-count", "'{def}' ({dir:?}) on {} tuples reports {n} successes", input.len());
    // executed maps in execution order
    let inverse = c.inv_suffix != !c.fwd;
    let mut order: Vec<&String> = c.steps.iter().collect();
    if !c.fwd {
        order.reverse();
    }
    let maps: Vec<Map> = order.iter().map(|s| macro_map(s, inverse).expect("macro name")).collect();
    let mut st = Stats::default();
    let mut worst = 0.0;
    if maps.len() == 1 {
        if let Some((mis, _)) = compare_map(&maps[0], &input, &out, TOL_ULP, &mut st) {
            vfail!(format!("macro-wrong-output:{}", c.steps[0]), "'{def}' ({dir:?}, {}): {mis}\n  documented mapping {{{}}}",
                if c.plain { "Plain" } else { "Minimal" }, map_text(&maps[0]));
        }
    } else {
        // two executed steps: element i comes from element maps[1][i].src of the intermediate,
        // which comes from element maps[0][..].src of the input; the factors multiply. Bit-identical
        // if neither step scales the element, else within the sum of the step tolerances (+1 for
        // the rounding of the intermediate).
        for (p, x) in input.iter().enumerate() {
            for i in 0..4 {
                let e2 = maps[1][i];
                let e1 = maps[0][e2.src];
                let neg = e1.neg != e2.neg;
                let pure = |e: &Elem| e.num == U::One && e.den == U::One;
                let v = x[e1.src];
                let got = out[p][i];
                let ok = if pure(&e1) && pure(&e2) {
                    bits_eq(got, if neg { -v } else { v })
                } else {
                    let mut want = ratio_dd(e1.num, e1.den).mul(ratio_dd(e2.num, e2.den)).mul(DD::f(v));
                    if neg {
                        want = want.neg();
                    }
                    let e = ulp_err(got, want);
                    if e > worst {
                        worst = e;
                    }
                    let steps = usize::from(!pure(&e1)) + usize::from(!pure(&e2));
                    e <= steps as f64 * TOL_ULP + 1.0
                };
                vensure!(ok, format!("macro-pipeline-wrong-output:{}", c.steps.join("|")),
                    "'{def}' ({dir:?}, {}): tuple {p} element {i}: input {:?} -> library {}; documented: first executed step {{{}}}, second {{{}}}",
                    if c.plain { "Plain" } else { "Minimal" }, x, fmt_c4(&out[p]), map_text(&maps[0]), map_text(&maps[1]));
            }
        }
    }
    rec.metric("worst_ulp", worst.max(st.worst));
    rec.class(if c.steps.len() == 1 { "single" } else { "two-step" });
    if maps.iter().any(|m| (0..4).any(|i| m[i].src != i || m[i].num != m[i].den)) {
        rec.nontrivial(&(def, c.fwd, c.plain));
    }
    Ok(())
}

// ---------------------------------------------------------------------------------------
// axisswap
// ---------------------------------------------------------------------------------------

#[derive(Clone, Debug, Serialize, Deserialize)]
struct SwapCase {
    order: Vec<i8>,
    inv_flag: bool,
    fwd: bool,
    probes: Vec<P4>,
}

/// documented validity: 1..4 indices which are a signed permutation of 1..k
fn swap_valid(order: &[i8]) -> bool {
    let k = order.len();
    if k == 0 || k > 4 {
        return false;
    }
    let mut seen = [false; 4];
    for &o in order {
        let a = o.unsigned_abs() as usize;
        if a == 0 || a > k || seen[a - 1] {
            return false;
        }
        seen[a - 1] = true;
    }
    true
}

fn swap_reject_class(order: &[i8]) -> &'static str {
    let k = order.len();
    if k > 4 {
        "over-long"
    } else if order.iter().any(|o| *o == 0) {
        "zero"
    } else if order.iter().any(|o| o.unsigned_abs() as usize > 4) {
        "index>4"
    } else if order.iter().any(|o| o.unsigned_abs() as usize > k) {
        "index>length"
    } else {
        "duplicate"
    }
}

fn swap_text(order: &[i8]) -> String {
    order.iter().map(|o| o.to_string()).collect::<Vec<_>>().join(",")
}

fn check_swap(c: &SwapCase, rec: &mut Rec) -> CaseResult {
    let def = format!("axisswap{} order={}", if c.inv_flag { " inv" } else { "" }, swap_text(&c.order));
    let input = raw(&c.probes);
    let dir = dir_of(c.fwd);
    let valid = swap_valid(&c.order);
    let (n, out) = match run_def(&def, 0, c.fwd, &input)? {
        Outcome::Rejected(e) => {
            vensure!(!valid, "axisswap-valid-rejected", "'{def}': a signed permutation of 1..{} is rejected: {e}", c.order.len());
            rec.class(swap_reject_class(&c.order));
            rec.nontrivial(&def);
            return Ok(());
        }
        Outcome::Done(n, out) => (n, out),
    };
    vensure!(valid, format!("axisswap-invalid-accepted[{}]", swap_reject_class(&c.order)),
        "'{def}' is accepted although the index list is not a signed permutation of 1..k, k<=4 ({})", swap_reject_class(&c.order));
    vensure!(n == input.len(), "axisswap-count", "'{def}' ({dir:?}) on {} tuples reports {n} successes", input.len());
    // documented: output axis i = sign * input axis |order[i]|; unlisted trailing axes untouched;
    // the inverse undoes it
    let inverse = c.inv_flag != !c.fwd;
    for (p, x) in input.iter().enumerate() {
        let mut want = *x;
        for (i, &o) in c.order.iter().enumerate() {
            let a = o.unsigned_abs() as usize - 1;
            if !inverse {
                want[i] = if o < 0 { -x[a] } else { x[a] };
            } else {
                want[a] = if o < 0 { -x[i] } else { x[i] };
            }
        }
        vensure!(c4_bits_eq(&out[p], &Coor4D(want)), "axisswap-wrong-output",
            "'{def}' ({dir:?}): input {:?} -> library {}, documented {:?} (bit-identical)", x, fmt_c4(&out[p]), want);
    }
    rec.class(if inverse { "valid-inverse" } else { "valid-forward" });
    if c.order.iter().enumerate().any(|(i, o)| *o != i as i8 + 1) {
        rec.nontrivial(&(def, c.fwd));
    }
    Ok(())
}

/// i-th index list over -5..5 with length 1..=5 (shortest first)
fn swap_list(mut i: usize) -> Vec<i8> {
    let mut len = 1;
    let mut block = 11usize;
    while i >= block {
        i -= block;
        block *= 11;
        len += 1;
    }
    let mut v = vec![];
    for _ in 0..len {
        v.push((i % 11) as i8 - 5);
        i /= 11;
    }
    v
}
const N_SWAP_LISTS: usize = 11 + 121 + 1331 + 14641 + 161051;

fn all_valid_swaps() -> Vec<Vec<i8>> {
    let v: Vec<Vec<i8>> = (0..N_SWAP_LISTS).map(swap_list).filter(|l| swap_valid(l)).collect();
    assert_eq!(v.len(), 442);
    v
}

#[derive(Clone, Debug, Serialize, Deserialize)]
struct OddSwapCase {
    args: String,
}

fn check_odd_swap(c: &OddSwapCase, rec: &mut Rec) -> CaseResult {
    let def = format!("axisswap {}", c.args);
    let mut ctx = Minimal::default();
    match try_op(&mut ctx, &def) {
        Err(p) => vfail!(format!("panic-instantiate@{}", p.sig()), "instantiating '{def}' panics: {} at {}:{}", p.msg, p.file, p.line),
        Ok(Ok(_)) => vfail!("axisswap-non-integer-accepted", "'{def}': accepted although the order is not a list of integer axis numbers"),
        Ok(Err(_)) => {}
    }
    rec.class("rejected");
    rec.nontrivial(&def);
    Ok(())
}

// ---------------------------------------------------------------------------------------
// unitconvert and the unit tables
// ---------------------------------------------------------------------------------------

/// The published table (PROJ `units`, which units.rs says it copies; `proj -lu`,
/// https://proj.org/operations/conversions/unitconvert.html): id, published factor text,
/// and the exact value as num/den * pi^pi.
struct PubUnit {
    name: &'static str,
    text: &'static str,
    num: u128,
    den: u128,
    pi: bool,
}

const PUBLISHED: [PubUnit; 24] = [
    PubUnit { name: "km", text: "1000", num: 1000, den: 1, pi: false },
    PubUnit { name: "m", text: "1", num: 1, den: 1, pi: false },
    PubUnit { name: "dm", text: "1/10", num: 1, den: 10, pi: false },
    PubUnit { name: "cm", text: "1/100", num: 1, den: 100, pi: false },
    PubUnit { name: "mm", text: "1/1000", num: 1, den: 1000, pi: false },
    PubUnit { name: "kmi", text: "1852", num: 1852, den: 1, pi: false },
    PubUnit { name: "in", text: "0.0254", num: 254, den: 10000, pi: false },
    PubUnit { name: "ft", text: "0.3048", num: 3048, den: 10000, pi: false },
    PubUnit { name: "yd", text: "0.9144", num: 9144, den: 10000, pi: false },
    PubUnit { name: "mi", text: "1609.344", num: 1609344, den: 1000, pi: false },
    PubUnit { name: "fath", text: "1.8288", num: 18288, den: 10000, pi: false },
    PubUnit { name: "ch", text: "20.1168", num: 201168, den: 10000, pi: false },
    PubUnit { name: "link", text: "0.201168", num: 201168, den: 1000000, pi: false },
    PubUnit { name: "us-in", text: "1/39.37", num: 100, den: 3937, pi: false },
    PubUnit { name: "us-ft", text: "0.304800609601219", num: 1200, den: 3937, pi: false },
    PubUnit { name: "us-yd", text: "0.914401828803658", num: 3600, den: 3937, pi: false },
    PubUnit { name: "us-ch", text: "20.11684023368047", num: 79200, den: 3937, pi: false },
    PubUnit { name: "us-mi", text: "1609.347218694437", num: 6336000, den: 3937, pi: false },
    PubUnit { name: "ind-yd", text: "0.91439523", num: 91439523, den: 100000000, pi: false },
    PubUnit { name: "ind-ft", text: "0.30479841", num: 30479841, den: 100000000, pi: false },
    PubUnit { name: "ind-ch", text: "20.11669506", num: 2011669506, den: 100000000, pi: false },
    PubUnit { name: "rad", text: "1.0", num: 1, den: 1, pi: false },
    PubUnit { name: "deg", text: "0.017453292519943296", num: 1, den: 180, pi: true },
    PubUnit { name: "grad", text: "0.015707963267948967", num: 1, den: 200, pi: true },
];

fn published(name: &str) -> Option<&'static PubUnit> {
    PUBLISHED.iter().find(|u| u.name == name)
}
fn is_angular(u: &PubUnit) -> bool {
    matches!(u.name, "rad" | "deg" | "grad")
}
fn pub_dd(u: &PubUnit) -> DD {
    let r = DD::from_u128(u.num).div(DD::from_u128(u.den));
    if u.pi {
        r.mul(DD::pi())
    } else {
        r
    }
}
/// exact ratio in/out
fn pub_ratio(i: &PubUnit, o: &PubUnit) -> DD {
    let mut r = DD::from_u128(i.num * o.den).div(DD::from_u128(i.den * o.num));
    if i.pi && !o.pi {
        r = r.mul(DD::pi());
    }
    if !i.pi && o.pi {
        r = r.div(DD::pi());
    }
    r
}

/// decimal text -> (digits, 10^decimals, decimals)
fn parse_decimal(t: &str) -> Option<(u128, u128, u32)> {
    let t = t.trim();
    if t.is_empty() || !t.chars().all(|c| c.is_ascii_digit() || c == '.') || t.matches('.').count() > 1 {
        return None;
    }
    let (ip, fp) = match t.split_once('.') {
        Some((a, b)) => (a, b),
        None => (t, ""),
    };
    let digits: u128 = format!("{ip}{fp}").parse().ok()?;
    Some((digits, 10u128.pow(fp.len() as u32), fp.len() as u32))
}

/// published factor text ("1000", "1/39.37", "0.3048") -> (value, half unit of the last printed
/// decimal if the text is a plain decimal with >= 15 significant digits, i.e. a rounded expansion)
fn parse_factor_text(t: &str) -> Option<(DD, f64)> {
    if let Some((a, b)) = t.split_once('/') {
        let (an, ad, _) = parse_decimal(a)?;
        let (bn, bd, _) = parse_decimal(b)?;
        // (an/ad) / (bn/bd)
        return Some((DD::from_u128(an * bd).div(DD::from_u128(ad * bn)), 0.0));
    }
    let (n, d, k) = parse_decimal(t)?;
    let sig = n.to_string().len();
    let slack = if sig >= 15 { 0.5 * 10f64.powi(-(k as i32)) } else { 0.0 };
    Some((DD::from_u128(n).div(DD::from_u128(d)), slack))
}

#[derive(Clone, Debug, Serialize, Deserialize)]
struct TableCase {
    /// position in linear ++ angular (the order unitconvert searches); the entry itself is read
    /// from the tree under test (hook), so that a replay judges the current table
    index: usize,
    probe: F,
}

fn live_unit_table() -> Vec<(String, String, f64)> {
    let (lin, ang) = geodesy::verif_hooks::unit_tables();
    lin.iter().chain(ang.iter()).map(|u| (u.0.to_string(), u.1.to_string(), u.2)).collect()
}

const ROLES: [&str; 4] = ["xy_in", "xy_out", "z_in", "z_out"];

/// `unitconvert <role>=<name>` forward on (x, x, x, x): the factor the name resolves to in that role
fn resolved_factor(role: usize, name: &str, x: f64) -> Result<Result<f64, String>, Failure> {
    let def = format!("unitconvert {}={}", ROLES[role], name);
    match run_def(&def, 0, true, &[[x, x, x, x]])? {
        Outcome::Rejected(e) => Ok(Err(e)),
        Outcome::Done(_, out) => {
            let v = if role < 2 { out[0][0] } else { out[0][2] };
            Ok(Ok(v))
        }
    }
}

fn check_table(c: &TableCase, rec: &mut Rec) -> CaseResult {
    let table = live_unit_table();
    if c.index >= table.len() {
        return Ok(());
    }
    let (name, text, mult) = (&table[c.index].0, &table[c.index].1, table[c.index].2);
    let whose = |m: f64| -> String {
        PUBLISHED
            .iter()
            .filter(|u| ulp_err(m, pub_dd(u)) <= 1.0)
            .map(|u| format!("'{}'", u.name))
            .collect::<Vec<_>>()
            .join(", ")
    };
    // names unique
    let first = table.iter().position(|t| &t.0 == name).unwrap_or(c.index);
    vensure!(first == c.index, format!("unit-table-duplicate-name:{name}"),
        "unit table entry #{} ('{name}', published factor text '{}', multiplier {mult:?}) repeats the name of entry #{first}: it can never be selected; its factor is the published factor of {}",
        c.index, text, whose(mult));
    // the entry is self-consistent: multiplier == published factor text
    let Some((tv, slack)) = parse_factor_text(text) else {
        vfail!(format!("unit-table-factor-text-unreadable:{name}"), "unit '{name}': factor text '{}' is neither a decimal nor a quotient of decimals", text)
    };
    let d = ((mult - tv.hi) - tv.lo).abs();
    vensure!(d <= slack.max(ulp_of(tv.hi)), format!("unit-table-text-vs-multiplier:{name}"),
        "unit '{name}': multiplier {mult:?} differs from its own published factor text '{}' by {d:e} (allowed {:e})", text, slack.max(ulp_of(tv.hi)));
    // the entry carries the factor published for that name
    let factor = match published(name) {
        Some(u) => {
            let e = ulp_err(mult, pub_dd(u));
            rec.metric("table_factor_ulp", e);
            vensure!(e <= 1.0, format!("unit-table-factor-mismatch:{name}"),
                "unit '{name}': multiplier {mult:?} is not the published factor {} = {:?} (off by {e:.3e} ulp); it is the factor of {}", u.text, pub_dd(u).hi, whose(mult));
            rec.class("published");
            pub_dd(u)
        }
        None => {
            rec.class("not-in-published-table");
            DD::f(mult)
        }
    };
    // the name resolves to its own factor in all four roles
    let x = c.probe.0;
    for role in 0..4 {
        let got = match resolved_factor(role, name, x)? {
            Err(e) => vfail!(format!("unit-unknown:{name}"), "'unitconvert {}={name}': unit listed in the table is not accepted: {e}", ROLES[role]),
            Ok(v) => v,
        };
        let want = if role % 2 == 0 { factor.mul(DD::f(x)) } else { DD::f(x).div(factor) };
        let e = ulp_err(got, want);
        rec.metric("worst_ulp", e);
        vensure!(e <= TOL_UC_ULP, format!("unit-resolves-to-other-factor:{name}"),
            "'unitconvert {}={name}' maps {x:?} to {got:?}; with the unit's own factor {:?} the result is {:?} (off by {e:.3e} ulp, tolerance {TOL_UC_ULP})", ROLES[role], factor.hi, want.hi);
    }
    rec.nontrivial(&(name.clone(), c.index));
    Ok(())
}

#[derive(Clone, Debug, Serialize, Deserialize)]
struct NameCase {
    name: String,
    role: u8,
    probe: F,
}

fn check_published_name(c: &NameCase, rec: &mut Rec) -> CaseResult {
    let u = published(&c.name).expect("published name");
    let x = c.probe.0;
    let role = c.role as usize;
    let got = match resolved_factor(role, &c.name, x)? {
        Err(e) => vfail!(format!("unit-unknown:{}", c.name),
            "'unitconvert {}={}' is rejected ({e}) although '{}' = {} m is in the published unit table", ROLES[role], c.name, c.name, u.text),
        Ok(v) => v,
    };
    let f = pub_dd(u);
    let want = if role % 2 == 0 { f.mul(DD::f(x)) } else { DD::f(x).div(f) };
    let e = ulp_err(got, want);
    rec.metric("worst_ulp", e);
    vensure!(e <= TOL_UC_ULP, format!("unit-resolves-to-other-factor:{}", c.name),
        "'unitconvert {}={}' maps {x:?} to {got:?}; the published factor {} gives {:?} (off by {e:.3e} ulp, tolerance {TOL_UC_ULP})", ROLES[role], c.name, u.text, want.hi);
    rec.class(if is_angular(u) { "angular" } else { "linear" });
    rec.nontrivial(&(c.name.clone(), c.role));
    Ok(())
}

#[derive(Clone, Debug, Serialize, Deserialize)]
struct ConvCase {
    xy_in: String,
    xy_out: String,
    z_in: String,
    z_out: String,
    /// leave out parameters that name the default unit (m)
    omit_defaults: bool,
    inv_flag: bool,
    fwd: bool,
    probes: Vec<P4>,
}

fn check_conv(c: &ConvCase, rec: &mut Rec) -> CaseResult {
    let names = [&c.xy_in, &c.xy_out, &c.z_in, &c.z_out];
    let mut def = String::from("unitconvert");
    if c.inv_flag {
        def.push_str(" inv");
    }
    for (r, n) in names.iter().enumerate() {
        if !(c.omit_defaults && n.as_str() == "m") {
            def.push_str(&format!(" {}={}", ROLES[r], n));
        }
    }
    let u: Vec<&PubUnit> = names.iter().map(|n| published(n).expect("published name")).collect();
    let input = raw(&c.probes);
    let dir = dir_of(c.fwd);
    let same_kind = is_angular(u[0]) == is_angular(u[1]) && !is_angular(u[2]) && !is_angular(u[3]);
    let (n, out) = match run_def(&def, 0, c.fwd, &input)? {
        Outcome::Rejected(e) => {
            // a published name that does not resolve on its own is the (separately reported) class
            // unit-unknown:<name>; excluded here, dynamically, so that it is covered once it resolves
            for (r, nm) in names.iter().enumerate() {
                if resolved_factor(r, nm, 1.0)?.is_err() {
                    rec.count("excluded_known", 1);
                    rec.class("excluded-unresolved-name");
                    return Ok(());
                }
            }
            vensure!(!same_kind, "unitconvert-valid-rejected", "'{def}': all four units are published and of matching kind, but the definition is rejected: {e}");
            // mixing linear and angular units has no documented meaning: rejection is fine
            rec.class("mixed-kind-rejected");
            return Ok(());
        }
        Outcome::Done(n, out) => (n, out),
    };
    vensure!(n == input.len(), "unitconvert-count", "'{def}' ({dir:?}) on {} tuples reports {n} successes", input.len());
    let inverse = c.inv_flag != !c.fwd;
    let (rxy, rz) = if inverse { (pub_ratio(u[1], u[0]), pub_ratio(u[3], u[2])) } else { (pub_ratio(u[0], u[1]), pub_ratio(u[2], u[3])) };
    let mut st = Stats::default();
    for (p, x) in input.iter().enumerate() {
        for i in 0..3 {
            let r = if i < 2 { rxy } else { rz };
            match check_scaled(out[p][i], x[i], r, false, TOL_UC_ULP) {
                Ok((e, cl)) => st.add(e, cl),
                Err((t, cl)) => vfail!(format!("unitconvert-wrong-factor{}", cl.key_suffix()),
                    "'{def}' ({dir:?}): input {:?} -> library {}; element {i} must be input x ({} / {}){}: {t}",
                    x, fmt_c4(&out[p]),
                    if i < 2 { u[0].text } else { u[2].text }, if i < 2 { u[1].text } else { u[3].text }, if inverse { " inverted" } else { "" }),
            }
        }
        vensure!(bits_eq(out[p][3], x[3]), "unitconvert-touches-time",
            "'{def}' ({dir:?}): input {:?} -> library {}; the fourth element must stay untouched (time units are documented as unsupported)", x, fmt_c4(&out[p]));
    }
    st.record(rec);
    if st.extreme() {
        rec.class("scaled-element-at-extreme-magnitude");
    }
    rec.class(if !same_kind { "mixed-kind-accepted" } else if is_angular(u[0]) { "angular-xy" } else { "linear-xy" });
    if c.xy_in != c.xy_out || c.z_in != c.z_out {
        rec.nontrivial(&(def, c.fwd));
    }
    Ok(())
}

#[derive(Clone, Debug, Serialize, Deserialize)]
struct BogusUnitCase {
    name: String,
    role: u8,
}

fn check_bogus_unit(c: &BogusUnitCase, rec: &mut Rec) -> CaseResult {
    match resolved_factor(c.role as usize, &c.name, 1.0)? {
        Ok(v) => vfail!("unitconvert-unknown-unit-accepted", "'unitconvert {}={}' is accepted (factor {v:?}) although no such unit is published", ROLES[c.role as usize], c.name),
        Err(_) => {}
    }
    rec.class("rejected");
    rec.nontrivial(&(c.name.clone(), c.role));
    Ok(())
}

// ---------------------------------------------------------------------------------------
// the three operators on every container kind
// ---------------------------------------------------------------------------------------
//
// The declared reordering / sign / scaling is a statement about the 4-D view of a tuple.
// src/coordinate/set.rs documents that view for every container: a Coor2D element reads
// (x, y, 0, NaN), a Coor32 element the same with its f32 values widened, a Coor3D element
// (x, y, z, NaN), a Coor4D element itself; the adapter (set, h, t) reads (x, y, h, t) and
// (set, t) reads (x, y, z, t) of the set's own view; what is written back is kept in the
// dimensions the element type has (Coor32: narrowed to f32), the rest is dropped.
// The reference below is that statement, written down without the library: view -> declared
// mapping (the same `Map` / unit ratios as for Vec<Coor4D>) -> kept dimensions.

/// number of tuples of a container case (arrays need a compile-time length)
const CONT_N: usize = 4;
const BASE_NAMES: [&str; 4] = ["Coor4D", "Coor3D", "Coor2D", "Coor32"];
const BASE_DIM: [usize; 4] = [4, 3, 2, 2];
const SHAPES: [&str; 3] = ["Vec", "array", "&mut slice"];
const WRAPS: [&str; 3] = ["", "(set, h, t)", "(set, t)"];
const N_KINDS: usize = 36;
/// fixed height / epoch of the adapters: outside the magnitude bands of the probes
const FIXED_H: f64 = -71234.567890123456;
const FIXED_T: f64 = 912345.67890123456;

#[derive(Clone, Debug, Serialize, Deserialize)]
struct Cont {
    /// base element (Coor4D, Coor3D, Coor2D, Coor32) + 4 x shape (Vec, array, &mut slice) + 12 x adapter (none, (set,h,t), (set,t))
    kind: u8,
    h: F,
    t: F,
}

fn kind_parts(kind: u8) -> (usize, usize, usize) {
    let k = kind as usize % N_KINDS;
    (k % 4, (k / 4) % 3, k / 12)
}
fn kind_label(kind: u8) -> String {
    let (b, s, w) = kind_parts(kind);
    if w == 0 {
        format!("{} of {}", SHAPES[s], BASE_NAMES[b])
    } else {
        format!("{} of {} in {}", SHAPES[s], BASE_NAMES[b], WRAPS[w])
    }
}
/// the i-th container of a section: all 36 kinds, adapter constants rotating with a hash
/// (mostly a non-zero height and a finite epoch; also epoch NaN and height 0)
fn cont_of(kind: usize, salt: u64) -> Cont {
    let (h, t) = [(FIXED_H, FIXED_T), (FIXED_H, FIXED_T), (FIXED_H, f64::NAN), (0.0, FIXED_T)][(splitmix(salt ^ 0xC0F7) % 4) as usize];
    Cont { kind: kind as u8, h: F(h), t: F(t) }
}

/// REFERENCE: what the container documents for get_coord of an element made from `p`
fn view(c: &Cont, p: &[f64; 4]) -> [f64; 4] {
    let (base, _, wrap) = kind_parts(c.kind);
    let b = match base {
        0 => *p,
        1 => [p[0], p[1], p[2], f64::NAN],
        2 => [p[0], p[1], 0.0, f64::NAN],
        _ => [p[0] as f32 as f64, p[1] as f32 as f64, 0.0, f64::NAN],
    };
    match wrap {
        1 => [b[0], b[1], c.h.0, c.t.0],
        2 => [b[0], b[1], b[2], c.t.0],
        _ => b,
    }
}
/// REFERENCE: what element `i` of the container holds after a value was written to it
fn narrow(c: &Cont, v: f64) -> f64 {
    if kind_parts(c.kind).0 == 3 {
        v as f32 as f64
    } else {
        v
    }
}
fn kept_dims(c: &Cont) -> usize {
    BASE_DIM[kind_parts(c.kind).0]
}
/// a dimension the element type stores but the adapter overrides in the view ((set, h, t)
/// around Coor3D/Coor4D, (set, t) around Coor4D). A non-trivial operator writes the mapped
/// view into it; an operator whose declared mapping is the identity may just as well leave the
/// set untouched (adapt documents that shortcut: `noop`), so there both states are accepted.
fn shadowed(c: &Cont, i: usize) -> bool {
    let wrap = kind_parts(c.kind).2;
    i < kept_dims(c) && ((wrap == 1 && i >= 2) || (wrap == 2 && i == 3))
}
fn is_identity(m: &Map) -> bool {
    (0..4).all(|i| m[i].src == i && !m[i].neg && m[i].num == m[i].den)
}

/// library-facing part: building elements and reading what they hold
trait Store: Copy {
    fn from4(p: &[f64; 4]) -> Self;
    fn held(&self) -> Vec<f64>;
}
impl Store for Coor4D {
    fn from4(p: &[f64; 4]) -> Self {
        Coor4D(*p)
    }
    fn held(&self) -> Vec<f64> {
        self.0.to_vec()
    }
}
impl Store for Coor3D {
    fn from4(p: &[f64; 4]) -> Self {
        Coor3D([p[0], p[1], p[2]])
    }
    fn held(&self) -> Vec<f64> {
        self.0.to_vec()
    }
}
impl Store for Coor2D {
    fn from4(p: &[f64; 4]) -> Self {
        Coor2D([p[0], p[1]])
    }
    fn held(&self) -> Vec<f64> {
        self.0.to_vec()
    }
}
impl Store for Coor32 {
    fn from4(p: &[f64; 4]) -> Self {
        Coor32([p[0] as f32, p[1] as f32])
    }
    fn held(&self) -> Vec<f64> {
        vec![self.0[0] as f64, self.0[1] as f64]
    }
}

enum ContOutcome {
    Rejected(String),
    /// (reported successes, what every element holds afterwards)
    Done(usize, Vec<Vec<f64>>),
}

fn cont_apply<C: Context>(ctx: &C, op: OpHandle, fwd: bool, what: &str, set: &mut dyn CoordinateSet) -> Result<usize, Failure> {
    let dir = dir_of(fwd);
    match try_apply(ctx, op, dir_of(fwd), set) {
        Err(p) => vfail!(format!("panic-apply@{}", p.sig()), "applying {what} ({dir:?}) panics: {} at {}:{}", p.msg, p.file, p.line),
        Ok(Err(e)) => vfail!("apply-error", "apply of {what} ({dir:?}) returned an error: {e:?}"),
        Ok(Ok(n)) => Ok(n),
    }
}

fn cont_store<C: Context, T: Store>(ctx: &C, op: OpHandle, fwd: bool, what: &str, c: &Cont, pts: &[[f64; 4]]) -> Result<(usize, Vec<Vec<f64>>), Failure>
where
    Vec<T>: CoordinateSet,
    [T; CONT_N]: CoordinateSet,
    for<'a> &'a mut [T]: CoordinateSet,
{
    let (_, shape, wrap) = kind_parts(c.kind);
    let (h, t) = (c.h.0, c.t.0);
    let mut elems: Vec<T> = pts.iter().map(T::from4).collect();
    let count;
    match shape {
        0 => match wrap {
            1 => {
                let mut w = (elems, h, t);
                count = cont_apply(ctx, op, fwd, what, &mut w)?;
                elems = w.0;
            }
            2 => {
                let mut w = (elems, t);
                count = cont_apply(ctx, op, fwd, what, &mut w)?;
                elems = w.0;
            }
            _ => count = cont_apply(ctx, op, fwd, what, &mut elems)?,
        },
        1 => {
            let mut a: [T; CONT_N] = match elems[..].try_into() {
                Ok(a) => a,
                Err(_) => vfail!("harness-bad-case", "a container case needs exactly {CONT_N} tuples"),
            };
            match wrap {
                1 => {
                    let mut w = (a, h, t);
                    count = cont_apply(ctx, op, fwd, what, &mut w)?;
                    a = w.0;
                }
                2 => {
                    let mut w = (a, t);
                    count = cont_apply(ctx, op, fwd, what, &mut w)?;
                    a = w.0;
                }
                _ => count = cont_apply(ctx, op, fwd, what, &mut a)?,
            }
            elems = a.to_vec();
        }
        _ => {
            let mut sl: &mut [T] = &mut elems[..];
            match wrap {
                1 => {
                    let mut w = (sl, h, t);
                    count = cont_apply(ctx, op, fwd, what, &mut w)?;
                }
                2 => {
                    let mut w = (sl, t);
                    count = cont_apply(ctx, op, fwd, what, &mut w)?;
                }
                _ => count = cont_apply(ctx, op, fwd, what, &mut sl)?,
            }
        }
    }
    Ok((count, elems.iter().map(|e| e.held()).collect()))
}

fn run_cont_in<C: Context>(mut ctx: C, def: &str, fwd: bool, c: &Cont, pts: &[[f64; 4]]) -> Result<ContOutcome, Failure> {
    let op = match try_op(&mut ctx, def) {
        Err(p) => vfail!(format!("panic-instantiate@{}", p.sig()), "instantiating '{def}' panics: {} at {}:{}", p.msg, p.file, p.line),
        Ok(Err(e)) => return Ok(ContOutcome::Rejected(format!("{e:?}"))),
        Ok(Ok(op)) => op,
    };
    let what = format!("'{def}' on a {}", kind_label(c.kind));
    let (n, held) = match kind_parts(c.kind).0 {
        0 => cont_store::<C, Coor4D>(&ctx, op, fwd, &what, c, pts)?,
        1 => cont_store::<C, Coor3D>(&ctx, op, fwd, &what, c, pts)?,
        2 => cont_store::<C, Coor2D>(&ctx, op, fwd, &what, c, pts)?,
        _ => cont_store::<C, Coor32>(&ctx, op, fwd, &what, c, pts)?,
    };
    Ok(ContOutcome::Done(n, held))
}

/// ctx: 0/1 = Minimal::default, 2/3 = Plain::default (no macros needed here)
fn run_cont(def: &str, ctx: u8, fwd: bool, c: &Cont, pts: &[[f64; 4]]) -> Result<ContOutcome, Failure> {
    if ctx < 2 {
        run_cont_in(Minimal::default(), def, fwd, c, pts)
    } else {
        run_cont_in(Plain::default(), def, fwd, c, pts)
    }
}

/// One scaled element as held by the container. `v` = viewed source value, `want` = the exact
/// product. f64 elements: within `tol` ulp of the exact value, as for Vec<Coor4D>. f32 elements
/// (Coor32): the library rounds its f64 result to f32; any f64 within `tol` ulp of the exact
/// value is acceptable before that rounding, and rounding is monotonic, so the held value must
/// lie between the f32 roundings of (exact -/+ (tol + 1) ulp) (+1 for evaluating the bounds).
fn check_scaled_held(got: f64, v: f64, want: DD, f32_elem: bool, tol: f64) -> Result<f64, String> {
    if v.is_nan() {
        return if got.is_nan() { Ok(0.0) } else { Err(format!("library {got:?}, expected NaN (the source element reads NaN)")) };
    }
    if v.is_infinite() {
        return if got == want.hi { Ok(0.0) } else { Err(format!("library {got:?}, expected {:?}", want.hi)) };
    }
    if !f32_elem {
        let e = ulp_err(got, want);
        return if e <= tol { Ok(e) } else { Err(format!("library {got:?}, expected {:?} (exact ratio evaluated in double-double), off by {e:.3e} ulp, tolerance {tol} ulp", want.hi)) };
    }
    let d = (tol + 1.0) * ulp_of(want.hi);
    let (a, b) = ((want.hi - d) as f32 as f64, (want.hi + d) as f32 as f64);
    if a <= got && got <= b {
        Ok(0.0)
    } else {
        Err(format!("library holds {got:?} (f32), expected the f32 rounding of {:?} +/- {tol} ulp, i.e. a value in [{a:?}, {b:?}]", want.hi))
    }
}

/// what a container must hold after the mapping `m` was applied to the viewed tuple `seen`
/// (scaled elements: the centre of the accepted interval)
fn expected_held(m: &Map, c: &Cont, seen: &[f64; 4]) -> Vec<f64> {
    let w = expected_tuple(m, seen);
    (0..kept_dims(c)).map(|i| if seen[m[i].src].is_nan() { f64::NAN } else { narrow(c, w[i]) }).collect()
}

/// Strict comparison of what the container holds against a map applied to the documented view.
fn compare_held(m: &Map, c: &Cont, input: &[[f64; 4]], held: &[Vec<f64>], tol: f64, worst: &mut f64) -> Option<String> {
    let dims = kept_dims(c);
    let f32_elem = kind_parts(c.kind).0 == 3;
    let identity = is_identity(m);
    for (p, x) in input.iter().enumerate() {
        let seen = view(c, x);
        if held[p].len() != dims {
            return Some(format!("tuple {p}: harness: element holds {} values, {dims} expected", held[p].len()));
        }
        for i in 0..dims {
            let e = &m[i];
            let v = seen[e.src];
            let got = held[p][i];
            if identity && shadowed(c, i) && bits_eq(got, x[i]) {
                continue;
            }
            let r = if e.num == U::One && e.den == U::One {
                let want = narrow(c, if e.neg { -v } else { v });
                if bits_eq(got, want) {
                    Ok(0.0)
                } else {
                    Err(format!("library {got:?}, expected exactly {want:?} (bit-identical: pure reordering / sign)"))
                }
            } else {
                let mut want = ratio_dd(e.num, e.den).mul(DD::f(v));
                if e.neg {
                    want = want.neg();
                }
                check_scaled_held(got, v, want, f32_elem, tol)
            };
            match r {
                Ok(u) => {
                    if u > *worst {
                        *worst = u;
                    }
                }
                Err(t) => {
                    return Some(format!(
                        "tuple {p} element {i} ({}): {t}\n  element built from {:?}\n  documented 4-D view  {:?}\n  container holds      {:?}\n  must hold            {:?}{}",
                        elem_text(i, e),
                        &x[..dims],
                        seen,
                        held[p],
                        expected_held(m, c, &seen),
                        if e.src >= dims { format!("\n  (element {} of the view is not stored by the element type: it reads as the documented constant {:?})", e.src, v) } else { String::new() }
                    ))
                }
            }
        }
    }
    None
}

/// classes of a container case: the kind, and whether a kept dimension receives a dimension
/// the element type does not store (documented constant / adapter value) — the non-trivial rule
fn cont_classes(m: &Map, c: &Cont, inverse: bool, rec: &mut Rec) -> bool {
    let dims = kept_dims(c);
    let virtual_in = (0..dims).any(|i| m[i].src >= dims);
    let (b, _, w) = kind_parts(c.kind);
    rec.class(&format!("container:{}", kind_label(c.kind)));
    rec.class(&format!("{}:{}{}", if inverse { "inverse" } else { "forward" }, BASE_NAMES[b], if w == 0 { "" } else { "+adapter" }));
    if dims < 4 {
        rec.class(if virtual_in { "unstored-dimension-moves-into-kept" } else { "kept-dimensions-among-themselves" });
        if virtual_in {
            rec.class(&format!("unstored-into-kept:{}:{}", if inverse { "inverse" } else { "forward" }, BASE_NAMES[b]));
        }
    }
    virtual_in
}

// ---- axisswap ---------------------------------------------------------------------------

#[derive(Clone, Debug, Serialize, Deserialize)]
struct SwapContCase {
    order: Vec<i8>,
    inv_flag: bool,
    fwd: bool,
    cont: Cont,
    probes: Vec<P4>,
}

/// the documented action of a valid order as a map: forward out[i] = sign x in[|order[i]|],
/// unlisted trailing axes untouched; the inverse undoes it
fn swap_map(order: &[i8], inverse: bool) -> Map {
    let mut m = [0, 1, 2, 3].map(|i| Elem { src: i, neg: false, num: U::One, den: U::One });
    for (i, &o) in order.iter().enumerate() {
        let a = o.unsigned_abs() as usize - 1;
        if !inverse {
            m[i] = Elem { src: a, neg: o < 0, num: U::One, den: U::One };
        } else {
            m[a] = Elem { src: i, neg: o < 0, num: U::One, den: U::One };
        }
    }
    m
}

fn check_swap_cont(c: &SwapContCase, rec: &mut Rec) -> CaseResult {
    vensure!(swap_valid(&c.order), "harness-bad-case", "container case with the invalid order {:?}", c.order);
    let def = format!("axisswap{} order={}", if c.inv_flag { " inv" } else { "" }, swap_text(&c.order));
    let input = raw(&c.probes);
    let dir = dir_of(c.fwd);
    let label = kind_label(c.cont.kind);
    let (n, held) = match run_cont(&def, 0, c.fwd, &c.cont, &input)? {
        ContOutcome::Rejected(e) => vfail!("axisswap-valid-rejected", "'{def}': a signed permutation of 1..{} is rejected: {e}", c.order.len()),
        ContOutcome::Done(n, held) => (n, held),
    };
    vensure!(n == input.len(), "axisswap-count", "'{def}' ({dir:?}) on a {label} of {} tuples reports {n} successes", input.len());
    let inverse = c.inv_flag != !c.fwd;
    let m = swap_map(&c.order, inverse);
    let mut worst = 0.0;
    if let Some(mis) = compare_held(&m, &c.cont, &input, &held, 0.0, &mut worst) {
        vfail!(format!("axisswap-wrong-output[container:{}]", BASE_NAMES[kind_parts(c.cont.kind).0]),
            "'{def}' applied {dir:?} ({}) on a {label} (h = {:?}, t = {:?}): {mis}\n  documented mapping on the 4-D view {{{}}}",
            if inverse { "the reverse mapping" } else { "the declared mapping" }, c.cont.h.0, c.cont.t.0, map_text(&m));
    }
    if cont_classes(&m, &c.cont, inverse, rec) {
        rec.nontrivial(&(def, c.fwd, c.cont.kind));
    }
    Ok(())
}

// ---- adapt ------------------------------------------------------------------------------

#[derive(Clone, Debug, Serialize, Deserialize)]
struct PairContCase {
    pair: PairCase,
    cont: Cont,
}

fn check_pair_cont(c: &PairContCase, rec: &mut Rec) -> CaseResult {
    let (def, dfrom, dto, inv_flag, ctx) = pair_def(&c.pair);
    let (Some(f), Some(t)) = (parse_desc(&dfrom), parse_desc(&dto)) else {
        vfail!("harness-bad-case", "case descriptors '{dfrom}' / '{dto}' are not valid spellings")
    };
    let fwd = c.pair.fwd;
    let dir = dir_of(fwd);
    let input = raw(&c.pair.probes);
    let label = kind_label(c.cont.kind);
    let (n, held) = match run_cont(&def, ctx, fwd, &c.cont, &input)? {
        ContOutcome::Rejected(e) => vfail!("adapt-valid-rejected", "'{def}': valid descriptors rejected: {e}"),
        ContOutcome::Done(n, held) => (n, held),
    };
    vensure!(n == input.len(), "adapt-count", "'{def}' ({dir:?}) on a {label} of {} tuples reports {n} successes", input.len());
    let inverse_path = inv_flag != !fwd;
    let want = if inverse_path { reference(&t, &f) } else { reference(&f, &t) };
    let mut worst = 0.0;
    if let Some(mis) = compare_held(&want, &c.cont, &input, &held, TOL_ULP, &mut worst) {
        vfail!(format!("adapt-wrong-output[container:{}]", BASE_NAMES[kind_parts(c.cont.kind).0]),
            "'{def}' applied {dir:?} ({}) on a {label} (h = {:?}, t = {:?}): {mis}\n  documented mapping on the 4-D view {{{}}}",
            if inverse_path { format!("must deliver '{dfrom}' from '{dto}'") } else { format!("must deliver '{dto}' from '{dfrom}'") },
            c.cont.h.0, c.cont.t.0, map_text(&want));
    }
    rec.metric("worst_ulp", worst);
    let virtual_in = cont_classes(&want, &c.cont, inverse_path, rec);
    let dims = kept_dims(&c.cont);
    if (0..dims).any(|i| want[i].num != want[i].den) {
        rec.class(&format!("scaled-kept-element:{}", BASE_NAMES[kind_parts(c.cont.kind).0]));
    }
    if virtual_in {
        rec.nontrivial(&(def, fwd, c.cont.kind));
    }
    Ok(())
}

// ---- unitconvert ------------------------------------------------------------------------

#[derive(Clone, Debug, Serialize, Deserialize)]
struct ConvContCase {
    conv: ConvCase,
    cont: Cont,
}

fn conv_def(c: &ConvCase) -> String {
    let names = [&c.xy_in, &c.xy_out, &c.z_in, &c.z_out];
    let mut def = String::from("unitconvert");
    if c.inv_flag {
        def.push_str(" inv");
    }
    for (r, n) in names.iter().enumerate() {
        if !(c.omit_defaults && n.as_str() == "m") {
            def.push_str(&format!(" {}={}", ROLES[r], n));
        }
    }
    def
}

fn check_conv_cont(cc: &ConvContCase, rec: &mut Rec) -> CaseResult {
    let c = &cc.conv;
    let names = [&c.xy_in, &c.xy_out, &c.z_in, &c.z_out];
    let def = conv_def(c);
    let u: Vec<&PubUnit> = names.iter().map(|n| published(n).expect("published name")).collect();
    let input = raw(&c.probes);
    let dir = dir_of(c.fwd);
    let label = kind_label(cc.cont.kind);
    let same_kind = is_angular(u[0]) == is_angular(u[1]) && !is_angular(u[2]) && !is_angular(u[3]);
    let (n, held) = match run_cont(&def, 0, c.fwd, &cc.cont, &input)? {
        ContOutcome::Rejected(e) => {
            for (r, nm) in names.iter().enumerate() {
                if resolved_factor(r, nm, 1.0)?.is_err() {
                    rec.count("excluded_known", 1);
                    rec.class("excluded-unresolved-name");
                    return Ok(());
                }
            }
            vensure!(!same_kind, "unitconvert-valid-rejected", "'{def}': all four units are published and of matching kind, but the definition is rejected: {e}");
            rec.class("mixed-kind-rejected");
            return Ok(());
        }
        ContOutcome::Done(n, held) => (n, held),
    };
    vensure!(n == input.len(), "unitconvert-count", "'{def}' ({dir:?}) on a {label} of {} tuples reports {n} successes", input.len());
    let inverse = c.inv_flag != !c.fwd;
    let (rxy, rz) = if inverse { (pub_ratio(u[1], u[0]), pub_ratio(u[3], u[2])) } else { (pub_ratio(u[0], u[1]), pub_ratio(u[2], u[3])) };
    let dims = kept_dims(&cc.cont);
    let base = kind_parts(cc.cont.kind).0;
    let identity = c.xy_in == c.xy_out && c.z_in == c.z_out;
    for (p, x) in input.iter().enumerate() {
        let seen = view(&cc.cont, x);
        vensure!(held[p].len() == dims, "harness-bad-case", "element holds {} values, {dims} expected", held[p].len());
        for i in 0..dims {
            let got = held[p][i];
            if identity && shadowed(&cc.cont, i) && bits_eq(got, x[i]) {
                continue;
            }
            if i == 3 {
                // also the adapter's fixed epoch, which a 4-D element receives on write-back
                vensure!(bits_eq(got, seen[3]), format!("unitconvert-touches-time[container:{}]", BASE_NAMES[base]),
                    "'{def}' ({dir:?}) on a {label}: tuple {p} built from {:?}, documented 4-D view {:?} -> container holds {:?}; the fourth element must be the viewed one, untouched", x, seen, held[p]);
                continue;
            }
            let r = if i < 2 { rxy } else { rz };
            match check_scaled_held(got, seen[i], r.mul(DD::f(seen[i])), base == 3, TOL_UC_ULP) {
                Ok(e) => rec.metric("worst_ulp", e),
                Err(t) => vfail!(format!("unitconvert-wrong-factor[container:{}]", BASE_NAMES[base]),
                    "'{def}' ({dir:?}) on a {label} (h = {:?}, t = {:?}): tuple {p} element {i}: {t}\n  element built from {:?}\n  documented 4-D view  {:?}\n  container holds      {:?}\n  element {i} must be the viewed value x ({} / {}){}",
                    cc.cont.h.0, cc.cont.t.0, &x[..dims], seen, held[p],
                    if i < 2 { u[0].text } else { u[2].text }, if i < 2 { u[1].text } else { u[3].text }, if inverse { " inverted" } else { "" }),
            }
        }
    }
    rec.class(&format!("container:{label}"));
    rec.class(&format!("{}:{}", if inverse { "inverse" } else { "forward" }, BASE_NAMES[base]));
    rec.class(if !same_kind { "mixed-kind-accepted" } else if is_angular(u[0]) { "angular-xy" } else { "linear-xy" });
    if c.xy_in != c.xy_out || (dims > 2 && c.z_in != c.z_out) {
        rec.nontrivial(&(def, c.fwd, cc.cont.kind));
    }
    Ok(())
}

// ---------------------------------------------------------------------------------------

// ---------------------------------------------------------------------------------------
// large operand sets: "for every tuple" includes the LENGTH of the set
// ---------------------------------------------------------------------------------------

/// Lengths around every power-of-two block boundary an implementation might use, plus one long set.
const LARGE_LENS: [usize; 15] = [0, 1, 2, 255, 256, 257, 511, 512, 513, 1023, 1024, 1025, 4095, 4097, 20_011];

/// One operator configuration (probe list empty) applied to a set of `len` tuples whose values
/// are a function of (salt, tuple index): all distinct, so a tuple computed from another index,
/// computed twice, or left untouched cannot look right.
#[derive(Clone, Debug, Serialize, Deserialize)]
struct LargeCase {
    len: usize,
    salt: u64,
    pair: Option<PairCase>,
    swap: Option<SwapCase>,
    conv: Option<ConvCase>,
}

/// Tuple #i of the long set: same magnitude bands as `probes` (no quotient of two elements near a
/// factor the operators apply), 52 hashed mantissa bits and a hashed sign per element.
fn indexed_tuples(salt: u64, len: usize) -> Vec<P4> {
    (0..len as u64)
        .map(|i| {
            let s = |j: u64| if frac(salt, 8 * i + 4 + j) < 0.5 { -1.0 } else { 1.0 };
            p4(
                s(0) * (1.0 + frac(salt, 8 * i)),
                s(1) * (20.0 + 10.0 * frac(salt, 8 * i + 1)),
                s(2) * (300.0 + 100.0 * frac(salt, 8 * i + 2)),
                s(3) * (5000.0 + 1000.0 * frac(salt, 8 * i + 3)),
            )
        })
        .collect()
}

fn check_large(c: &LargeCase, rec: &mut Rec) -> CaseResult {
    let pts = indexed_tuples(c.salt, c.len);
    // the per-tuple oracles of the small sections: every tuple against the reference, count == length
    let (r, op) = if let Some(p) = &c.pair {
        (check_pair(&PairCase { probes: pts, ..p.clone() }, rec), "adapt")
    } else if let Some(s) = &c.swap {
        (check_swap(&SwapCase { probes: pts, ..s.clone() }, rec), "axisswap")
    } else if let Some(u) = &c.conv {
        (check_conv(&ConvCase { probes: pts, ..u.clone() }, rec), "unitconvert")
    } else {
        vfail!("harness-bad-case", "empty large-set case")
    };
    if let Err(mut f) = r {
        f.msg = format!("[operand set of {} tuples, values = f(salt {:#x}, index)] {}", c.len, c.salt, f.msg);
        return Err(f);
    }
    rec.class(&format!("{op}-len-{}", c.len));
    rec.class(match c.len {
        0 => "set-empty",
        1..=255 => "set-short",
        256..=1025 => "set-hundreds",
        _ => "set-thousands",
    });
    rec.count("tuples_compared", c.len as u64);
    Ok(())
}

fn selftest() {
    // container reference: the seed of the documentation (set.rs): a Coor2D reads (x, y, 0, NaN)
    {
        let c2 = Cont { kind: 2, h: F(FIXED_H), t: F(FIXED_T) };
        let s = view(&c2, &[11., 12., 13., 14.]);
        assert!(s[0] == 11. && s[1] == 12. && s[2] == 0. && s[3].is_nan() && kept_dims(&c2) == 2);
        // the inverse of order=3,1,2 sends element 0 to 2, 1 to 0, 2 to 1: (11, 12, 0) -> (12, 0, 11)
        let e = expected_held(&swap_map(&[3, 1, 2], true), &c2, &s);
        assert!(e == [12., 0.], "{e:?}");
        let e = expected_held(&swap_map(&[3, 1, 2], false), &c2, &s);
        assert!(e == [0., 11.], "{e:?}");
        // (Vec<Coor3D>, t): kind 1 + 4*0 + 12*2
        let c3t = Cont { kind: 25, h: F(FIXED_H), t: F(FIXED_T) };
        assert_eq!(kind_label(25), "Vec of Coor3D in (set, t)");
        assert_eq!(view(&c3t, &[11., 12., 13., 14.]), [11., 12., 13., FIXED_T]);
        assert_eq!(expected_held(&swap_map(&[4, 1, 2, 3], false), &c3t, &[11., 12., 13., FIXED_T]), [FIXED_T, 11., 12.]);
        // Coor32 keeps f32 roundings
        let c32 = Cont { kind: 3, h: F(FIXED_H), t: F(FIXED_T) };
        assert_eq!(view(&c32, &[0.1, 0.2, 13., 14.])[0], 0.1f32 as f64);
        assert!(check_scaled_held((0.1f32 as f64 * 57.29577951308232) as f32 as f64, 0.1f32 as f64, ratio_dd(U::One, U::Deg).mul(DD::f(0.1f32 as f64)), true, TOL_ULP).is_ok());
        assert!(check_scaled_held(0.1f32 as f64 * 57.29577951308232, 0.1f32 as f64, ratio_dd(U::One, U::Deg).mul(DD::f(0.1f32 as f64)), true, TOL_ULP).is_err());
        let labels: std::collections::BTreeSet<String> = (0..N_KINDS).map(|k| kind_label(k as u8)).collect();
        assert_eq!(labels.len(), N_KINDS);
    }
    // range-aware comparison of scaled elements
    {
        let km_mi = pub_ratio(published("km").unwrap(), published("mi").unwrap());
        let one = DD::f(1.0);
        let deg = ratio_dd(U::One, U::Deg); // 57.29...
        let inf = f64::INFINITY;
        assert_eq!(frexp1(f64::from_bits(1)), (1.0, -1074));
        assert_eq!(frexp1(f64::MAX), (2.0 - f64::EPSILON, 1023));
        assert_eq!(scale2(1.5, -1074), f64::from_bits(2)); // ties to even
        assert_eq!(scale2(scale2(1.25, 1023), -2046), scale2(1.25, -1023));
        // 1e306 km is 6.2137e305 mi: representable, so it must come out finite
        assert!(matches!(check_scaled(1e306 * (1000.0 / 1609.344), 1e306, km_mi, false, TOL_UC_ULP), Ok((_, Rng::NormalFromHuge))));
        assert!(matches!(check_scaled(inf, 1e306, km_mi, false, TOL_UC_ULP), Err((_, Rng::NormalFromHuge))));
        assert!(matches!(check_scaled(f64::MAX / 2.0, f64::MAX / 2.0, one, false, TOL_UC_ULP), Ok((e, Rng::NormalFromHuge)) if e == 0.0));
        assert!(matches!(check_scaled(f64::MAX, f64::MAX, one, false, TOL_UC_ULP), Ok((_, Rng::NearMax))));
        assert!(matches!(check_scaled(inf, f64::MAX, one, false, TOL_UC_ULP), Ok((_, Rng::NearMax))));
        assert!(check_scaled(f64::MAX / 2.0, f64::MAX, one, false, TOL_UC_ULP).is_err());
        // exact overflow: the infinity of the right sign and nothing else
        assert!(matches!(check_scaled(inf, f64::MAX, deg, false, TOL_ULP), Ok((_, Rng::Overflow))));
        assert!(matches!(check_scaled(-inf, f64::MAX, deg, true, TOL_ULP), Ok((_, Rng::Overflow))));
        assert!(check_scaled(-inf, f64::MAX, deg, false, TOL_ULP).is_err());
        assert!(check_scaled(f64::MAX, f64::MAX, deg, false, TOL_ULP).is_err());
        // below the normal range: sign and a few subnormal spacings
        let tiny = f64::from_bits(1);
        assert!(matches!(check_scaled(0.0, tiny, DD::f(0.001), false, TOL_ULP), Ok((_, Rng::Subnormal))));
        assert!(check_scaled(-0.0, tiny, DD::f(0.001), false, TOL_ULP).is_err());
        assert!(matches!(check_scaled(-0.0, -tiny, DD::f(0.001), false, TOL_ULP), Ok((_, Rng::Subnormal))));
        assert!(matches!(check_scaled(f64::MIN_POSITIVE / 2.0, f64::MIN_POSITIVE, DD::f(0.5), false, TOL_ULP), Ok((e, Rng::Subnormal)) if e == 0.0));
        assert!(check_scaled(f64::MIN_POSITIVE / 2.0 + 7.0 * tiny, f64::MIN_POSITIVE, DD::f(0.5), false, TOL_ULP).is_err());
        assert!(check_scaled(f64::MIN_POSITIVE / 2.0 + 6.0 * tiny, f64::MIN_POSITIVE, DD::f(0.5), false, TOL_ULP).is_ok());
        // a subnormal input with a normal result keeps full relative accuracy
        let s = f64::from_bits(0x000f_ffff_ffff_ffff);
        assert!(matches!(check_scaled(s * 57.29577951308232, s, deg, false, TOL_ULP), Ok((_, Rng::NormalFromTiny))));
        assert!(check_scaled(s * 57.29577951308232 * (1.0 + 16.0 * f64::EPSILON), s, deg, false, TOL_ULP).is_err());
        // zeros keep the product sign
        assert!(matches!(check_scaled(-0.0, 0.0, deg, true, TOL_ULP), Ok((_, Rng::Zero))));
        assert!(check_scaled(0.0, 0.0, deg, true, TOL_ULP).is_err());
        // ordinary values: same verdicts as the plain double-double comparison
        let w = deg.mul(DD::f(23.456789012345678));
        assert!(matches!(check_scaled(w.hi, 23.456789012345678, deg, false, TOL_ULP), Ok((e, Rng::Normal)) if (e - ulp_err(w.hi, w)).abs() < 1e-9));
        // every magnitude in every position with either sign
        let (m, pm) = (magnitudes(7), mag_probes(7));
        assert_eq!(pm.len(), 2 * m.len());
        for j in 0..4 {
            for x in m.iter() {
                assert!(pm.iter().any(|p| bits_eq(p[j].0, *x)) && pm.iter().any(|p| bits_eq(p[j].0, -*x)));
            }
        }
        assert!(m.iter().all(|x| x.is_finite() && *x >= 0.0));
    }
    // double-double constants against the correctly rounded doubles
    assert_eq!(ratio_dd(U::Deg, U::One).hi, 0.017453292519943295);
    assert_eq!(ratio_dd(U::One, U::Deg).hi, 57.29577951308232);
    assert_eq!(ratio_dd(U::Gon, U::One).hi, 0.015707963267948967);
    assert_eq!(ratio_dd(U::Deg, U::Gon).hi, 10.0 / 9.0);
    assert_eq!(ratio_dd(U::Deg, U::Deg).hi, 1.0);
    assert_eq!(ratio_dd(U::Deg, U::Deg).lo, 0.0);
    assert!(ulp_err(1.0 / 3.0, DD::f(1.0).div(DD::f(3.0))) <= 0.5);
    assert!(ulp_err(0.1, DD::from_u128(1).div(DD::from_u128(10))) <= 0.5);
    // the documentation's example: neuf_deg -> enuf_rad swaps the first two and converts to radians
    let m = reference(&parse_desc("neuf_deg").unwrap(), &parse_desc("enuf_rad").unwrap());
    assert_eq!(m[0], Elem { src: 1, neg: false, num: U::Deg, den: U::One });
    assert_eq!(m[1], Elem { src: 0, neg: false, num: U::Deg, den: U::One });
    assert_eq!(m[2], Elem { src: 2, neg: false, num: U::One, den: U::One });
    assert_eq!(m[3], Elem { src: 3, neg: false, num: U::One, den: U::One });
    // adapt.rs module test: neuf_deg -> enuf_gon maps (90, 180) to (200, 100)
    let m = reference(&parse_desc("neuf_deg").unwrap(), &parse_desc("enuf_gon").unwrap());
    let o = expected_tuple(&m, &[90.0, 180.0, 0.0, 0.0]);
    assert!((o[0] - 200.0).abs() < 1e-12 && (o[1] - 100.0).abs() < 1e-12);
    // westish / downish: wndf from enuf negates elements 0 and 2
    let m = reference(&parse_desc("enuf").unwrap(), &parse_desc("wndf").unwrap());
    assert!(m[0].neg && !m[1].neg && m[2].neg && !m[3].neg);
    // all spellings distinct and valid, none of the invalid suffixes valid
    let mut all: Vec<String> = (0..N_SPELL).map(spelling).collect();
    assert!(all.iter().all(|s| parse_desc(s).is_some()));
    all.sort();
    all.dedup();
    assert_eq!(all.len(), N_SPELL);
    assert!(INVALID_SUFFIXES.iter().all(|s| parse_desc(&format!("enuf{s}")).is_none()));
    assert!(odd_descriptors().iter().all(|s| parse_desc(s).is_none()));
    // published table: texts agree with the typed rationals
    for u in PUBLISHED.iter() {
        let (v, slack) = parse_factor_text(u.text).unwrap();
        let t = pub_dd(u);
        let d = ((v.hi - t.hi) + (v.lo - t.lo)).abs();
        assert!(d <= slack.max(ulp_of(t.hi)), "published table: {} text {} vs rational {:?}", u.name, u.text, t);
    }
    // axisswap documentation examples
    assert!(swap_valid(&[2, 1, 3, 4]) && swap_valid(&[2, -1]) && !swap_valid(&[2, 3]) && !swap_valid(&[4, -4, 2, -1]) && !swap_valid(&[4, 4, 4, 2, -1]));
}

fn main() {
    let mut run = Run::init("C11");
    selftest();
    run.track_inflight(false);
    run.assume("adapt: the angular suffix applies to the e/n/w/s (horizontal) elements only, wherever they stand; u/d and f/p elements are never scaled (the documentation calls _deg/_gon/_rad 'angular representations' and the internal format enuf_rad)");
    run.assume("adapt: elements whose declared factor is 1 (no angular unit on either side, or a non-horizontal axis) are compared bit for bit; scaled elements (also deg->deg, gon->gon) within 6 ulp (adapt) / 8 ulp (unitconvert) of the exact ratio evaluated in double-double");
    run.assume("magnitudes: the scaling statements are taken over all finite f64 values: a scaled element whose exactly scaled value is a normal f64 must be within the same ulp tolerance of it (so it is finite although input x some intermediate factor would overflow, and keeps its precision although input x some intermediate factor would be subnormal); an exact value beyond f64::MAX must be the infinity of the right sign (within tol + 2 ulp of 2^1024 the infinity or the finite neighbour); an exact value below the normal range must have the right sign and lie within tol subnormal spacings (2^-1074); a zero scaled by a finite factor is the zero of the product sign (IEEE 754). Container kinds are exercised with ordinary magnitudes only (the f32 element type has its own range)");
    run.assume("axisswap: accepted lists are exactly the signed permutations of 1..k, k <= 4 (index > k is 'out of range', as in PROJ and the module's own test order=2,3)");
    run.assume("unitconvert: published factors = the PROJ unit table (typed into the harness as exact rationals; U.S. survey units as k/3937, whose printed 15/16-digit expansions are checked to their last digit); combinations mixing linear and angular units, and angular z units, may be rejected or converted by the plain ratio - both are accepted");
    run.assume("containers: the declared mapping acts on the 4-D view that src/coordinate/set.rs documents for get_coord (Coor2D: height 0, epoch NaN; Coor3D: epoch NaN; Coor32: its f32 values widened; (set, h, t) / (set, t): the fixed values), and what the operator delivers is kept in the dimensions the element type stores (Coor32: rounded to f32); single operators only (2-D/3-D containers drop Z/T between pipeline steps by design); where an adapter overrides a dimension the element type stores ((set, h, t) around Coor3D/Coor4D, (set, t) around Coor4D) a non-trivial mapping must write the mapped view into it, an identity mapping (adapt's documented no-op shortcut) may also leave it untouched");
    run.assume("descriptor `pass` and non-integer spellings such as order=2.0 are undocumented and not exercised");

    let seed = run.seed;
    let thorough = run.is_thorough();
    let np = if thorough { 6 } else { 3 };
    let pr = probes(seed, np);

    // ---- adapt: every spelling against the enuf family (both roles) -----------------------
    let mg = mag_probes(seed);
    run.note("magnitude_probe_tuples", serde_json::json!(mg.len()));
    {
        let pr = pr.clone();
        let mg = mg.clone();
        // the 80 spellings in internal order: e|w n|s u|d f|p x 5 suffix forms (perm index 0)
        let fam = 80usize;
        run.enumerate(
            "adapt-family",
            "every one of the 1920 spellings as `from` against the 80 spellings in e,n,u,f order (16 sign combinations x 5 suffix forms) as `to`, and the transposed set; definition variant {from/to, to/from argument order, `inv` with swapped roles, Plain context} and direction rotate with the index; probes: generic tuples plus one tuple of the magnitude set (hash of the index); non-trivial as in adapt-pairs",
            2 * N_SPELL * fam,
            move |i| {
                let a = i % N_SPELL;
                let b = (i / N_SPELL) % fam;
                let transposed = i / (N_SPELL * fam) == 1;
                let (fi, ti) = if transposed { (b, a) } else { (a, b) };
                let r = (a / 5 + a % 5 + b / 5 + 3 * (b % 5) + a / 80 + usize::from(transposed)) % 8;
                let mut probes = pr.clone();
                probes.push(mg[(splitmix(i as u64 ^ 0xFA31) % mg.len() as u64) as usize]);
                PairCase { from: spelling(fi), to: spelling(ti), variant: (r / 2) as u8, fwd: r % 2 == 0, probes }
            },
            check_pair,
        );
    }

    // ---- adapt: all from/to pairs -----------------------------------------------------
    {
        let pr = pr.clone();
        let mg = mg.clone();
        // index space: 1920 x 1920 pairs x 4 definition variants x 2 directions
        let total = N_SPELL * N_SPELL * 8;
        let mk = move |k: usize| {
            let ti = k % N_SPELL;
            let fi = (k / N_SPELL) % N_SPELL;
            let r = k / (N_SPELL * N_SPELL);
            let mut probes = pr.clone();
            probes.push(mg[(splitmix(k as u64 ^ 0x9A15) % mg.len() as u64) as usize]);
            PairCase { from: spelling(fi), to: spelling(ti), variant: (r / 2) as u8, fwd: r % 2 == 0, probes }
        };
        let rule = "(from, to) over all 1920 x 1920 spellings (24 orders x 16 sign combinations x {none,_rad,_deg,_gon,_any}) x definition variants {from/to, to/from argument order, `inv` with swapped roles, Plain context} x directions {Fwd, Inv}; probes: generic tuples plus one tuple of the magnitude set (hash of the index); non-trivial = some element moves and its multiplier (sign x angular factor) differs from that of the element it displaces; distinct by definition text and direction";
        if thorough {
            // every pair in both directions; the definition variant rotates with the pair
            run.enumerate(
                "adapt-pairs",
                &format!("exhaustive over pairs and directions (1920 x 1920 x 2), definition variant rotating with the pair: {rule}"),
                N_SPELL * N_SPELL * 2,
                move |i| {
                    let ti = i % N_SPELL;
                    let fi = (i / N_SPELL) % N_SPELL;
                    let d = i / (N_SPELL * N_SPELL);
                    let v = (fi / 5 + fi % 5 + ti / 5 + 3 * (ti % 5) + fi / 80 + ti / 80) % 4;
                    mk(ti + N_SPELL * fi + N_SPELL * N_SPELL * (2 * v + d))
                },
                check_pair,
            );
        } else {
            // quick: a seeded Weyl walk over the whole index space (1000003 is coprime with the
            // size, so no index repeats); the exhaustive enumeration is the thorough tier
            let n = run.scale(400_000, 0);
            let off = (splitmix(seed) % total as u64) as usize;
            run.sweep(
                "adapt-pairs",
                &format!("{n} samples (index = offset(seed) + i x 1000003 mod 29491200, no repeats) of: {rule}"),
                n,
                move |i| mk((off + i * 1_000_003) % total),
                check_pair,
            );
        }
    }

    // ---- adapt: one-sided forms and `to=X` == `inv from=X` ------------------------------
    {
        let pr = probes(seed ^ 0x51DE, np + 2);
        run.enumerate(
            "adapt-one-sided",
            "every spelling X: `adapt from=X`, `adapt inv to=X`, `adapt to=X`, `adapt inv from=X` x both directions x {Minimal, Plain}; each against the documented mapping (other side = internal enuf_rad), and `to=X` against `inv from=X` directly",
            N_SPELL * 4,
            move |i| SideCase { x: spelling(i % N_SPELL), fwd: (i / N_SPELL) % 2 == 0, ctx: if i / (2 * N_SPELL) == 0 { 0 } else { 2 }, probes: pr.clone() },
            check_side,
        );
    }

    // ---- adapt: the angular / sign scaling over the whole magnitude range ---------------------
    {
        let mg = mg.clone();
        let nmg = mg.len();
        let draws = if thorough { 8 } else { 1 };
        run.enumerate(
            "adapt-magnitudes",
            &format!("every one of the 1920 spellings once as `from` and once as `to`, x both directions, the other descriptor drawn from all 1920 by a hash of the index ({draws} draw(s)), definition variant {{from/to, to/from, `inv` with swapped roles, Plain}} by hash, each on the {nmg} magnitude tuples: every value of the magnitude set (0, smallest/largest subnormal, smallest normal, 1e-300, 1e-30, 1, 1e30, 1e300, f64::MAX/2, f64::MAX, seeded mantissas at 30 binary exponents dense within 2^21 of both ends of the normal range) in every element position with either sign. Oracle: pure elements bit for bit; a scaled element whose exactly scaled value (factor in double-double, applied to the mantissa) is a normal f64 must be within 6 ulp of it, in particular finite; beyond f64::MAX it must be the infinity of the right sign (within 8 ulp of the threshold: either); below the normal range right sign and within 6 subnormal spacings; a zero stays the zero of the product sign; non-trivial as in adapt-pairs"),
            N_SPELL * 4 * draws,
            move |i| {
                let s = i % N_SPELL;
                let r = (i / N_SPELL) % 4;
                let hsh = splitmix(seed ^ splitmix(i as u64 ^ 0x3A61_7000));
                let partner = (hsh % N_SPELL as u64) as usize;
                let (fi, ti) = if r % 2 == 0 { (s, partner) } else { (partner, s) };
                PairCase { from: spelling(fi), to: spelling(ti), variant: ((hsh >> 32) % 4) as u8, fwd: r / 2 == 0, probes: mg.clone() }
            },
            check_pair,
        );
    }

    // ---- adapt: acceptance / rejection ---------------------------------------------------
    {
        let nsuf = VALID_SUFFIXES.len() + INVALID_SUFFIXES.len();
        run.enumerate(
            "adapt-accept-reject",
            "all 4096 four-letter words over neufswdp x {none,_rad,_deg,_gon,_any} + 16 invalid suffixes x {from=, to=}: accepted iff one letter of each of e|w n|s u|d f|p and a valid suffix; non-trivial = rejected",
            4096 * nsuf * 2,
            move |i| {
                let w = i % 4096;
                let s = (i / 4096) % nsuf;
                let role = (i / (4096 * nsuf)) as u8;
                let mut t: String = (0..4).map(|k| ALPHABET[(w >> (3 * k)) & 7]).collect();
                t.push_str(if s < 5 { VALID_SUFFIXES[s].0 } else { INVALID_SUFFIXES[s - 5] });
                AcceptCase { desc: t, role }
            },
            check_accept,
        );
        let odd = odd_descriptors();
        let no = odd.len();
        run.enumerate(
            "adapt-odd-descriptors",
            "descriptors of wrong length, wrong case, digits, stray suffix fragments, repeated axes, and multi-byte characters (4 or 8 bytes long with fewer than 4 letters) x {from=, to=}: must give Err, not a panic",
            no * 2,
            move |i| AcceptCase { desc: odd[i % no].clone(), role: (i / no) as u8 },
            check_accept,
        );
    }

    // ---- adapt: rejection when BOTH sides are given (diagonal and near-diagonal) ---------------
    {
        let inv = std::sync::Arc::new(all_invalid_texts());
        let ni = inv.len();
        let inv1 = inv.clone();
        // quick: forms 0 (`from=X to=X`) and 2 (`inv`) for every X, the other ten forms rotating
        // (one per X); thorough: all twelve forms for every X
        let eq_reps = if thorough { ALL_FORMS } else { 3 };
        run.enumerate(
            "adapt-equal-invalid",
            &format!("every invalid descriptor text X of the acceptance sweep ({ni} = 4096 words x 21 suffix forms minus the 1920 valid, plus the odd descriptors) given for BOTH from and to (`from=X to=X`, `to=X from=X`, with `inv`, blanks around `=`, as second / first step of a pipeline, on Plain) and in the one-sided `inv` and pipeline forms; quick = `from=X to=X` and `inv from=X to=X` for every X plus one of the other ten forms per X (rotating), thorough = all twelve: must be rejected; non-trivial = rejected"),
            ni * eq_reps,
            move |i| {
                let x = i % ni;
                let r = i / ni;
                let form = if eq_reps == ALL_FORMS { r } else { [0, 2, [1, 3, 4, 5, 6, 7, 8, 9, 10, 11][x % 10]][r] };
                TwoCase { from: inv1[x].clone(), to: inv1[x].clone(), form: form as u8 }
            },
            check_two,
        );
        let inv2 = inv.clone();
        let reps = if thorough { TWO_SIDED_FORMS } else { 1 };
        run.enumerate(
            "adapt-near-diagonal",
            "every invalid text X paired, in both orders, with: the next (different) invalid text, X in the other letter case, a valid spelling (rotating), and its own valid four-letter prefix (else enuf+suffix, else enuf); two-sided forms {from/to, to/from, inv, inv to/from, blanks, pipeline second / first step, Plain}: quick = one form per pair rotating with the index, thorough = all eight; accepted iff both texts are documented spellings",
            ni * 8 * reps,
            move |i| {
                let x = i % ni;
                let k = (i / ni) % 4;
                let swapped = (i / (4 * ni)) % 2 == 1;
                let form = if reps == 1 { ((x + 3 * k + usize::from(swapped)) % TWO_SIDED_FORMS) as u8 } else { (i / (8 * ni)) as u8 };
                let p = near_partner(&inv2, x, k);
                if swapped { TwoCase { from: p, to: inv2[x].clone(), form } } else { TwoCase { from: inv2[x].clone(), to: p, form } }
            },
            check_two,
        );
        run.enumerate(
            "adapt-equal-valid",
            "control: every valid spelling X given for both from and to in all twelve forms must be accepted; and X paired with X in upper case (both orders, form rotating) must be rejected",
            N_SPELL * (ALL_FORMS + 2),
            move |i| {
                let x = spelling(i % N_SPELL);
                let r = i / N_SPELL;
                if r < ALL_FORMS {
                    TwoCase { from: x.clone(), to: x, form: r as u8 }
                } else if r == ALL_FORMS {
                    TwoCase { from: x.clone(), to: x.to_uppercase(), form: (i % TWO_SIDED_FORMS) as u8 }
                } else {
                    TwoCase { from: x.to_uppercase(), to: x, form: (i % TWO_SIDED_FORMS) as u8 }
                }
            },
            check_two,
        );
    }

    // ---- adapt: built-in macros ----------------------------------------------------------
    {
        let pr = probes(seed ^ 0xAC20, np + 2);
        let singles = 8 * 2 * 2 * 2;
        let pairs = 64 * 2 * 2;
        run.enumerate(
            "adapt-macros",
            "the eight built-in geo|gis|neu|enu :in/:out macros x {as is, with ` inv`} x {Minimal::new, Plain::new} x both directions, then all 64 two-step pipelines `a | b` of them x contexts x directions, against the documented descriptors (geo = neuf_deg, gis = enuf_deg, neu = neuf, enu = enuf)",
            singles + pairs,
            move |i| {
                if i < singles {
                    MacroCase { steps: vec![MACROS[i % 8].0.to_string()], inv_suffix: (i / 8) % 2 == 1, plain: (i / 16) % 2 == 1, fwd: (i / 32) % 2 == 0, probes: pr.clone() }
                } else {
                    let j = i - singles;
                    MacroCase { steps: vec![MACROS[j % 8].0.to_string(), MACROS[(j / 8) % 8].0.to_string()], inv_suffix: false, plain: (j / 64) % 2 == 1, fwd: (j / 128) % 2 == 0, probes: pr.clone() }
                }
            },
            check_macro,
        );
    }

    // ---- axisswap ------------------------------------------------------------------------
    {
        let pr1 = pr.clone();
        run.enumerate(
            "axisswap-lists",
            "every index list over -5..5 of length 1..5 (177155): the 442 signed permutations of 1..k (k<=4) must be accepted and act as documented (direction chosen by a hash of the index; both directions of all 442 in axisswap-valid), everything else (zero, duplicate, index > length, index > 4, more than 4 indices) must be rejected; non-trivial = rejected or not the identity",
            N_SWAP_LISTS,
            move |i| SwapCase { order: swap_list(i), inv_flag: false, fwd: splitmix(i as u64) & 1 == 0, probes: pr1.clone() },
            check_swap,
        );
        let valid = all_valid_swaps();
        let mut pr2 = probes(seed ^ 0xA715, np + 1);
        // axisswap moves bits: also non-finite values, signed zeros, subnormals, extremes
        pr2.push(p4(f64::NAN, f64::INFINITY, -0.0, 5e-324));
        pr2.push(p4(f64::NEG_INFINITY, 1.0e308, -1.0e-310, 0.0));
        run.enumerate(
            "axisswap-valid",
            "all 442 signed partial permutations x {axisswap, axisswap inv} x both directions, on generic probes plus NaN/inf/-0/subnormal/huge values, bit for bit",
            442 * 4,
            move |i| SwapCase { order: valid[i % 442].clone(), inv_flag: (i / 442) % 2 == 1, fwd: i / 884 == 0, probes: pr2.clone() },
            check_swap,
        );
        let odd: Vec<&str> = vec![
            "order=1.5", "order=2,1.5", "order=0.5,1", "order=1,2.5,3", "order=2.5,1.5", "order=a", "order=1,a", "order=x,y", "order=1:30,2", "order=NaN",
            "order=1,NaN", "order=inf", "order=-inf,1", "order=1e300", "order=2,1e300", "order=1.0000001", "order=2,0.999999", "order=-0", "order=-0,1",
            "order=1,2,3,4.5", "order",
        ];
        let no = odd.len();
        run.enumerate(
            "axisswap-non-integer",
            "order lists with fractional, sexagesimal-fractional, non-numeric, non-finite or huge elements, `-0`, and `order` without a value: must be rejected",
            no,
            move |i| OddSwapCase { args: odd[i].to_string() },
            check_odd_swap,
        );
    }

    // ---- unit tables and unitconvert -------------------------------------------------------
    {
        let nt = live_unit_table().len();
        run.note("unit_table_entries", serde_json::json!(nt));
        run.enumerate(
            "unit-table",
            "every entry of the library's linear and angular unit tables (hook): name not used by an earlier entry, multiplier equals its own published factor text and the factor published for that name, and `unitconvert xy_in|xy_out|z_in|z_out=<name>` resolves to exactly that factor",
            nt,
            move |i| TableCase { index: i, probe: F(1.2345678901234567) },
            check_table,
        );
        run.enumerate(
            "unit-published-names",
            "every name of the published table (21 linear, 3 angular) x the four roles xy_in, xy_out, z_in, z_out: accepted, and converts by the published factor",
            PUBLISHED.len() * 4,
            move |i| NameCase { name: PUBLISHED[i % 24].name.to_string(), role: (i / 24) as u8, probe: F(23.456789012345678) },
            check_published_name,
        );
        let prc = probes(seed ^ 0xC0, 2 + usize::from(thorough));
        let mgc = mg.clone();
        let reps = if thorough { 8 } else { 1 };
        run.enumerate(
            "unitconvert-pairs",
            "every (xy_in, xy_out, z_in, z_out) over the 24 published names (24^4 = 331776); quick: direction, `inv` flag and omission of default-valued parameters rotate with the index, thorough: all 8 combinations; probes: generic tuples plus one tuple of the magnitude set (hash of the index); exact ratio of the published factors on x, y (xy) and z, t untouched; cases naming a published unit that does not resolve on its own are skipped and counted (excluded_known); non-trivial = some unit changes",
            331_776 * reps,
            move |i| {
                let k = i % 331_776;
                let r = if reps == 8 { i / 331_776 } else { (k / 24 + k / 576 + k) % 8 };
                let nm = |j: usize| PUBLISHED[j % 24].name.to_string();
                let mut probes = prc.clone();
                probes.push(mgc[(splitmix(i as u64 ^ 0xC3A6) % mgc.len() as u64) as usize]);
                ConvCase { xy_in: nm(k), xy_out: nm(k / 24), z_in: nm(k / 576), z_out: nm(k / 13824), omit_defaults: r & 4 != 0, inv_flag: r & 2 != 0, fwd: r & 1 == 0, probes }
            },
            check_conv,
        );
        // the ratio over the whole magnitude range: every unit pair as xy pair and as z pair
        let mgm = mg.clone();
        let nmg = mgm.len();
        let draws = if thorough { 4 } else { 1 };
        run.enumerate(
            "unitconvert-magnitudes",
            &format!("every (in, out) pair of the 24 published names once as (xy_in, xy_out) and once as (z_in, z_out), the other pair drawn from all 576 by a hash of the index ({draws} draw(s)), x both directions x {{unitconvert, unitconvert inv}}, omission of default-valued parameters by hash, each on the {nmg} magnitude tuples: every value of the magnitude set (0, smallest/largest subnormal, smallest normal, 1e-300, 1e-30, 1, 1e30, 1e300, f64::MAX/2, f64::MAX, seeded mantissas at 30 binary exponents dense within 2^21 = the largest factor ratio of both ends of the normal range) in every element position with either sign. Oracle: where the exactly scaled value (published ratio in double-double, applied to the mantissa) is a normal f64 the element must be within 8 ulp of it, in particular finite whatever an intermediate (pivot) quantity does; beyond f64::MAX the infinity of the right sign (within 10 ulp of the threshold: either); below the normal range right sign and within 8 subnormal spacings; a zero stays the zero of its sign; the fourth element bit-identical; non-trivial = some unit changes"),
            576 * 2 * 4 * draws,
            move |i| {
                let j = i % 576;
                let r = (i / 576) % 2;
                let d = (i / 1152) % 4;
                let hsh = splitmix(seed ^ splitmix(i as u64 ^ 0x3A6C_7000));
                let other = (hsh % 576) as usize;
                let (xy, z) = if r == 0 { (j, other) } else { (other, j) };
                let nm = |q: usize| PUBLISHED[q % 24].name.to_string();
                ConvCase { xy_in: nm(xy), xy_out: nm(xy / 24), z_in: nm(z), z_out: nm(z / 24), omit_defaults: (hsh >> 32) & 1 != 0, inv_flag: d & 2 != 0, fwd: d & 1 == 0, probes: mgm.clone() }
            },
            check_conv,
        );
        // near misses: proper prefixes of published names, published names with a character
        // appended, plus a few arbitrary words — none of them is a published name
        let mut bogus: Vec<String> = ["unknown", "foo", "xyz", "m2", "-ft", "us_ft"].iter().map(|s| s.to_string()).collect();
        for u in PUBLISHED.iter() {
            for k in 1..u.name.len() {
                bogus.push(u.name[..k].to_string());
            }
            bogus.push(format!("{}s", u.name));
            bogus.push(format!("{}-", u.name));
        }
        bogus.sort();
        bogus.dedup();
        bogus.retain(|b| published(b).is_none());
        let nb = bogus.len();
        run.enumerate(
            "unitconvert-unknown-units",
            "names that are in no published table (proper prefixes of published names, published names with `s` or `-` appended, arbitrary words) x four roles: must be rejected",
            nb * 4,
            move |i| BogusUnitCase { name: bogus[i % nb].clone(), role: (i / nb) as u8 },
            check_bogus_unit,
        );
    }

    // ---- the three operators on every container kind ------------------------------------------
    {
        let kinds_text = "all 36 container kinds (Vec / array / &mut slice of Coor4D, Coor3D, Coor2D, Coor32, each plain, in (set, h, t) and in (set, t); adapter constants rotating over (h, t), (h, NaN), (0, t))";
        let oracle_text = "reference = the declared mapping applied to the 4-D view the container documents for get_coord (Coor2D: height 0, epoch NaN; Coor3D: epoch NaN; Coor32: widened f32 values; adapters: their fixed values), kept in the dimensions the element type stores (Coor32: narrowed to f32), written in the harness without the library";

        // axisswap: all 442 x inv flag x direction x 36 kinds
        let valid = all_valid_swaps();
        let mut prs = probes(seed ^ 0xC0A7, CONT_N - 1);
        prs.push(p4(f64::INFINITY, -0.0, f64::NAN, 5e-324));
        run.enumerate(
            "axisswap-containers",
            &format!("all 442 signed partial permutations x {{axisswap, axisswap inv}} x both directions x {kinds_text}, {CONT_N} tuples (generic + inf/-0/NaN/subnormal), bit for bit; {oracle_text}; non-trivial = a kept dimension receives a dimension the element type does not store"),
            442 * 4 * N_KINDS,
            move |i| {
                let o = i % 442;
                let r = (i / 442) % 4;
                let k = i / (442 * 4);
                SwapContCase { order: valid[o].clone(), inv_flag: r % 2 == 1, fwd: r / 2 == 0, cont: cont_of(k, i as u64), probes: prs.clone() }
            },
            check_swap_cont,
        );

        // adapt: every spelling as `from` and as `to`, in both directions, per kind; the other
        // side drawn from all 1920 by a hash of the index (thorough: 6 draws)
        let pra = probes(seed ^ 0xADA7, CONT_N);
        let reps = if thorough { 6 } else { 1 };
        run.enumerate(
            "adapt-containers",
            &format!("per container kind: every one of the 1920 spellings (24 orders x 16 sign patterns x 5 suffix forms) once as `from` and once as `to`, x both directions (= 7680 cases per kind), the other descriptor drawn from all 1920 by a hash of the index ({reps} draw(s)), definition variant {{from/to, to/from, `inv` with swapped roles, Plain}} by hash; {kinds_text}; pure elements bit for bit, scaled elements within 6 ulp (f32 elements: between the f32 roundings of the exact value -/+ 7 ulp); {oracle_text}; non-trivial = a kept dimension receives a dimension the element type does not store"),
            N_KINDS * N_SPELL * 4 * reps,
            move |i| {
                let s = i % N_SPELL;
                let r = (i / N_SPELL) % 4;
                let k = (i / (N_SPELL * 4)) % N_KINDS;
                let hsh = splitmix(seed ^ splitmix(i as u64 ^ 0xADA9_7000));
                let partner = (hsh % N_SPELL as u64) as usize;
                let (fi, ti) = if r % 2 == 0 { (s, partner) } else { (partner, s) };
                let pair = PairCase { from: spelling(fi), to: spelling(ti), variant: ((hsh >> 32) % 4) as u8, fwd: r / 2 == 0, probes: pra.clone() };
                PairContCase { pair, cont: cont_of(k, i as u64) }
            },
            check_pair_cont,
        );

        // unitconvert: every xy pair and every z pair per kind, both directions
        let pru = probes(seed ^ 0xC0C0, CONT_N);
        let flags = if thorough { 4 } else { 1 };
        run.enumerate(
            "unitconvert-containers",
            &format!("per container kind: every (xy_in, xy_out) pair of the 24 published names with (z_in, z_out) drawn by hash, and every (z_in, z_out) pair with (xy_in, xy_out) drawn by hash, x both directions; `inv` flag and omission of default-valued parameters by hash (thorough: all 4 combinations); {kinds_text}; kept x, y, z within 8 ulp of the exact ratio (f32 elements: between the f32 roundings of the exact value -/+ 9 ulp), a kept fourth element bit-identical to the viewed one; {oracle_text}; non-trivial = a kept element changes unit"),
            N_KINDS * 576 * 4 * flags,
            move |i| {
                let j = i % 576;
                let r = (i / 576) % 4;
                let k = (i / (576 * 4)) % N_KINDS;
                let fl = i / (576 * 4 * N_KINDS);
                let hsh = splitmix(seed ^ splitmix(i as u64 ^ 0xC0C0_7000));
                let other = (hsh % 576) as usize;
                let (xy, z) = if r % 2 == 0 { (j, other) } else { (other, j) };
                let f = if flags == 4 { fl } else { ((hsh >> 32) % 4) as usize };
                let nm = |q: usize| PUBLISHED[q % 24].name.to_string();
                let conv = ConvCase { xy_in: nm(xy), xy_out: nm(xy / 24), z_in: nm(z), z_out: nm(z / 24), omit_defaults: f & 2 != 0, inv_flag: f & 1 != 0, fwd: r / 2 == 0, probes: pru.clone() };
                ConvContCase { conv, cont: cont_of(k, i as u64) }
            },
            check_conv_cont,
        );
    }

    // ---- long operand sets: every tuple of a set of any length ------------------------------------
    {
        // adapt: 16 descriptor pairs drawn from all 1920 x 1920 by hash; the first 10 re-drawn until the
        // documented mapping moves, sign-flips and angle-converts (perm+sign+unit), the rest as drawn;
        // definition variant x direction cover all 8 combinations twice
        let mut cfg: Vec<LargeCase> = vec![];
        let blank = |salt: u64| LargeCase { len: 0, salt, pair: None, swap: None, conv: None };
        for j in 0..16u64 {
            let mut t = 0u64;
            let (fi, ti) = loop {
                let h = splitmix(seed ^ splitmix(0x1A26_E000 + 64 * j + t));
                let (fi, ti) = ((h % N_SPELL as u64) as usize, ((h >> 24) % N_SPELL as u64) as usize);
                let m = reference(&parse_desc(&spelling(fi)).unwrap(), &parse_desc(&spelling(ti)).unwrap());
                let full = (0..4).any(|i| m[i].src != i) && (0..4).any(|i| m[i].neg) && (0..4).any(|i| m[i].num != m[i].den);
                if (full || j >= 10) && !is_identity(&m) || t >= 60 {
                    break (fi, ti);
                }
                t += 1;
            };
            let pair = PairCase { from: spelling(fi), to: spelling(ti), variant: (j % 4) as u8, fwd: (j / 4) % 2 == 0, probes: vec![] };
            cfg.push(LargeCase { pair: Some(pair), ..blank(0xADA0 + j) });
        }
        // axisswap: 8 of the 442 orders by hash (not the identity) x {plain, inv} x {Fwd, Inv}
        let valid = all_valid_swaps();
        for j in 0..8u64 {
            let mut t = 0u64;
            let order = loop {
                let o = valid[(splitmix(seed ^ splitmix(0x5A26_E000 + 64 * j + t)) % 442) as usize].clone();
                if o.iter().enumerate().any(|(i, v)| *v != i as i8 + 1) {
                    break o;
                }
                t += 1;
            };
            let swap = SwapCase { order, inv_flag: j % 2 == 1, fwd: (j / 2) % 2 == 0, probes: vec![] };
            cfg.push(LargeCase { swap: Some(swap), ..blank(0x5A90 + j) });
        }
        // unitconvert: 12 unit 4-tuples by hash, xy pair linear (8) or angular (4), z pair linear,
        // in != out, x {plain, inv} x {Fwd, Inv} x omission of defaults
        for j in 0..12u64 {
            let h = splitmix(seed ^ splitmix(0xC026_E000 + j));
            let two = |h: u64, base: u64, n: u64| {
                let a = h % n;
                let b = (a + 1 + (h >> 16) % (n - 1)) % n;
                (PUBLISHED[(base + a) as usize].name.to_string(), PUBLISHED[(base + b) as usize].name.to_string())
            };
            let (xy_in, xy_out) = if j % 3 == 2 { two(h, 21, 3) } else { two(h, 0, 21) };
            let (z_in, z_out) = two(h >> 32, 0, 21);
            let conv = ConvCase { xy_in, xy_out, z_in, z_out, omit_defaults: j % 2 == 1, inv_flag: (j / 2) % 2 == 1, fwd: (j / 4) % 2 == 0, probes: vec![] };
            cfg.push(LargeCase { conv: Some(conv), ..blank(0xC0E0 + j) });
        }
        let nc = cfg.len();
        run.enumerate(
            "large-sets",
            &format!("the per-tuple statements over the LENGTH of the operand set: {nc} operator configurations (adapt: 16 from/to pairs drawn from all 1920 x 1920 by hash(seed), 10 of them with a documented mapping that permutes, sign-flips and angle-converts, all 4 definition variants {{from/to, to/from, `inv` with swapped roles, Plain}} x both directions; axisswap: 8 non-identity orders of the 442 x {{plain, inv}} x both directions; unitconvert: 12 unit 4-tuples, linear and angular xy pairs, x {{plain, inv}} x both directions x omitted defaults) x set lengths {LARGE_LENS:?} (Vec<Coor4D>, ONE apply call per set); tuple #i = f(salt, i), all tuples distinct (hashed mantissas and signs in the magnitude bands of the generic probes), so a tuple taken from another index, transformed twice or left untouched is visible; oracle: the per-tuple reference of the small sections for EVERY tuple (pure elements bit for bit, scaled within 6 / 8 ulp of the exact ratio) and returned count == length"),
            nc * LARGE_LENS.len(),
            move |i| {
                let mut c = cfg[i % nc].clone();
                c.len = LARGE_LENS[i / nc];
                c.salt = splitmix(seed ^ splitmix(c.salt ^ ((c.len as u64) << 20)));
                c
            },
            check_large,
        );
    }

    run.finish("finite domains enumerated completely: adapt 1920x1920 descriptor pairs x directions (x definition variants), 4096 words x 21 suffix forms, eight macros; axisswap all 177155 index lists over -5..5 up to length 5; unitconvert all 24^4 unit combinations and every unit table entry; each compared with a table-driven reference written from the documentation (reordering/sign bit-identical, scaling within 6 ulp (adapt) / 8 ulp (unitconvert) of the exact ratio); the scaling over the whole finite f64 magnitude range (subnormals, smallest normals ... f64::MAX, every element position, both signs) for every unit pair (as xy and as z pair, both directions, with and without inv) and every adapt spelling (as from and as to, both directions): normal exact result -> within the ulp tolerance and finite, exact overflow -> infinity of the right sign, exact subnormal -> right sign and a few subnormal spacings; the same reference on the documented 4-D view of all 36 container kinds (Vec/array/slice of Coor4D/3D/2D/32, plain and in the (set,h,t)/(set,t) adapters): axisswap all 442 orders x flag x direction, adapt every spelling as from and as to in both directions, unitconvert every xy and every z unit pair in both directions, per kind; and over the length of the operand set (0, 1, 2, every length around 256, 512, 1024, 4096, and 20011 tuples with index-dependent distinct values in one apply call: 36 configurations of the three operators, with and without inv, both directions; every tuple against the same reference, count == length)");
}
