//! C06 — ellipsoid geometry is coherent: cartesian conversions, geodesics, auxiliary
//! latitudes, meridian arcs, table constants and derived shape parameters.
//!
//! Oracles: closed forms and Gauss-Legendre quadrature (vcore::refmath, re-validated in
//! `selftest`), round trips, symmetry laws, a reference table of published (a, 1/f).
//! Generated: every built-in table entry (exhaustive, through the verif_hooks enumeration)
//! on deterministic lattices, plus random (a, 1/f >= 150) ellipsoids and random points.
//!
//! Registered findings (findings_inbox/C06-*.md):
//!  * `rectifying-scaled-by-Qn` (known): the "rectifying latitude" is Qn times the rectifying
//!    latitude; asserted by definition in section `rectifying-definition` only, everywhere else
//!    compared modulo Qn (counter excluded_known).
//!  * `geodesic-inv-equatorial-nan` (fixed by 0e2e174): section `geodesic-equatorial`.

use geodesy::prelude::*;
use proptest::prelude::*;
use serde::{Deserialize, Serialize};
use std::f64::consts::{FRAC_PI_2, PI};
use vcore::geo::*;
use vcore::guard::guard;
use vcore::refmath::{self, wrap_pi, El};
use vcore::*;

const A_EARTH: f64 = 6378137.0;
const EPS: f64 = f64::EPSILON;

// ---- published constants ----------------------------------------------------------------

#[derive(Clone, Copy, Debug)]
enum Shape {
    /// PROJ gives the reciprocal flattening as this decimal text
    Rf(&'static str),
    /// PROJ gives the semi-minor axis as this decimal text: 1/f = a/(a-b)
    B(&'static str),
    Sphere,
}

/// (name, a, shape) as published in PROJ's ellipsoid list (which the library says it copies),
/// plus the library's own `unitsphere`.
const PUBLISHED: [(&str, &str, Shape); 47] = [
    ("MERIT", "6378137.0", Shape::Rf("298.257")),
    ("SGS85", "6378136.0", Shape::Rf("298.257")),
    ("GRS80", "6378137.0", Shape::Rf("298.257222101")),
    ("IAU76", "6378140.0", Shape::Rf("298.257")),
    ("airy", "6377563.396", Shape::Rf("299.3249646")),
    ("APL4.9", "6378137.0", Shape::Rf("298.25")),
    ("NWL9D", "6378145.0", Shape::Rf("298.25")),
    ("mod_airy", "6377340.189", Shape::B("6356034.446")),
    ("andrae", "6377104.43", Shape::Rf("300.0")),
    ("danish", "6377019.2563", Shape::Rf("300.0")),
    ("aust_SA", "6378160.0", Shape::Rf("298.25")),
    ("GRS67", "6378160.0", Shape::Rf("298.2471674270")),
    ("GSK2011", "6378136.5", Shape::Rf("298.2564151")),
    ("bessel", "6377397.155", Shape::Rf("299.1528128")),
    ("bess_nam", "6377483.865", Shape::Rf("299.1528128")),
    ("clrk66", "6378206.4", Shape::B("6356583.8")),
    ("clrk80", "6378249.145", Shape::Rf("293.4663")),
    ("clrk80ign", "6378249.2", Shape::Rf("293.4660212936269")),
    ("CPM", "6375738.7", Shape::Rf("334.29")),
    ("delmbr", "6376428.0", Shape::Rf("311.5")),
    ("engelis", "6378136.05", Shape::Rf("298.2566")),
    ("evrst30", "6377276.345", Shape::Rf("300.8017")),
    ("evrst48", "6377304.063", Shape::Rf("300.8017")),
    ("evrst56", "6377301.243", Shape::Rf("300.8017")),
    ("evrst69", "6377295.664", Shape::Rf("300.8017")),
    ("evrstSS", "6377298.556", Shape::Rf("300.8017")),
    ("fschr60", "6378166.0", Shape::Rf("298.3")),
    ("fschr60m", "6378155.0", Shape::Rf("298.3")),
    ("fschr68", "6378150.0", Shape::Rf("298.3")),
    ("helmert", "6378200.0", Shape::Rf("298.3")),
    ("hough", "6378270.0", Shape::Rf("297.0")),
    ("intl", "6378388.0", Shape::Rf("297.0")),
    ("krass", "6378245.0", Shape::Rf("298.3")),
    ("kaula", "6378163.0", Shape::Rf("298.24")),
    ("lerch", "6378139.0", Shape::Rf("298.257")),
    ("mprts", "6397300.0", Shape::Rf("191.0")),
    ("new_intl", "6378157.5", Shape::B("6356772.2")),
    ("plessis", "6376523.0", Shape::B("6355863.0")),
    ("PZ90", "6378136.0", Shape::Rf("298.25784")),
    ("SEasia", "6378155.0", Shape::B("6356773.3205")),
    ("walbeck", "6376896.0", Shape::B("6355834.8467")),
    ("WGS60", "6378165.0", Shape::Rf("298.3")),
    ("WGS66", "6378145.0", Shape::Rf("298.25")),
    ("WGS72", "6378135.0", Shape::Rf("298.26")),
    ("WGS84", "6378137.0", Shape::Rf("298.257223563")),
    ("sphere", "6370997.0", Shape::Sphere),
    ("unitsphere", "1.0", Shape::Sphere),
];

/// number of decimals in a plain decimal text
fn decimals(t: &str) -> i32 {
    t.split('.').nth(1).map(|d| d.len() as i32).unwrap_or(0)
}

/// Published (a, 1/f, tolerance on 1/f): half a unit of the last published decimal, capped at
/// 1e-7 relative; for shapes published through b: 1e-7 relative (b is given to 0.1 mm .. 1 m).
fn published(name: &str) -> Option<(f64, f64, f64)> {
    let (_, a, shape) = PUBLISHED.iter().find(|e| e.0 == name)?;
    let a: f64 = a.parse().unwrap();
    Some(match shape {
        Shape::Sphere => (a, 0.0, 0.0),
        Shape::Rf(t) => {
            let rf: f64 = t.parse().unwrap();
            (a, rf, (0.5 * 10f64.powi(-decimals(t))).min(1e-7 * rf))
        }
        Shape::B(t) => {
            let b: f64 = t.parse().unwrap();
            let rf = a / (a - b);
            (a, rf, 1e-7 * rf)
        }
    })
}

// ---- worst-error bookkeeping ---------------------------------------------------------------

/// Per-case collection of (metric name, worst value, worst value/tolerance), flushed into Rec.
#[derive(Default)]
struct W {
    v: Vec<(&'static str, f64, f64)>,
}
impl W {
    /// records and returns true when the value is above the tolerance (or not a number)
    fn over(&mut self, name: &'static str, val: f64, tol: f64) -> bool {
        let ratio = val / tol;
        match self.v.iter_mut().find(|e| e.0 == name) {
            Some(e) => {
                if val > e.1 {
                    e.1 = val;
                }
                if ratio > e.2 {
                    e.2 = ratio;
                }
            }
            None => self.v.push((name, val, ratio)),
        }
        !(val <= tol)
    }
    fn flush(&self, rec: &mut Rec) {
        for (n, v, r) in &self.v {
            rec.metric(n, *v);
            rec.metric(&format!("{n} / tolerance"), *r);
        }
    }
}


// ---- ellipsoids ---------------------------------------------------------------------------

/// An ellipsoid of a case: a table name, or (a, 1/f) given as numbers; rf = 0 means a sphere
/// built with `Ellipsoid::new(a, 0)` (the text form "a,0" is 1/0 and is not used).
#[derive(Clone, Debug, Serialize, Deserialize)]
struct Ell {
    name: Option<String>,
    a: F,
    rf: F,
}

impl Ell {
    fn named(n: &str) -> Ell {
        Ell { name: Some(n.to_string()), a: F(0.0), rf: F(0.0) }
    }
    fn af(a: f64, rf: f64) -> Ell {
        Ell { name: None, a: F(a), rf: F(rf) }
    }
}

struct E {
    lib: Ellipsoid,
    r: El,
    /// value for `ellps=` in operator definitions (None: sphere built from numbers)
    text: Option<String>,
    label: String,
    /// a / a(GRS80): lengths in cases are given for an Earth-sized body and scaled by this
    sc: f64,
    /// third flattening
    n: f64,
}

fn resolve(e: &Ell) -> Result<E, Failure> {
    let (lib, text, label) = match &e.name {
        Some(name) => {
            let lib = match guard(|| Ellipsoid::named(name)) {
                Err(p) => vfail!(format!("panic-named@{}", p.sig()), "Ellipsoid::named(\"{name}\") panics: {} at {}:{}", p.msg, p.file, p.line),
                Ok(Err(err)) => vfail!("table-name-not-instantiable", "Ellipsoid::named(\"{name}\") returns {err:?}"),
                Ok(Ok(l)) => l,
            };
            (lib, Some(name.clone()), name.clone())
        }
        None if e.rf.0 == 0.0 => (Ellipsoid::new(e.a.0, 0.0), None, format!("Ellipsoid::new({:?}, 0)", e.a.0)),
        None => {
            let text = format!("{},{}", e.a.0, e.rf.0);
            let lib = match guard(|| Ellipsoid::named(&text)) {
                Err(p) => vfail!(format!("panic-named@{}", p.sig()), "Ellipsoid::named(\"{text}\") panics: {} at {}:{}", p.msg, p.file, p.line),
                Ok(Err(err)) => vfail!("a-rf-text-rejected", "Ellipsoid::named(\"{text}\") returns {err:?}"),
                Ok(Ok(l)) => l,
            };
            vensure!(
                lib.semimajor_axis().to_bits() == e.a.0.to_bits() && lib.flattening().to_bits() == (1.0 / e.rf.0).to_bits(),
                "a-rf-text-misread",
                "Ellipsoid::named(\"{text}\") gives a={:?} f={:?}, expected a={:?} f=1/rf={:?}",
                lib.semimajor_axis(), lib.flattening(), e.a.0, 1.0 / e.rf.0
            );
            (lib, Some(text.clone()), text)
        }
    };
    let (a, f) = (lib.semimajor_axis(), lib.flattening());
    vensure!(a.is_finite() && a > 0.0 && f.is_finite() && (0.0..=1.0 / 149.0).contains(&f), "ellipsoid-out-of-domain",
        "ellipsoid {label}: a={a:?} f={f:?} is outside the domain of the property (a>0, 0<=f<=1/150)");
    let r = El::new(a, f);
    Ok(E { lib, r, text, label, sc: a / A_EARTH, n: r.n3() })
}

fn library_table() -> Vec<(&'static str, &'static str, &'static str, &'static str, &'static str)> {
    geodesy::verif_hooks::ellipsoid_table()
}

// ---- derived parameters ---------------------------------------------------------------------

fn rel(a: f64, b: f64) -> f64 {
    if a == b {
        0.0
    } else {
        (a - b).abs() / b.abs().max(f64::MIN_POSITIVE)
    }
}

/// Defining identities of the derived shape parameters, each against an algebraically different
/// expression in (a, f); tolerances are rounding bounds of the worse conditioned side.
fn check_derived(e: &E, w: &mut W) -> CaseResult {
    let l = &e.lib;
    let (a, f) = (e.r.a, e.r.f);
    let lab = &e.label;
    let b = a - a * f;
    let es = 2.0 * f - f * f;
    macro_rules! id {
        ($name:literal, $got:expr, $want:expr, $tol:expr) => {{
            let (got, want, tol): (f64, f64, f64) = ($got, $want, $tol);
            if w.over(concat!("identity ", $name), rel(got, want).min((got - want).abs()), tol) {
                vfail!(concat!("identity-", $name), "ellipsoid {lab} (a={a:?}, f={f:?}): {} = {got:?}, defining identity gives {want:?} (tolerance {tol:e})", $name);
            }
        }};
    }
    let lb = l.semiminor_axis();
    id!("semiminor_axis", lb, b, 4.0 * EPS);
    id!("semimedian_axis", l.semimedian_axis(), a, 0.0);
    id!("eccentricity_squared", l.eccentricity_squared(), es, 8.0 * EPS);
    id!("eccentricity_squared-from-axes", l.eccentricity_squared(), (a * a - lb * lb) / (a * a), 16.0 * EPS);
    id!("eccentricity", l.eccentricity(), es.sqrt(), 8.0 * EPS);
    id!("second_eccentricity_squared", l.second_eccentricity_squared(), (a * a - b * b) / (b * b), 16.0 * EPS);
    id!("second_eccentricity", l.second_eccentricity(), (es / (1.0 - es)).sqrt(), 16.0 * EPS);
    id!("third_flattening", l.third_flattening(), (a - b) / (a + b), 8.0 * EPS);
    id!("second_flattening", l.second_flattening(), f / (1.0 - f), 16.0 * EPS);
    id!("aspect_ratio", l.aspect_ratio(), a / b, 8.0 * EPS);
    // E = sqrt(a^2-b^2) = a e: the difference of squares loses eps/es relative
    id!("linear_eccentricity", l.linear_eccentricity(), a * es.sqrt(), if f == 0.0 { 0.0 } else { 16.0 * EPS / es } + 8.0 * EPS);
    id!("polar_radius_of_curvature", l.polar_radius_of_curvature(), a / (1.0 - f), 8.0 * EPS);
    id!("N(pole)=c", l.prime_vertical_radius_of_curvature(FRAC_PI_2), a / (1.0 - f), 32.0 * EPS);
    id!("M(pole)=c", l.meridian_radius_of_curvature(FRAC_PI_2), a / (1.0 - f), 64.0 * EPS);
    id!("N(0)=a", l.prime_vertical_radius_of_curvature(0.0), a, 4.0 * EPS);
    id!("M(0)=a(1-es)", l.meridian_radius_of_curvature(0.0), a * (1.0 - f) * (1.0 - f), 16.0 * EPS);
    // meridian constants against quadrature
    let q = e.r.meridian_quadrant();
    id!("meridian_quadrant", l.meridian_quadrant(), q, 64.0 * EPS);
    id!("normalized_meridian_arc_unit", l.normalized_meridian_arc_unit(), q / (a * FRAC_PI_2), 64.0 * EPS);
    id!("rectifying_radius", l.rectifying_radius(), q / FRAC_PI_2, 64.0 * EPS);
    // Bowring's closed form is documented as the series truncated after n^4: next term n^6/256
    id!("rectifying_radius_bowring", l.rectifying_radius_bowring(), q / FRAC_PI_2, e.n.powi(6) / 128.0 + 64.0 * EPS);
    Ok(())
}

/// M and N at arbitrary latitudes against the closed forms; curvature operator against them
fn check_curvature(e: &E, lats: &[f64], w: &mut W) -> CaseResult {
    for &phi in lats {
        let (m, n) = (e.lib.meridian_radius_of_curvature(phi), e.lib.prime_vertical_radius_of_curvature(phi));
        let (mr, nr) = (e.r.m(phi), e.r.n(phi));
        if w.over("M vs closed form (rel)", rel(m, mr), 64.0 * EPS) || w.over("N vs closed form (rel)", rel(n, nr), 32.0 * EPS) {
            vfail!("curvature-closed-form", "ellipsoid {} lat={phi:?}: M={m:?} N={n:?}, closed forms {mr:?} {nr:?}", e.label);
        }
        vensure!((n >= m * (1.0 - 8.0 * EPS) && m > 0.0), "curvature-order", "ellipsoid {} lat={phi:?}: expected 0 < M <= N, got M={m:?} N={n:?}", e.label);
    }
    let Some(text) = &e.text else { return Ok(()) };
    let mut ctx = Minimal::new();
    for (flag, which) in [("prime", 0), ("meridian", 1), ("gaussian", 2), ("mean", 3)] {
        let def = format!("curvature {flag} ellps={text}");
        let op = match try_op(&mut ctx, &def) {
            Err(p) => vfail!(format!("panic-instantiate@{}", p.sig()), "'{def}' panics: {} at {}:{}", p.msg, p.file, p.line),
            Ok(Err(err)) => vfail!("operator-rejected", "'{def}' rejected: {err:?}"),
            Ok(Ok(op)) => op,
        };
        let mut data: Vec<Coor4D> = lats.iter().map(|p| Coor4D::raw(p.to_degrees(), 12.0, 0.0, 0.0)).collect();
        match try_apply(&ctx, op, Fwd, &mut data) {
            Err(p) => vfail!(format!("panic-apply@{}", p.sig()), "'{def}' panics in apply: {} at {}:{}", p.msg, p.file, p.line),
            Ok(Err(err)) => vfail!("apply-error", "'{def}' apply error {err:?}"),
            Ok(Ok(_)) => {}
        }
        for (d, &phi0) in data.iter().zip(lats) {
            let phi = phi0.to_degrees().to_radians();
            let (m, n) = (e.r.m(phi), e.r.n(phi));
            let want = [n, m, (n * m).sqrt(), 2.0 / (1.0 / n + 1.0 / m)][which];
            if w.over("curvature operator vs closed form (rel)", rel(d[0], want), 128.0 * EPS) {
                vfail!("curvature-operator", "'{def}' at lat={:?} deg gives {:?}, closed form {want:?}", phi0.to_degrees(), d[0]);
            }
        }
    }
    Ok(())
}

// ---- section: table -------------------------------------------------------------------------

#[derive(Clone, Debug, Serialize, Deserialize)]
struct TableCase {
    name: String,
}

fn check_table(c: &TableCase, rec: &mut Rec) -> CaseResult {
    let name = &c.name;
    let table = library_table();
    let entry = table.iter().find(|e| e.0 == name);
    let publ = published(name);
    let Some(entry) = entry else {
        vfail!("published-ellipsoid-missing", "ellipsoid '{name}' of the published list is not in the built-in table");
    };
    vensure!(table.iter().filter(|e| e.0 == name).count() == 1, "table-duplicate-name", "name '{name}' occurs more than once in the built-in table");
    // instantiate (both constructors read the same table)
    let e = resolve(&Ell::named(name))?;
    let tri = match guard(|| TriaxialEllipsoid::named(name)) {
        Err(p) => vfail!(format!("panic-named-triaxial@{}", p.sig()), "TriaxialEllipsoid::named(\"{name}\") panics: {} at {}:{}", p.msg, p.file, p.line),
        Ok(Err(err)) => vfail!("table-name-not-instantiable", "TriaxialEllipsoid::named(\"{name}\") returns {err:?}"),
        Ok(Ok(t)) => t,
    };
    let (a, f) = (e.r.a, e.r.f);
    vensure!(tri.semimajor_axis() == a && tri.flattening() == f && tri.semimedian_axis() == a, "triaxial-differs",
        "'{name}': TriaxialEllipsoid a={:?} ay={:?} f={:?} vs Ellipsoid a={a:?} f={f:?}", tri.semimajor_axis(), tri.semimedian_axis(), tri.flattening());
    // the texts of the table are plain numbers and are what the constructor delivers
    for (what, t) in [("a", entry.1), ("ay", entry.2), ("rf", entry.3)] {
        vensure!(t.parse::<f64>().is_ok(), "table-text-unparsable", "'{name}': {what} text {t:?} of the built-in table is not a number");
    }
    let (ta, trf): (f64, f64) = (entry.1.parse().unwrap(), entry.3.parse().unwrap());
    vensure!(a == ta && ((trf == 0.0 && f == 0.0) || f == 1.0 / trf), "table-misread", "'{name}': constructor gives a={a:?} f={f:?}, table texts are a={ta:?} rf={trf:?}");
    // published values
    let Some((pa, prf, tol_rf)) = publ else {
        vfail!("table-entry-without-reference", "built-in ellipsoid '{name}' (a={a:?}, rf={trf:?}) is not in the harness reference list: extend PUBLISHED");
    };
    let tol_a = 5e-5f64.min(1e-9 * pa);
    vensure!((a - pa).abs() <= tol_a, "published-a", "'{name}': semi-major axis {a:?}, published {pa:?} (tolerance {tol_a:e} m)");
    if prf == 0.0 {
        vensure!(f == 0.0, "published-rf", "'{name}': published as a sphere, library flattening {f:?}");
    } else {
        let rf = 1.0 / f;
        vensure!((rf - prf).abs() <= tol_rf, "published-rf", "'{name}': reciprocal flattening {rf:?}, published {prf:?} (tolerance {tol_rf:e})");
        rec.metric("worst |1/f - published| / tolerance", (rf - prf).abs() / tol_rf);
    }
    let mut w = W::default();
    check_derived(&e, &mut w)?;
    let lats: Vec<f64> = (-18..=18).map(|i| (i as f64 * 5.0f64).to_radians()).collect();
    check_curvature(&e, &lats, &mut w)?;
    w.flush(rec);
    rec.class(if f == 0.0 { "sphere" } else if matches!(PUBLISHED.iter().find(|p| p.0 == name).map(|p| p.2), Some(Shape::B(_))) { "published through b" } else { "published through rf" });
    if name != "GRS80" {
        rec.nontrivial(name);
    }
    Ok(())
}

// ---- ground metric --------------------------------------------------------------------------

/// distance in metres between two nearby geographic positions (lon, lat, h), radians
fn ground(r: &El, p: [f64; 3], q: [f64; 3]) -> f64 {
    let dn = (q[1] - p[1]) * (r.m(p[1]) + p[2]);
    let de = wrap_pi(q[0] - p[0]) * (r.n(p[1]) + p[2]) * p[1].cos();
    let du = q[2] - p[2];
    (dn * dn + de * de + du * du).sqrt()
}

/// straight-line distance between two points on the ellipsoid (lon, lat): no polar singularity
fn chord(r: &El, p: (f64, f64), q: (f64, f64)) -> f64 {
    let (a, b) = (r.cartesian(p.0, p.1, 0.0), r.cartesian(q.0, q.1, 0.0));
    ((a[0] - b[0]).powi(2) + (a[1] - b[1]).powi(2) + (a[2] - b[2]).powi(2)).sqrt()
}

fn lat_class(phi: f64) -> &'static str {
    let d = FRAC_PI_2 - phi.abs();
    if d == 0.0 {
        "lat: pole"
    } else if phi == 0.0 {
        "lat: equator"
    } else if d < 1e-3 {
        "lat: within 1e-3 rad of a pole"
    } else if phi.abs() < 1e-3 {
        "lat: within 1e-3 rad of the equator"
    } else {
        "lat: generic"
    }
}

fn ell_class(e: &Ell) -> &'static str {
    match (&e.name, e.rf.0) {
        (Some(_), _) => "ellipsoid: table entry",
        (None, rf) if rf == 0.0 => "ellipsoid: random sphere",
        (None, rf) if rf < 200.0 => "ellipsoid: random, 150 <= 1/f < 200",
        (None, rf) if rf < 1000.0 => "ellipsoid: random, 200 <= 1/f < 1000",
        _ => "ellipsoid: random, 1/f >= 1000",
    }
}

// ---- section: cartesian ---------------------------------------------------------------------

/// points are (lon rad, lat rad, h in metres for an Earth-sized ellipsoid: scaled by a/a_GRS80)
#[derive(Clone, Debug, Serialize, Deserialize)]
struct CartCase {
    ell: Ell,
    pts: Vec<[F; 3]>,
}

fn instantiate(ctx: &mut Minimal, def: &str) -> Result<OpHandle, Failure> {
    match try_op(ctx, def) {
        Err(p) => vfail!(format!("panic-instantiate@{}", p.sig()), "'{def}' panics: {} at {}:{}", p.msg, p.file, p.line),
        Ok(Err(err)) => vfail!("operator-rejected", "'{def}' rejected: {err:?}"),
        Ok(Ok(op)) => Ok(op),
    }
}

fn apply(ctx: &Minimal, op: OpHandle, fwd: bool, def: &str, data: &mut Vec<Coor4D>) -> Result<usize, Failure> {
    let dir = if fwd { "forward" } else { "inverse" };
    match try_apply(ctx, op, dir_of(fwd), data) {
        Err(p) => vfail!(format!("panic-apply@{}", p.sig()), "'{def}' ({dir}) panics: {} at {}:{}", p.msg, p.file, p.line),
        Ok(Err(err)) => vfail!("apply-error", "'{def}' ({dir}) returns {err:?}"),
        Ok(Ok(n)) => Ok(n),
    }
}

fn check_cart(c: &CartCase, rec: &mut Rec) -> CaseResult {
    let e = resolve(&c.ell)?;
    let mut w = W::default();
    let um = 1e-6 * e.sc.min(1.0);
    let (a, b) = (e.r.a, e.r.b());
    let geo: Vec<Coor4D> = c.pts.iter().map(|p| Coor4D::raw(p[0].0, p[1].0, p[2].0 * e.sc, 2020.0)).collect();

    // trait methods: cartesian against the defining formulas, closed-form inverse
    let mut xyz: Vec<Coor4D> = Vec::with_capacity(geo.len());
    for g in &geo {
        let x = match guard(|| e.lib.cartesian(g)) {
            Ok(x) => x,
            Err(p) => vfail!(format!("panic-cartesian@{}", p.sig()), "{}.cartesian({}) panics: {}", e.label, fmt_c4(g), p.msg),
        };
        let want = e.r.cartesian(g[0], g[1], g[2]);
        let d = ((x[0] - want[0]).powi(2) + (x[1] - want[1]).powi(2) + (x[2] - want[2]).powi(2)).sqrt();
        let tol = 16.0 * EPS * (a + g[2].abs());
        if w.over("cartesian vs defining formula (m)", d, tol) || !(x[3] == 2020.0) {
            vfail!("cartesian-definition", "{}.cartesian({}) = {}, defining formula (N+h)cos.. gives {want:?} (tolerance {tol:e} m, t must be kept)", e.label, fmt_c4(g), fmt_c4(&x));
        }
        if g[2] == 0.0 {
            let q = (x[0] * x[0] + x[1] * x[1]) / (a * a) + x[2] * x[2] / (b * b) - 1.0;
            if w.over("ellipsoid equation residual at h=0", q.abs(), 1e-12) {
                vfail!("ellipsoid-equation", "{}.cartesian({}) = {}: X2/a2+Y2/a2+Z2/b2-1 = {q:e} (tolerance 1e-12)", e.label, fmt_c4(g), fmt_c4(&x));
            }
        }
        xyz.push(x);
    }
    for (g, x) in geo.iter().zip(&xyz) {
        let back = match guard(|| e.lib.geographic(x)) {
            Ok(v) => v,
            Err(p) => vfail!(format!("panic-geographic@{}", p.sig()), "{}.geographic({}) panics: {}", e.label, fmt_c4(x), p.msg),
        };
        let d = ground(&e.r, [g[0], g[1], g[2]], [back[0], back[1], back[2]]);
        let near = (-10_000.0..=100_000.0).contains(&(g[2] / e.sc));
        // above 100 km the single-step method degrades as 0.36 a f^3 h/a (measured); no figure is stated there
        let (name, tol) = if near { ("geographic(cartesian()) -10..100 km (m)", 1e-2 * e.sc.min(1.0)) } else { ("geographic(cartesian()) 100 km..1e7 m (m)", 1e-2 * e.sc.min(1.0) + 2.0 * e.r.f.powi(3) * g[2].abs()) };
        if w.over(name, d, tol) {
            vfail!(if near { "closed-form-roundtrip" } else { "closed-form-roundtrip-high" }, "{}: geographic(cartesian({})) = {}: {d:e} m off (tolerance {tol:e} m)", e.label, fmt_c4(g), fmt_c4(&back));
        }
    }

    // points exactly on the rotation axis (cartesian() of a pole is 4e-10 m off it): the polar branches
    let h0 = geo.first().map(|g| g[2]).unwrap_or(0.0);
    let axis = [Coor4D::raw(0.0, 0.0, b + h0, 2020.0), Coor4D::raw(0.0, 0.0, -(b + h0), 2020.0)];
    let mut axis_results = vec![];
    for x in &axis {
        match guard(|| e.lib.geographic(x)) {
            Ok(v) => axis_results.push(("geographic()", v)),
            Err(p) => vfail!(format!("panic-geographic@{}", p.sig()), "{}.geographic({}) panics: {}", e.label, fmt_c4(x), p.msg),
        }
    }
    if let Some(text) = &e.text {
        let def = format!("cart ellps={text}");
        let mut ctx = Minimal::new();
        let op = instantiate(&mut ctx, &def)?;
        let mut data = axis.to_vec();
        apply(&ctx, op, false, &def, &mut data)?;
        axis_results.extend(data.into_iter().map(|d| ("cart inverse", d)));
    }
    for (i, (what, v)) in axis_results.iter().enumerate() {
        let want = FRAC_PI_2.copysign(axis[i % 2][2]);
        let d = ((v[1] - want).abs() * (a + h0.abs())).max((v[2] - h0).abs());
        if w.over("on-axis point (m)", d, um) || !(v[3] == 2020.0) {
            vfail!("cart-on-axis", "{}: {what} of the on-axis point {} gives {}, expected latitude {want:?} and height {h0:?}", e.label, fmt_c4(&axis[i % 2]), fmt_c4(v));
        }
    }

    // the operator
    if let Some(text) = &e.text {
        let def = format!("cart ellps={text}");
        let mut ctx = Minimal::new();
        let op = instantiate(&mut ctx, &def)?;
        let mut data = geo.clone();
        apply(&ctx, op, true, &def, &mut data)?;
        for ((g, x), d) in geo.iter().zip(&xyz).zip(&data) {
            let dd = ((x[0] - d[0]).powi(2) + (x[1] - d[1]).powi(2) + (x[2] - d[2]).powi(2)).sqrt();
            let tol = 16.0 * EPS * (a + g[2].abs());
            if w.over("cart operator vs cartesian() (m)", dd, tol) {
                vfail!("cart-operator-forward", "'{def}' on {} gives {}, Ellipsoid::cartesian gives {}", fmt_c4(g), fmt_c4(d), fmt_c4(x));
            }
        }
        apply(&ctx, op, false, &def, &mut data)?;
        for (g, d) in geo.iter().zip(&data) {
            let dist = ground(&e.r, [g[0], g[1], g[2]], [d[0], d[1], d[2]]);
            let near = (-10_000.0..=100_000.0).contains(&(g[2] / e.sc));
            // above 100 km the operator's error grows as 0.3 a f^4 (h/a)^2 (measured; 0.4 mm for GRS80 at 1e7 m)
            let (name, tol) = if near { ("cart round trip -10..100 km (m)", um) } else { ("cart round trip 100 km..1e7 m (m)", um + 1.5 * a * e.r.f.powi(4) * (g[2] / a).powi(2)) };
            if w.over(name, dist, tol) || !(d[3] == 2020.0) {
                vfail!(if near { "cart-roundtrip" } else { "cart-roundtrip-high" }, "'{def}': inverse(forward({})) = {}: {dist:e} m off (tolerance {tol:e} m; t must be kept)", fmt_c4(g), fmt_c4(d));
            }
        }
        rec.count("operator evaluations", 2 * geo.len() as u64);
    } else {
        rec.count("points without operator form (sphere from numbers)", geo.len() as u64);
    }
    w.flush(rec);
    rec.class(ell_class(&c.ell));
    for g in &geo {
        rec.class(lat_class(g[1]));
        let h = g[2] / e.sc;
        rec.class(if h == 0.0 { "h: 0" } else if h < 0.0 { "h: negative" } else if h <= 100_000.0 { "h: up to 100 km" } else { "h: 100 km .. 1e7 m" });
        if g[1] != 0.0 && g[1].abs() != FRAC_PI_2 || e.label != "GRS80" {
            rec.nontrivial(&(&e.label, (g[0] * 1e4) as i64, (g[1] * 1e6) as i64, (g[2] * 10.0) as i64));
        }
    }
    rec.count("points", geo.len() as u64);
    Ok(())
}

// ---- section: auxiliary latitudes -------------------------------------------------------------

const KINDS: [&str; 6] = ["geocentric", "reduced", "conformal", "authalic", "rectifying", "isometric"];

struct Aux {
    fc: [geodesy::authoring::FourierCoefficients; 3], // conformal, authalic, rectifying
}

impl Aux {
    fn new(e: &E) -> Aux {
        Aux {
            fc: [
                e.lib.coefficients_for_conformal_latitude_computations(),
                e.lib.coefficients_for_authalic_latitude_computations(),
                e.lib.coefficients_for_rectifying_latitude_computations(),
            ],
        }
    }
    fn fwd(&self, e: &E, k: usize, phi: f64) -> f64 {
        match k {
            0 => e.lib.latitude_geographic_to_geocentric(phi),
            1 => e.lib.latitude_geographic_to_reduced(phi),
            2 => e.lib.latitude_geographic_to_conformal(phi, &self.fc[0]),
            3 => e.lib.latitude_geographic_to_authalic(phi, &self.fc[1]),
            4 => e.lib.latitude_geographic_to_rectifying(phi, &self.fc[2]),
            _ => e.lib.latitude_geographic_to_isometric(phi),
        }
    }
    fn inv(&self, e: &E, k: usize, x: f64) -> f64 {
        match k {
            0 => e.lib.latitude_geocentric_to_geographic(x),
            1 => e.lib.latitude_reduced_to_geographic(x),
            2 => e.lib.latitude_conformal_to_geographic(x, &self.fc[0]),
            3 => e.lib.latitude_authalic_to_geographic(x, &self.fc[1]),
            4 => e.lib.latitude_rectifying_to_geographic(x, &self.fc[2]),
            _ => e.lib.latitude_isometric_to_geographic(x),
        }
    }
}

/// closed-form definitions (refmath, validated in selftest)
fn aux_reference(r: &El, k: usize, phi: f64) -> f64 {
    match k {
        0 => r.geocentric(phi),
        1 => r.reduced(phi),
        2 => r.conformal(phi),
        3 => r.authalic(phi),
        4 => r.rectifying(phi),
        // asinh(tan) instead of refmath's atanh(sin), which loses eps/(1-sin) near the poles
        _ => phi.tan().asinh() - r.e() * (r.e() * phi.sin()).atanh(),
    }
}

#[derive(Clone, Debug, Serialize, Deserialize)]
struct LatCase {
    ell: Ell,
    lats: Vec<F>,
}

/// `scale`: the library's "rectifying latitude" is the true one times the normalised meridian
/// arc unit (registered finding, section rectifying-definition); here it is checked modulo that
/// factor so that every other law stays observable.
fn check_latitudes(c: &LatCase, rec: &mut Rec) -> CaseResult {
    let e = resolve(&c.ell)?;
    let mut w = W::default();
    let aux = match guard(|| Aux::new(&e)) {
        Ok(a) => a,
        Err(p) => vfail!(format!("panic-coefficients@{}", p.sig()), "{}: coefficient set-up panics: {}", e.label, p.msg),
    };
    let qn = e.r.meridian_quadrant() / (e.r.a * FRAC_PI_2);
    const STEP: f64 = 1e-6;
    for k in 0..6 {
        let kind = KINDS[k];
        // the factor that the library applies on top of the defined latitude (1 except rectifying)
        let s = if k == 4 { qn } else { 1.0 };
        let f = |phi: f64| aux.fwd(&e, k, phi);
        let g = |x: f64| aux.inv(&e, k, x);
        // fixed points
        let (f0, g0) = (f(0.0), g(0.0));
        vensure!((f0.abs() <= 1e-15 && g0.abs() <= 1e-15), format!("latitude-{kind}-zero"), "{}: {kind} latitude of 0 is {f0:?}, inverse of 0 is {g0:?} (expected 0)", e.label);
        if k != 5 {
            for sg in [1.0, -1.0] {
                let (fp, gp) = (f(sg * FRAC_PI_2), g(sg * FRAC_PI_2 * s));
                if w.over("pole not fixed (rad)", (fp / s - sg * FRAC_PI_2).abs().max((gp - sg * FRAC_PI_2).abs()), 1e-12) {
                    vfail!(format!("latitude-{kind}-pole"), "{}: {kind} latitude of {:?} is {fp:?} (scale {s:?} removed: {:?}), inverse of the pole value gives {gp:?}; expected the pole, tolerance 1e-12", e.label, sg * FRAC_PI_2, fp / s);
                }
            }
        }
        for phi in c.lats.iter().map(|p| p.0) {
            let x = f(phi);
            vensure!(x.is_finite() || (k == 5 && phi.abs() == FRAC_PI_2), format!("latitude-{kind}-not-finite"), "{}: {kind} latitude of {phi:?} is {x:?}", e.label);
            // odd
            let xm = f(-phi);
            if w.over("oddness defect (rad)", (x + xm).abs(), 4.0 * EPS * x.abs().max(1.0)) {
                vfail!(format!("latitude-{kind}-odd"), "{}: {kind} latitude of {phi:?} is {x:?} but of {:?} is {xm:?}", e.label, -phi);
            }
            // strictly increasing, forward and inverse
            let phi2 = phi + STEP;
            if phi2 <= FRAC_PI_2 {
                let x2 = f(phi2);
                vensure!(x2 > x, format!("latitude-{kind}-monotone"), "{}: {kind} latitude not increasing: f({phi:?}) = {x:?}, f({phi2:?}) = {x2:?}", e.label);
                if k != 5 {
                    let (y, y2) = (g(phi * s), g(phi2 * s));
                    vensure!(y2 > y, format!("latitude-{kind}-inverse-monotone"), "{}: inverse {kind} latitude not increasing: g({:?}) = {y:?}, g({:?}) = {y2:?}", e.label, phi * s, phi2 * s);
                }
            }
            // round trips
            let back = g(x);
            if w.over("round trip inv(fwd(phi)) (rad)", (back - phi).abs(), 1e-12) {
                vfail!(format!("latitude-{kind}-roundtrip"), "{}: {kind}: phi={phi:?} -> {x:?} -> {back:?}: {:e} rad off (tolerance 1e-12)", e.label, (back - phi).abs());
            }
            if k != 5 {
                let x0 = phi * s; // any value in the range is an auxiliary latitude
                let there = f(g(x0));
                if w.over("round trip fwd(inv(x)) (rad)", (there - x0).abs(), 1e-12) {
                    vfail!(format!("latitude-{kind}-roundtrip"), "{}: {kind}: aux={x0:?} -> {:?} -> {there:?}: {:e} rad off (tolerance 1e-12)", e.label, g(x0), (there - x0).abs());
                }
            }
            // closed form definition, away from the poles where asin/atanh lose their footing
            if phi.abs() <= 89.9f64.to_radians() {
                let want = aux_reference(&e.r, k, phi);
                // calibrated (worst observed x 10) and never looser than 1e-11
                let tol = [1e-14, 1e-14, 1e-12, 2e-12, 1e-13, 1e-14 * want.abs().max(1.0)][k];
                let name = ["geocentric vs closed form (rad)", "reduced vs closed form (rad)", "conformal vs closed form (rad)", "authalic vs closed form (rad)", "rectifying/Qn vs quadrature (rad)", "isometric vs closed form"][k];
                if w.over(name, (x / s - want).abs(), tol) {
                    vfail!(format!("latitude-{kind}-closed-form"), "{}: {kind} latitude of {phi:?} is {x:?} (scale {s:?} removed: {:?}), closed-form definition gives {want:?} (tolerance {tol:e})", e.label, x / s);
                }
            }
        }
    }
    rec.count("excluded_known: rectifying latitude compared modulo the factor Qn", c.lats.len() as u64);

    // the operator: same numbers as the trait methods
    if let Some(text) = &e.text {
        let mut ctx = Minimal::new();
        for (flag, k) in [("geocentric", 0), ("reduced", 1), ("parametric", 1), ("conformal", 2), ("authalic", 3), ("rectifying", 4)] {
            let def = format!("latitude {flag} ellps={text}");
            let op = instantiate(&mut ctx, &def)?;
            let input: Vec<Coor4D> = c.lats.iter().map(|p| Coor4D::raw(0.5, p.0, 7.0, 8.0)).collect();
            for dir in [true, false] {
                let mut data = input.clone();
                apply(&ctx, op, dir, &def, &mut data)?;
                for (i, d) in input.iter().zip(&data) {
                    let want = if dir { aux.fwd(&e, k, i[1]) } else { aux.inv(&e, k, i[1]) };
                    let got = d[1];
                    if w.over("latitude operator vs trait method (rad)", (got - want).abs(), 4.0 * EPS * want.abs().max(1.0)) || d[0] != 0.5 || d[2] != 7.0 || d[3] != 8.0 {
                        vfail!("latitude-operator", "'{def}' ({}) on lat {:?} gives {}, trait method gives {want:?} (other elements must be kept)", if dir { "forward" } else { "inverse" }, i[1], fmt_c4(d));
                    }
                }
            }
        }
        rec.count("operator evaluations", 12 * c.lats.len() as u64);
    }
    w.flush(rec);
    rec.class(ell_class(&c.ell));
    for p in &c.lats {
        rec.class(lat_class(p.0));
        if (p.0 != 0.0 && p.0.abs() != FRAC_PI_2) || e.label != "GRS80" {
            rec.nontrivial(&(&e.label, p.0.to_bits()));
        }
    }
    rec.count("latitude x kind evaluations", 6 * c.lats.len() as u64);
    Ok(())
}

/// The rectifying latitude by its definition mu = (pi/2) M(phi)/M(pi/2): fixes the poles.
fn check_rectifying_definition(c: &LatCase, rec: &mut Rec) -> CaseResult {
    let e = resolve(&c.ell)?;
    let fc = e.lib.coefficients_for_rectifying_latitude_computations();
    let qn = e.r.meridian_quadrant() / (e.r.a * FRAC_PI_2);
    rec.class(ell_class(&c.ell));
    for phi in c.lats.iter().map(|p| p.0) {
        rec.nontrivial(&(&e.label, phi.to_bits()));
        let got = e.lib.latitude_geographic_to_rectifying(phi, &fc);
        let want = e.r.rectifying(phi);
        let tol = 1e-11;
        if (got - want).abs() > tol {
            if e.r.f > 0.0 && (got / qn - want).abs() <= tol {
                vfail!("rectifying-scaled-by-Qn", "{}: latitude_geographic_to_rectifying({phi:?}) = {got:?}; the rectifying latitude (pi/2)*M(phi)/M(pi/2) is {want:?}; the library value is that times the normalised meridian arc unit Qn = {qn:?} (pole maps to {:?} instead of pi/2)", e.label, qn * FRAC_PI_2);
            }
            vfail!("latitude-rectifying-closed-form", "{}: latitude_geographic_to_rectifying({phi:?}) = {got:?}, definition gives {want:?} (tolerance {tol:e})", e.label);
        }
        let back = e.lib.latitude_rectifying_to_geographic(want, &fc);
        vensure!((back - phi).abs() <= tol, "rectifying-scaled-by-Qn", "{}: latitude_rectifying_to_geographic({want:?}) = {back:?}, expected {phi:?}", e.label);
    }
    Ok(())
}

// ---- section: meridian arc ------------------------------------------------------------------------

fn check_meridian(c: &LatCase, rec: &mut Rec) -> CaseResult {
    let e = resolve(&c.ell)?;
    let mut w = W::default();
    let (a, n4) = (e.r.a, e.n.powi(4));
    let q = e.r.meridian_quadrant();
    // Bowring's formulas are of order n^4: tolerances c*n^4 (+ rounding floor)
    // (measured: 0.12 a n^4 against quadrature, 1.1 n^4 rad and 1.1 a n^4 round trip)
    let tol_m = 0.6 * a * n4 + 64.0 * EPS * a;
    let tol_rad = 4.0 * n4 + 64.0 * EPS;
    let d = |phi: f64| e.lib.meridian_latitude_to_distance(phi);
    let l = |m: f64| e.lib.meridian_distance_to_latitude(m);
    vensure!((d(0.0).abs() <= 1e-9 * e.sc && l(0.0).abs() <= 1e-15), "meridian-zero", "{}: distance(0) = {:?}, latitude(0) = {:?}", e.label, d(0.0), l(0.0));
    for sg in [1.0, -1.0] {
        let (dp, lp) = (d(sg * FRAC_PI_2), l(sg * q));
        if w.over("pole <-> quadrant (m)", (dp - sg * q).abs().max((lp - sg * FRAC_PI_2).abs() * a), 64.0 * EPS * a) {
            vfail!("meridian-pole", "{}: distance({:?}) = {dp:?} (quadrant by quadrature {:?}); latitude(quadrant) = {lp:?}", e.label, sg * FRAC_PI_2, sg * q);
        }
    }
    for phi in c.lats.iter().map(|p| p.0) {
        let m = d(phi);
        let want = e.r.meridian_arc(phi);
        if w.over("distance vs quadrature (m)", (m - want).abs(), tol_m) {
            vfail!("meridian-distance-quadrature", "{}: meridian_latitude_to_distance({phi:?}) = {m:?}, quadrature of M gives {want:?} (tolerance 0.6 a n^4 = {tol_m:e} m)", e.label);
        }
        let mm = d(-phi);
        vensure!((m + mm).abs() <= 8.0 * EPS * a, "meridian-odd", "{}: distance({phi:?}) = {m:?}, distance({:?}) = {mm:?}", e.label, -phi);
        let back = l(m);
        if w.over("latitude(distance(phi)) (rad)", (back - phi).abs(), tol_rad) {
            vfail!("meridian-roundtrip", "{}: phi={phi:?} -> {m:?} m -> {back:?}: {:e} rad off (tolerance 4 n^4 = {tol_rad:e})", e.label, (back - phi).abs());
        }
        let lat = l(want);
        if w.over("latitude vs quadrature (rad)", (lat - phi).abs(), tol_rad) {
            vfail!("meridian-latitude-quadrature", "{}: meridian_distance_to_latitude({want:?}) = {lat:?}, expected {phi:?} (tolerance {tol_rad:e})", e.label);
        }
        let there = d(lat);
        if w.over("distance(latitude(m)) (m)", (there - want).abs(), tol_rad * a) {
            vfail!("meridian-roundtrip", "{}: m={want:?} -> {lat:?} rad -> {there:?} m: {:e} m off (tolerance {:e})", e.label, (there - want).abs(), tol_rad * a);
        }
        let phi2 = phi + 1e-6;
        if phi2 <= FRAC_PI_2 {
            vensure!(d(phi2) > m, "meridian-monotone", "{}: distance not increasing at {phi:?}", e.label);
        }
    }
    w.flush(rec);
    rec.class(ell_class(&c.ell));
    for p in &c.lats {
        rec.class(lat_class(p.0));
        if (p.0 != 0.0 && p.0.abs() != FRAC_PI_2) || e.label != "GRS80" {
            rec.nontrivial(&(&e.label, p.0.to_bits()));
        }
    }
    rec.count("latitudes", c.lats.len() as u64);
    Ok(())
}

// ---- section: geodesics -------------------------------------------------------------------------

/// kind 0: direct problem data (lon1, lat1, azimuth p, distance q in metres on an Earth-sized body)
/// kind 1: meridional pair (lon1, lat1, lat2 = p; q = 0 same meridian, q = 1 opposite meridian over the nearer pole)
/// kind 2: equatorial (lon1, lat1 = 0 or tiny, p = +-1 direction, q = longitude difference in rad)
/// kind 3: end points on opposite meridians, all four numbers in DEGREES as a user spells them:
///         (lon1, lat1, lat2 = p, lon2 = q) with lon2 - lon1 = +-180 (+-360): meridian arc over the nearer pole
#[derive(Clone, Debug, Serialize, Deserialize)]
struct Line {
    kind: u8,
    lon1: F,
    lat1: F,
    p: F,
    q: F,
}

#[derive(Clone, Debug, Serialize, Deserialize)]
struct GeoCase {
    ell: Ell,
    lines: Vec<Line>,
}

/// Largest distance/a generated: 19 000 km on the Earth. Everything beyond (and with it the
/// documented near-antipodal non-convergence zone of Vincenty's method) is outside the domain.
const SIGMA_MAX: f64 = 19.0e6 / A_EARTH;

type V3 = [f64; 3];
fn dot(a: &V3, b: &V3) -> f64 {
    a[0] * b[0] + a[1] * b[1] + a[2] * b[2]
}
fn cross(a: &V3, b: &V3) -> V3 {
    [a[1] * b[2] - a[2] * b[1], a[2] * b[0] - a[0] * b[2], a[0] * b[1] - a[1] * b[0]]
}
fn frame(lon: f64, lat: f64) -> (V3, V3, V3) {
    let (sl, cl) = lon.sin_cos();
    let (sp, cp) = lat.sin_cos();
    ([cp * cl, cp * sl, sp], [-sp * cl, -sp * sl, cp], [-sl, cl, 0.0]) // position, north, east
}
/// Great circle, direct problem, by vector algebra (well conditioned everywhere): (lon2, lat2, forward azimuth at 2)
fn sphere_direct(lon1: f64, lat1: f64, az: f64, sigma: f64) -> (f64, f64, f64) {
    let (p, n, e) = frame(lon1, lat1);
    let (sa, ca) = az.sin_cos();
    let (ss, cs) = sigma.sin_cos();
    let t: V3 = [n[0] * ca + e[0] * sa, n[1] * ca + e[1] * sa, n[2] * ca + e[2] * sa];
    let p2: V3 = [p[0] * cs + t[0] * ss, p[1] * cs + t[1] * ss, p[2] * cs + t[2] * ss];
    let t2: V3 = [-p[0] * ss + t[0] * cs, -p[1] * ss + t[1] * cs, -p[2] * ss + t[2] * cs];
    let lat2 = p2[2].atan2(p2[0].hypot(p2[1]));
    let lon2 = p2[1].atan2(p2[0]);
    let (_, n2, e2) = frame(lon2, lat2);
    (lon2, lat2, dot(&t2, &e2).atan2(dot(&t2, &n2)))
}
/// Great circle, inverse problem: (azimuth at 1, forward azimuth at 2, angular distance)
fn sphere_inverse(lon1: f64, lat1: f64, lon2: f64, lat2: f64) -> (f64, f64, f64) {
    let (p1, n1, e1) = frame(lon1, lat1);
    let (p2, n2, e2) = frame(lon2, lat2);
    let c = cross(&p1, &p2);
    let sigma = dot(&c, &c).sqrt().atan2(dot(&p1, &p2));
    let a1 = dot(&p2, &e1).atan2(dot(&p2, &n1));
    // direction of travel at 2 is minus the direction towards 1
    let a2 = (-dot(&p1, &e2)).atan2(-dot(&p1, &n2));
    (a1, a2, sigma)
}

fn c2(lon: f64, lat: f64) -> Coor2D {
    Coor2D::raw(lon, lat)
}

struct Geod<'a> {
    e: &'a E,
}
impl Geod<'_> {
    /// (lon2, lat2, forward azimuth at 2)
    fn fwd(&self, lon: f64, lat: f64, az: f64, s: f64, what: &str) -> Result<[f64; 3], Failure> {
        let r = match guard(|| self.e.lib.geodesic_fwd(&c2(lon, lat), az, s)) {
            Ok(r) => r,
            Err(p) => vfail!(format!("panic-geodesic_fwd@{}", p.sig()), "{}.geodesic_fwd(({lon:?}, {lat:?}), {az:?}, {s:?}) panics: {}", self.e.label, p.msg),
        };
        vensure!(r.0.iter().all(|v| v.is_finite()), "geodesic-fwd-not-finite", "{} [{what}]: geodesic_fwd(({lon:?}, {lat:?}), az={az:?}, s={s:?}) = {}", self.e.label, fmt_c4(&r));
        vensure!(r[3] < 990.0, "geodesic-fwd-no-convergence", "{} [{what}]: geodesic_fwd(({lon:?}, {lat:?}), az={az:?}, s={s:?}) used {} iterations", self.e.label, r[3]);
        Ok([r[0], r[1], r[2]])
    }
    /// (azimuth at 1, forward azimuth at 2, distance)
    fn inv(&self, p1: (f64, f64), p2: (f64, f64), what: &str) -> Result<[f64; 3], Failure> {
        let r = match guard(|| self.e.lib.geodesic_inv(&c2(p1.0, p1.1), &c2(p2.0, p2.1))) {
            Ok(r) => r,
            Err(p) => vfail!(format!("panic-geodesic_inv@{}", p.sig()), "{}.geodesic_inv({p1:?}, {p2:?}) panics: {}", self.e.label, p.msg),
        };
        if !r.0.iter().all(|v| v.is_finite()) {
            let equatorial = p1.1.abs() < 1e-7 && p2.1.abs() < 1e-7;
            vfail!(if equatorial { "geodesic-inv-equatorial-nan" } else { "geodesic-inv-not-finite" },
                "{} [{what}]: geodesic_inv({p1:?}, {p2:?}) = {} (lon, lat in rad){}", self.e.label, fmt_c4(&r),
                if equatorial { ": both points on the equator, expected distance a*dlon, azimuths +-pi/2" } else { "" });
        }
        vensure!(r[3] < 990.0, "geodesic-inv-no-convergence", "{} [{what}]: geodesic_inv({p1:?}, {p2:?}) used {} iterations", self.e.label, r[3]);
        Ok([r[0], r[1], r[2]])
    }
}

fn check_geodesics(c: &GeoCase, rec: &mut Rec) -> CaseResult {
    let e = resolve(&c.ell)?;
    let mut w = W::default();
    let g = Geod { e: &e };
    let a = e.r.a;
    let n4 = e.n.powi(4);
    // consistency of the inverse solution: its longitude iteration stops at 1e-12 rad and the
    // distance is taken from the last but one iterate: up to 1e-12 a = 6.4 um (measured 6.9 um)
    let tol_c = 5e-5 * e.sc;
    // pure rounding (sphere: no iteration; direct problem: converged to 1e-13 x 1e-3)
    let tol_r = 5e-7 * e.sc;
    // against quadrature: Vincenty's series are of order n^4 (measured 0.086 a n^4, 0.13 n^4 s for short lines)
    let tol_ref = |s: f64| 2e-7 * e.sc + 0.6 * n4 * s.min(a);
    let mut op_in: Vec<Coor4D> = vec![];
    // (lat1, lon1, az, s) deg/m, trait results (lon2, lat2, az2), (az1, az2, s), reduced length, cross-track tolerance
    let mut op_lines: Vec<([f64; 4], [f64; 3], [f64; 3], f64, f64)> = vec![];
    // over-the-pole pairs for the operator: (lat1, lon1, lat2, lon2) deg, expected (az1, az2 rad, s), tolerance, latitudes
    let mut op_pairs: Vec<([f64; 4], [f64; 3], f64, (f64, f64))> = vec![];
    for (i, ln) in c.lines.iter().enumerate() {
        let (lon1, lat1) = if ln.kind == 3 { (ln.lon1.0.to_radians(), ln.lat1.0.to_radians()) } else { (ln.lon1.0, ln.lat1.0) };
        // conditioning of azimuths: the meridian direction turns by d/(a cos lat) when the point moves by d
        let cond = |lat: f64| 1.0 / lat.cos().abs().max(1e-300);
        rec.class(lat_class(lat1));
        if lat1 != 0.0 && lat1.abs() != FRAC_PI_2 || e.label != "GRS80" {
            rec.nontrivial(&(&e.label, ln.kind, lon1.to_bits(), lat1.to_bits(), ln.p.0.to_bits(), ln.q.0.to_bits()));
        }
        match ln.kind {
            0 => {
                let (az, s) = (ln.p.0, ln.q.0 * e.sc);
                let sigma = s / a;
                let what = format!("line {i}: direct az={az:?} s={s:?}");
                let p2 = g.fwd(lon1, lat1, az, s, &what)?;
                let iv = g.inv((lon1, lat1), (p2[0], p2[1]), &what)?;
                // reduced length (cross-track metres per radian of azimuth), generously
                let m12 = a * (sigma.sin().abs() + 0.05 * sigma);
                let pole_term = 8.0 * EPS * a * (cond(lat1) + cond(p2[1])).min(1e30) * (sigma.sin().abs() + 0.05 * sigma);
                let tol_x = tol_c + pole_term;
                if w.over("direct -> inverse: distance (m)", (iv[2] - s).abs(), tol_c) {
                    vfail!("geodesic-direct-inverse-distance", "{} [{what}] from ({lon1:?}, {lat1:?}): arrives at ({:?}, {:?}); inverse gives s={:?}: {:e} m off (tolerance {tol_c:e})", e.label, p2[0], p2[1], iv[2], (iv[2] - s).abs());
                }
                if w.over("direct -> inverse: azimuth at start x reduced length (m)", wrap_pi(iv[0] - az).abs() * m12, tol_x) {
                    vfail!("geodesic-direct-inverse-azimuth", "{} [{what}] from ({lon1:?}, {lat1:?}): inverse from the arrival point ({:?}, {:?}) gives azimuth {:?}: {:e} rad off = {:e} m across track (tolerance {tol_x:e})", e.label, p2[0], p2[1], iv[0], wrap_pi(iv[0] - az).abs(), wrap_pi(iv[0] - az).abs() * m12);
                }
                if w.over("direct vs inverse: azimuth at end x reduced length (m)", wrap_pi(iv[1] - p2[2]).abs() * m12, tol_x) {
                    vfail!("geodesic-end-azimuth", "{} [{what}] from ({lon1:?}, {lat1:?}): direct problem gives azimuth {:?} at the end point, inverse problem gives {:?}", e.label, p2[2], iv[1]);
                }
                // symmetry in the end points
                let vi = g.inv((p2[0], p2[1]), (lon1, lat1), &what)?;
                if w.over("inverse symmetry: distance (m)", (vi[2] - iv[2]).abs(), tol_c) {
                    vfail!("geodesic-symmetry-distance", "{} [{what}]: inv(P1,P2) s={:?} but inv(P2,P1) s={:?} for P1=({lon1:?}, {lat1:?}) P2=({:?}, {:?})", e.label, iv[2], vi[2], p2[0], p2[1]);
                }
                let da = wrap_pi(vi[0] - iv[1] - PI).abs().max(wrap_pi(vi[1] - iv[0] - PI).abs());
                if w.over("inverse symmetry: azimuths x reduced length (m)", da * m12, tol_x) {
                    vfail!("geodesic-symmetry-azimuth", "{} [{what}]: inv(P1,P2) azimuths ({:?}, {:?}), inv(P2,P1) azimuths ({:?}, {:?}) are not each other's reverses; P1=({lon1:?}, {lat1:?}) P2=({:?}, {:?})", e.label, iv[0], iv[1], vi[0], vi[1], p2[0], p2[1]);
                }
                // and back: from the end point along the reversed end azimuth
                let home = g.fwd(p2[0], p2[1], p2[2] + PI, s, &what)?;
                let dh = chord(&e.r, (lon1, lat1), (home[0], home[1]));
                if w.over("there and back: position (m)", dh, tol_r + pole_term) {
                    vfail!("geodesic-there-and-back", "{} [{what}] from ({lon1:?}, {lat1:?}) to ({:?}, {:?}) and back along the reversed azimuth {:?} ends at ({:?}, {:?}): {dh:e} m from the start", e.label, p2[0], p2[1], p2[2] + PI, home[0], home[1]);
                }
                // 2 pi periodicity in longitude: the same two points given with the end longitude
                // normalised to (-pi, pi] (raw difference beyond +-pi when the line crosses the
                // antimeridian) or with either longitude shifted by a full turn
                let lon2n = wrap_pi(p2[0]);
                for (l1, l2) in [(lon1, lon2n), (lon1, p2[0] + 2.0 * PI), (lon1, p2[0] - 2.0 * PI), (lon1 + 2.0 * PI, p2[0]), (lon1 - 2.0 * PI, lon2n)] {
                    if l1 == lon1 && l2 == p2[0] {
                        continue;
                    }
                    let wrapped = (l2 - l1).abs() > PI;
                    rec.count(if wrapped { "inverse problems with raw |dlon| > 180 deg" } else { "inverse problems with shifted longitudes, |dlon| <= 180 deg" }, 1);
                    let whatw = format!("{what}; same points as P1=({l1:?}, {lat1:?}) P2=({l2:?}, {:?}), raw dlon={:?}", p2[1], l2 - l1);
                    let v = g.inv((l1, lat1), (l2, p2[1]), &whatw)?;
                    let da = wrap_pi(v[0] - iv[0]).abs().max(wrap_pi(v[1] - iv[1]).abs());
                    if w.over("longitude periodicity: distance (m)", (v[2] - iv[2]).abs(), tol_c) || w.over("longitude periodicity: azimuths x reduced length (m)", da * m12, tol_x) {
                        vfail!("geodesic-longitude-periodicity", "{} [{whatw}]: geodesic_inv gives azimuths ({:?}, {:?}) s={:?}, but for P1=({lon1:?}, {lat1:?}) P2=({:?}, {:?}) (same points, raw dlon={:?}) azimuths ({:?}, {:?}) s={:?}", e.label, v[0], v[1], v[2], p2[0], p2[1], p2[0] - lon1, iv[0], iv[1], iv[2]);
                    }
                    // and with the end points exchanged
                    let vr = g.inv((l2, p2[1]), (l1, lat1), &whatw)?;
                    let da = wrap_pi(vr[0] - vi[0]).abs().max(wrap_pi(vr[1] - vi[1]).abs());
                    if w.over("longitude periodicity: distance (m)", (vr[2] - vi[2]).abs(), tol_c) || w.over("longitude periodicity: azimuths x reduced length (m)", da * m12, tol_x) {
                        vfail!("geodesic-longitude-periodicity", "{} [{whatw}]: geodesic_inv(P2,P1) gives azimuths ({:?}, {:?}) s={:?}, but with the raw longitudes ({:?}, {:?}) s={:?}", e.label, vr[0], vr[1], vr[2], vi[0], vi[1], vi[2]);
                    }
                }
                // the direct problem from a shifted start longitude
                let p2s = g.fwd(lon1 - 2.0 * PI, lat1, az, s, &what)?;
                if w.over("longitude periodicity: direct end point (m)", chord(&e.r, (p2[0], p2[1]), (p2s[0], p2s[1])).max(wrap_pi(p2s[2] - p2[2]).abs() * m12), tol_r + pole_term) {
                    vfail!("geodesic-longitude-periodicity", "{} [{what}]: geodesic_fwd from lon {lon1:?} ends at ({:?}, {:?}) az {:?}, from lon {:?} at ({:?}, {:?}) az {:?}", e.label, p2[0], p2[1], p2[2], lon1 - 2.0 * PI, p2s[0], p2s[1], p2s[2]);
                }
                // sphere: great circle
                if e.r.f == 0.0 {
                    let (rl, rp, ra) = sphere_direct(lon1, lat1, az, sigma);
                    let d = chord(&e.r, (rl, rp), (p2[0], p2[1]));
                    if w.over("sphere: direct vs great circle (m)", d, tol_r / 10.0) {
                        vfail!("sphere-direct-great-circle", "{} [{what}] from ({lon1:?}, {lat1:?}): ({:?}, {:?}), great circle gives ({rl:?}, {rp:?})", e.label, p2[0], p2[1]);
                    }
                    let (r1, r2, rs) = sphere_inverse(lon1, lat1, rl, rp);
                    let got = g.inv((lon1, lat1), (rl, rp), &what)?;
                    let da = wrap_pi(got[0] - r1).abs().max(wrap_pi(got[1] - r2).abs()).max(wrap_pi(p2[2] - ra).abs());
                    if w.over("sphere: inverse distance vs great circle (m)", (got[2] - rs * a).abs(), tol_r / 10.0) || w.over("sphere: azimuths vs great circle x reduced length (m)", da * m12, tol_r + pole_term) {
                        vfail!("sphere-inverse-great-circle", "{}: geodesic_inv(({lon1:?}, {lat1:?}), ({rl:?}, {rp:?})) = {got:?}, great circle gives azimuths ({r1:?}, {r2:?}) distance {:?}", e.label, rs * a);
                    }
                }
                op_in.push(Coor4D::raw(lat1.to_degrees(), lon1.to_degrees(), p2[1].to_degrees(), p2[0].to_degrees()));
                if lon2n != p2[0] {
                    // the antimeridian was crossed: also with the end longitude in (-180, 180]
                    op_in.push(Coor4D::raw(lat1.to_degrees(), lon1.to_degrees(), p2[1].to_degrees(), lon2n.to_degrees()));
                }
                op_lines.push(([lat1, lon1, az, s], p2, iv, m12, tol_x));
                rec.class(if e.r.f == 0.0 { "geodesic: on a sphere" } else if s / e.sc < 10.0 { "geodesic: shorter than 10 m" } else if s / e.sc > 1.0e7 { "geodesic: longer than 10 000 km" } else { "geodesic: generic" });
            }
            1 | 3 => {
                let opposite = ln.kind == 3;
                let lat2 = if opposite { ln.p.0.to_radians() } else { ln.p.0 };
                let over = opposite || ln.q.0 != 0.0;
                let (m1, m2, q) = (e.r.meridian_arc(lat1), e.r.meridian_arc(lat2), e.r.meridian_quadrant());
                let north = lat1 + lat2 >= 0.0;
                let (s, lon2, az) = if !over {
                    ((m2 - m1).abs(), lon1, if lat2 >= lat1 { 0.0 } else { PI })
                } else if north {
                    (2.0 * q - m1 - m2, lon1 + PI, 0.0)
                } else {
                    (2.0 * q + m1 + m2, lon1 + PI, PI)
                };
                let lon2 = if opposite { ln.q.0.to_radians() } else { lon2 };
                let what = if opposite {
                    format!("line {i}: opposite meridians (lat, lon) = ({:?}, {:?}) -> ({:?}, {:?}) deg, meridian arc over the {} pole", ln.lat1.0, ln.lon1.0, ln.p.0, ln.q.0, if north { "north" } else { "south" })
                } else {
                    format!("line {i}: meridional lat2={lat2:?} over the pole: {over}")
                };
                let iv = g.inv((lon1, lat1), (lon2, lat2), &what)?;
                let tol = tol_ref(s);
                if over {
                    // the opposite meridian given in (-pi, pi] and a turn further on
                    for l2 in [wrap_pi(lon2), lon2 - 2.0 * PI, lon2 + 2.0 * PI] {
                        let v = g.inv((lon1, lat1), (l2, lat2), &what)?;
                        if w.over("longitude periodicity: distance (m)", (v[2] - iv[2]).abs(), tol_c) {
                            vfail!("geodesic-longitude-periodicity", "{} [{what}]: geodesic_inv(({lon1:?}, {lat1:?}), ({l2:?}, {lat2:?})) s={:?} but with end longitude {lon2:?} (same point) s={:?}", e.label, v[2], iv[2]);
                        }
                    }
                }
                if w.over("meridional: distance vs quadrature (m)", (iv[2] - s).abs(), tol) {
                    vfail!("geodesic-meridional-distance", "{} [{what}]: geodesic_inv(({lon1:?}, {lat1:?}), ({lon2:?}, {lat2:?})) s={:?}, meridian arc by quadrature {s:?}: {:e} m off (tolerance {tol:e})", e.label, iv[2], (iv[2] - s).abs());
                }
                let p2 = g.fwd(lon1, lat1, az, s, &what)?;
                let d = chord(&e.r, (lon2, lat2), (p2[0], p2[1]));
                if w.over("meridional: direct end point (m)", d, tol) {
                    vfail!("geodesic-meridional-direct", "{} [{what}]: geodesic_fwd(({lon1:?}, {lat1:?}), az={az:?}, s={s:?}) = ({:?}, {:?}), expected ({lon2:?}, {lat2:?}): {d:e} m off (tolerance {tol:e})", e.label, p2[0], p2[1]);
                }
                if s > 1.0 * e.sc && lat1.abs() < 1.57 && lat2.abs() < 1.57 {
                    let m12 = a * ((s / a).sin().abs() + 0.05 * s / a);
                    let da = wrap_pi(iv[0] - az).abs().max(wrap_pi(iv[1] - if over { PI - az } else { az }).abs());
                    if w.over("meridional: azimuths x reduced length (m)", da * m12, tol + 8.0 * EPS * a * (cond(lat1) + cond(lat2))) {
                        vfail!("geodesic-meridional-azimuth", "{} [{what}]: geodesic_inv(({lon1:?}, {lat1:?}), ({lon2:?}, {lat2:?})) azimuths ({:?}, {:?}), expected {az:?} at the start and {:?} at the end", e.label, iv[0], iv[1], if over { PI - az } else { az });
                    }
                }
                if over {
                    // symmetry in the end points, distance(), consistency with the direct problem
                    let vi = g.inv((lon2, lat2), (lon1, lat1), &what)?;
                    let az_back = if north { 0.0 } else { PI };
                    if w.over("over a pole: inverse symmetry, distance (m)", (vi[2] - iv[2]).abs().max((vi[2] - s).abs() - tol).max(0.0), tol_c) {
                        vfail!("geodesic-meridional-distance", "{} [{what}]: geodesic_inv(P2,P1) s={:?}, geodesic_inv(P1,P2) s={:?}, meridian arc over the pole by quadrature {s:?}", e.label, vi[2], iv[2]);
                    }
                    if s > 1.0 * e.sc && lat1.abs() < 1.57 && lat2.abs() < 1.57 {
                        let m12 = a * ((s / a).sin().abs() + 0.05 * s / a);
                        let da = wrap_pi(vi[0] - az_back).abs().max(wrap_pi(vi[1] - (PI - az_back)).abs());
                        if w.over("meridional: azimuths x reduced length (m)", da * m12, tol + 8.0 * EPS * a * (cond(lat1) + cond(lat2))) {
                            vfail!("geodesic-meridional-azimuth", "{} [{what}]: geodesic_inv(P2,P1) azimuths ({:?}, {:?}), expected {az_back:?} at the start and {:?} at the end", e.label, vi[0], vi[1], PI - az_back);
                        }
                    }
                    for (from, to) in [((lon1, lat1), (lon2, lat2)), ((lon2, lat2), (lon1, lat1))] {
                        let dd = match guard(|| e.lib.distance(&c2(from.0, from.1), &c2(to.0, to.1))) {
                            Ok(v) => v,
                            Err(p) => vfail!(format!("panic-distance@{}", p.sig()), "{}.distance({from:?}, {to:?}) panics: {}", e.label, p.msg),
                        };
                        if w.over("over a pole: distance() vs quadrature (m)", (dd - s).abs(), tol) {
                            vfail!("geodesic-meridional-distance", "{} [{what}]: distance({from:?}, {to:?}) = {dd:?} (lon, lat in rad), meridian arc over the pole by quadrature {s:?} (tolerance {tol:e})", e.label);
                        }
                    }
                    // the direct problem with the inverse solution arrives at P2
                    let arrive = g.fwd(lon1, lat1, iv[0], iv[2], &what)?;
                    let d = chord(&e.r, (lon2, lat2), (arrive[0], arrive[1]));
                    if w.over("over a pole: inverse -> direct end point (m)", d, tol_c + tol + 8.0 * EPS * a * (cond(lat1) + cond(lat2)).min(1e30) * ((s / a).sin().abs() + 0.05 * s / a)) {
                        vfail!("geodesic-inverse-direct", "{} [{what}]: geodesic_inv gives az={:?} s={:?}; geodesic_fwd with these arrives at ({:?}, {:?}), {d:e} m from P2=({lon2:?}, {lat2:?})", e.label, iv[0], iv[2], arrive[0], arrive[1]);
                    }
                    let deg = if opposite { [ln.lat1.0, ln.lon1.0, ln.p.0, ln.q.0] } else { [lat1.to_degrees(), lon1.to_degrees(), lat2.to_degrees(), lon2.to_degrees()] };
                    op_pairs.push((deg, [az, PI - az, s], tol, (lat1, lat2)));
                }
                rec.class(if opposite && lat1 == lat2 { "geodesic: opposite meridians, equal latitudes" } else if opposite { "geodesic: opposite meridians, different latitudes" } else if over { "geodesic: meridional over a pole" } else { "geodesic: meridional" });
            }
            _ => {
                let (dir, dl) = (ln.p.0.signum(), ln.q.0);
                let s = a * dl;
                let az = dir * FRAC_PI_2;
                let what = format!("line {i}: equatorial dlon={:?}", dir * dl);
                rec.class(if lat1 == 0.0 { "geodesic: equatorial" } else { "geodesic: within 1e-9 rad of the equator" });
                let p2 = g.fwd(lon1, lat1, az, s, &what)?;
                let d = chord(&e.r, (lon1 + dir * dl, lat1), (p2[0], p2[1]));
                // a start lat1 off the equator oscillates between +-lat1: up to 2 a lat1 from the parallel
                let tol = tol_r + 4.0 * a * lat1.abs();
                if w.over("equatorial: direct end point (m)", d, tol) {
                    vfail!("geodesic-equatorial-direct", "{} [{what}]: geodesic_fwd(({lon1:?}, {lat1:?}), az={az:?}, s=a*dlon={s:?}) = ({:?}, {:?}), expected lon {:?} on the equator: {d:e} m off", e.label, p2[0], p2[1], lon1 + dir * dl);
                }
                let iv = g.inv((lon1, lat1), (lon1 + dir * dl, lat1), &what)?;
                if w.over("equatorial: inverse distance vs a dlon (m)", (iv[2] - s).abs(), tol_c + 2.0 * a * lat1.abs()) {
                    vfail!("geodesic-equatorial-distance", "{} [{what}]: geodesic_inv between equator points gives s={:?}, expected a*dlon={s:?}", e.label, iv[2]);
                }
                let da = wrap_pi(iv[0] - az).abs().max(wrap_pi(iv[1] - az).abs());
                // a parallel 'lat1' off the equator is not a geodesic: the azimuth differs from pi/2 by lat1 tan(dlon/2) (sphere)
                if w.over("equatorial: azimuths (rad)", da, 1e-9 + 4.0 * lat1.abs() * (dl / (2.0 * (1.0 - e.r.f))).min(1.55).tan()) {
                    vfail!("geodesic-equatorial-azimuth", "{} [{what}]: geodesic_inv between equator points gives azimuths ({:?}, {:?}), expected {az:?}", e.label, iv[0], iv[1]);
                }
            }
        }
    }

    // the operator in its round-trip form: (lat1, lon1, lat2, lon2) deg -> inverse -> forward
    if let (Some(text), false) = (&e.text, op_in.is_empty()) {
        let def = format!("geodesic reversible ellps={text}");
        let mut ctx = Minimal::new();
        let op = instantiate(&mut ctx, &def)?;
        let mut data = op_in.clone();
        apply(&ctx, op, false, &def, &mut data)?;
        apply(&ctx, op, true, &def, &mut data)?;
        for (i, d) in op_in.iter().zip(&data) {
            let d1 = chord(&e.r, (i[1].to_radians(), i[0].to_radians()), (d[1].to_radians(), d[0].to_radians()));
            let d2 = chord(&e.r, (i[3].to_radians(), i[2].to_radians()), (d[3].to_radians(), d[2].to_radians()));
            let sigma = sphere_inverse(i[1].to_radians(), i[0].to_radians(), i[3].to_radians(), i[2].to_radians()).2;
            let tol = 2.0 * tol_c + 64.0 * EPS * a * (1.0 / i[0].to_radians().cos().abs().max(1e-300) + 1.0 / i[2].to_radians().cos().abs().max(1e-300)) * (sigma.sin().abs() + 0.05 * sigma);
            if w.over("geodesic operator round trip (m)", d1.max(d2), tol) {
                vfail!("geodesic-operator-roundtrip", "'{def}': inverse then forward of {} gives {}: {:e} m off (tolerance {tol:e})", fmt_c4(i), fmt_c4(d), d1.max(d2));
            }
        }
        rec.count("operator evaluations", 2 * op_in.len() as u64);

        // the plain operator, both modes, with longitudes as they are, normalised to (-180, 180] and shifted by 360 deg
        let def = format!("geodesic ellps={text}");
        let op = instantiate(&mut ctx, &def)?;
        for (inp, p2, iv, m12, tol_x) in &op_lines {
            let [lat1, lon1, az, s] = *inp;
            let tol_x = 2.0 * tol_x;
            // inverse mode: (lat1, lon1, lat2, lon2) deg -> (az1, az2, s, return azimuth)
            let lon2s = [p2[0], wrap_pi(p2[0]), p2[0] + 2.0 * PI, wrap_pi(p2[0]) - 2.0 * PI];
            let mut data: Vec<Coor4D> = lon2s.iter().map(|l2| Coor4D::raw(lat1.to_degrees(), lon1.to_degrees(), p2[1].to_degrees(), l2.to_degrees())).collect();
            data.push(Coor4D::raw(lat1.to_degrees(), (lon1 + 2.0 * PI).to_degrees(), p2[1].to_degrees(), wrap_pi(p2[0]).to_degrees()));
            let input = data.clone();
            apply(&ctx, op, false, &def, &mut data)?;
            for (i, d) in input.iter().zip(&data) {
                let da = wrap_pi(d[0].to_radians() - iv[0]).abs().max(wrap_pi(d[1].to_radians() - iv[1]).abs()).max(wrap_pi(d[3].to_radians() - iv[1] - PI).abs());
                let bad = !d.0.iter().all(|v| v.is_finite());
                if bad || w.over("geodesic operator inverse vs trait: distance (m)", (d[2] - iv[2]).abs(), tol_c) || w.over("geodesic operator inverse vs trait: azimuths x reduced length (m)", da * m12, tol_x) {
                    vfail!(if (i[3] - i[1]).abs() > 180.0 { "geodesic-operator-longitude-periodicity" } else { "geodesic-operator-inverse" },
                        "'{def}' inverse of (lat1, lon1, lat2, lon2) = {} (raw dlon {:?} deg) gives {}; geodesic_inv for the same points with longitudes ({lon1:?}, {:?}) rad gives azimuths ({:?}, {:?}) s={:?}", fmt_c4(i), i[3] - i[1], fmt_c4(d), p2[0], iv[0], iv[1], iv[2]);
                }
            }
            // forward mode: (lat1, lon1, az, s) -> (lat2, lon2, ..)
            let mut data: Vec<Coor4D> = [0.0, 360.0, -360.0].iter().map(|sh| Coor4D::raw(lat1.to_degrees(), lon1.to_degrees() + sh, az.to_degrees(), s)).collect();
            let input = data.clone();
            apply(&ctx, op, true, &def, &mut data)?;
            for (i, d) in input.iter().zip(&data) {
                let dist = if d.0.iter().all(|v| v.is_finite()) { chord(&e.r, (p2[0], p2[1]), (d[1].to_radians(), d[0].to_radians())) } else { f64::NAN };
                if w.over("geodesic operator forward vs trait: end point (m)", dist, tol_c + tol_x) {
                    vfail!("geodesic-operator-forward", "'{def}' forward of (lat, lon, az, s) = {} gives {}; geodesic_fwd gives (lon2, lat2) = ({:?}, {:?}) rad", fmt_c4(i), fmt_c4(d), p2[0], p2[1]);
                }
            }
        }
        rec.count("operator evaluations", 8 * op_lines.len() as u64);
    }
    if let (Some(text), false) = (&e.text, op_pairs.is_empty()) {
        let mut ctx = Minimal::new();
        let plain = format!("geodesic ellps={text}");
        let rev = format!("geodesic reversible ellps={text}");
        let (op_plain, op_rev) = (instantiate(&mut ctx, &plain)?, instantiate(&mut ctx, &rev)?);
        let input: Vec<Coor4D> = op_pairs.iter().map(|p| Coor4D(p.0)).collect();
        let mut out = input.clone();
        apply(&ctx, op_plain, false, &plain, &mut out)?;
        let mut back = input.clone();
        apply(&ctx, op_rev, false, &rev, &mut back)?;
        let mid = back.clone();
        apply(&ctx, op_rev, true, &rev, &mut back)?;
        for (k, (deg, want, tol, lats)) in op_pairs.iter().enumerate() {
            let (d, m, b) = (&out[k], &mid[k], &back[k]);
            let s = want[2];
            let m12 = a * ((s / a).sin().abs() + 0.05 * s / a);
            let tol_a = tol + 64.0 * EPS * a * (1.0 / lats.0.cos().abs().max(1e-300) + 1.0 / lats.1.cos().abs().max(1e-300));
            let check_az = s > 1.0 * e.sc && lats.0.abs() < 1.57 && lats.1.abs() < 1.57;
            let da = wrap_pi(d[0].to_radians() - want[0]).abs().max(wrap_pi(d[1].to_radians() - want[1]).abs()).max(wrap_pi(d[3].to_radians() - want[1] - PI).abs());
            let bad = !d.0.iter().all(|v| v.is_finite());
            if bad || w.over("over a pole: operator distance vs quadrature (m)", (d[2] - s).abs(), *tol) || (check_az && w.over("over a pole: operator azimuths x reduced length (m)", da * m12, tol_a)) {
                vfail!("geodesic-operator-meridional", "'{plain}' inverse of (lat1, lon1, lat2, lon2) = {deg:?} gives {}; expected azimuths {:?}, {:?} deg, the meridian arc over the pole {s:?} m (tolerance {tol:e}) and the return azimuth {:?}", fmt_c4(d), want[0].to_degrees(), want[1].to_degrees(), (want[1] + PI).to_degrees());
            }
            if w.over("over a pole: reversible operator distance vs quadrature (m)", (m[3] - s).abs(), *tol) {
                vfail!("geodesic-operator-meridional", "'{rev}' inverse of (lat1, lon1, lat2, lon2) = {deg:?} gives {} (lat2, lon2, return azimuth, distance); expected distance {s:?} (tolerance {tol:e})", fmt_c4(m));
            }
            let d1 = chord(&e.r, (deg[1].to_radians(), deg[0].to_radians()), (b[1].to_radians(), b[0].to_radians()));
            let d2 = chord(&e.r, (deg[3].to_radians(), deg[2].to_radians()), (b[3].to_radians(), b[2].to_radians()));
            if w.over("over a pole: reversible operator round trip (m)", d1.max(d2), 2.0 * tol_c + tol_a * (1.0 + m12 / a)) {
                vfail!("geodesic-operator-roundtrip", "'{rev}': inverse then forward of {deg:?} gives {}: {:e} m off", fmt_c4(b), d1.max(d2));
            }
        }
        rec.count("operator evaluations", 3 * op_pairs.len() as u64);
    }
    w.flush(rec);
    rec.class(ell_class(&c.ell));
    rec.count("geodesics", c.lines.len() as u64);
    Ok(())
}

// ---- random "derived" section --------------------------------------------------------------------

fn check_derived_case(c: &LatCase, rec: &mut Rec) -> CaseResult {
    let e = resolve(&c.ell)?;
    let mut w = W::default();
    check_derived(&e, &mut w)?;
    let lats: Vec<f64> = c.lats.iter().map(|p| p.0).collect();
    check_curvature(&e, &lats, &mut w)?;
    w.flush(rec);
    rec.class(ell_class(&c.ell));
    rec.nontrivial(&e.label);
    Ok(())
}

// ---- self test of the reference mathematics --------------------------------------------------------

fn selftest() {
    let g = El::grs80();
    // quarter meridian and 45 degree arc of GRS80 (Karney's GeodSolve, quoted in the repo's tests, and textbooks)
    assert!((g.meridian_quadrant() - 10_001_965.729_230_457).abs() < 2e-6, "quadrature quadrant {}", g.meridian_quadrant());
    assert!((g.meridian_arc(45f64.to_radians()) - 4_984_944.377_857_987).abs() < 2e-6);
    // conformal latitude of 35 deg (Poder/Engsager value), authalic of 50 deg (IOGP GN 7-2)
    assert!((g.conformal(35f64.to_radians()).to_degrees() - 34.819454814955349775).abs() < 1e-12);
    assert!((g.authalic(50f64.to_radians()) - 0.870_458_708).abs() < 1e-8);
    // geocentric / reduced latitudes of 55 deg (repo's operator test, 1e-12 deg) and their definitions on the surface point
    let p = g.cartesian(0.0, 55f64.to_radians(), 0.0);
    assert!((g.geocentric(55f64.to_radians()) - p[2].atan2(p[0])).abs() < 1e-15);
    assert!((g.reduced(55f64.to_radians()) - (p[2] / g.b()).atan2(p[0] / g.a)).abs() < 1e-15);
    // rectifying latitude: series mu = phi - 3/2 n sin 2phi + ... to first orders
    let n = g.n3();
    let phi = 55f64.to_radians();
    let mu = phi + (-1.5 * n + 9.0 / 16.0 * n.powi(3)) * (2.0 * phi).sin() + (15.0 / 16.0 * n * n - 15.0 / 32.0 * n.powi(4)) * (4.0 * phi).sin() - 35.0 / 48.0 * n.powi(3) * (6.0 * phi).sin();
    assert!((g.rectifying(phi) - mu).abs() < 1e-11, "rectifying {} vs series {}", g.rectifying(phi), mu);
    assert!((g.rectifying(FRAC_PI_2) - FRAC_PI_2).abs() < 1e-15);
    // isometric latitude of 45 deg (repo test value)
    assert!((g.isometric(45f64.to_radians()) - 50.227465815385806f64.to_radians()).abs() < 1e-14);
    // vector great circle against the trigonometric form of refmath
    for &(l1, p1, az, s) in &[(0.3, 0.5, 1.0, 1.2), (-2.0, -1.2, -2.5, 2.9), (3.0, 0.0, 0.3, 0.01), (1.0, 1.5, 2.0, 0.5)] {
        let (l2, p2, a2) = sphere_direct(l1, p1, az, s);
        let (rl, rp) = refmath::great_circle_direct(1.0, l1, p1, az, s);
        assert!(wrap_pi(l2 - rl).abs() < 1e-12 && (p2 - rp).abs() < 1e-12);
        let (b1, b2, sg) = sphere_inverse(l1, p1, l2, p2);
        let (d, r1, r2) = refmath::great_circle(1.0, l1, p1, l2, p2);
        assert!((sg - s).abs() < 1e-12 && (d - s).abs() < 1e-12 && wrap_pi(b1 - az).abs() < 1e-12 && wrap_pi(b1 - r1).abs() < 1e-12);
        assert!(wrap_pi(b2 - r2).abs() < 1e-12 && wrap_pi(b2 - a2).abs() < 1e-12, "{b2} {r2} {a2}");
    }
    // the reference list against the one in refmath (two typings of the same source)
    for (name, a, rf) in refmath::PROJ_ELLIPSOIDS {
        let (pa, prf, tol) = published(name).unwrap_or_else(|| panic!("{name} missing in PUBLISHED"));
        assert!((pa - a).abs() <= 1e-9 * a && (prf - rf).abs() <= tol.max(1e-7 * rf), "reference lists disagree on {name}: ({pa}, {prf}) vs ({a}, {rf})");
    }
}

// ---- generators -------------------------------------------------------------------------------------

fn ell_strategy(names: Vec<String>) -> impl Strategy<Value = Ell> {
    let a = || {
        prop_oneof![
            4 => 6.3e6f64..6.4e6,
            2 => 1.0e3f64..7.0e6,
            1 => 1.0f64..1.0e3,
            1 => Just(1.0f64),
            1 => Just(7.0e6f64),
        ]
    };
    let rf = prop_oneof![
        5 => 150.0f64..400.0,
        1 => Just(150.0f64),
        2 => 400.0f64..1.0e4,
        1 => (4.0f64..12.0).prop_map(|x| 10f64.powf(x)),
    ];
    let n = names.len();
    prop_oneof![
        3 => any::<u16>().prop_map(move |i| Ell::named(&names[pick(i, n)])),
        5 => (a(), rf).prop_map(|(a, rf)| Ell::af(a, rf)),
        1 => a().prop_map(|a| Ell::af(a, 0.0)),
    ]
}

fn lat_strategy() -> impl Strategy<Value = f64> {
    prop_oneof![
        6 => (-1.0f64..1.0).prop_map(|u| u.asin()),
        3 => -FRAC_PI_2..FRAC_PI_2,
        1 => Just(FRAC_PI_2),
        1 => Just(-FRAC_PI_2),
        1 => Just(0.0f64),
        2 => (any::<bool>(), 3.0f64..15.5).prop_map(|(s, k)| (FRAC_PI_2 - 10f64.powf(-k)) * if s { 1.0 } else { -1.0 }),
        1 => (any::<bool>(), 3.0f64..15.5).prop_map(|(s, k)| 10f64.powf(-k) * if s { 1.0 } else { -1.0 }),
    ]
}

fn lon_strategy() -> impl Strategy<Value = f64> {
    prop_oneof![
        8 => -PI..PI,
        3 => (any::<bool>(), 0.0f64..0.1).prop_map(|(s, u)| (PI - u) * if s { 1.0 } else { -1.0 }),
        1 => Just(0.0f64),
        1 => Just(PI),
        1 => Just(-PI),
        1 => Just(FRAC_PI_2),
        1 => Just(-FRAC_PI_2),
    ]
}

fn height_strategy() -> impl Strategy<Value = f64> {
    prop_oneof![
        5 => -1.0e4f64..1.0e5,
        2 => Just(0.0f64),
        2 => 1.0e5f64..1.0e7,
        1 => Just(-1.0e4f64),
        1 => Just(1.0e5f64),
        1 => Just(1.0e7f64),
    ]
}

fn line_strategy() -> impl Strategy<Value = Line> {
    let az = prop_oneof![
        6 => -PI..PI,
        1 => Just(0.0f64),
        1 => Just(PI),
        1 => Just(FRAC_PI_2),
        1 => Just(-FRAC_PI_2),
    ];
    let s = prop_oneof![
        5 => 1.0f64..19.0e6,
        2 => (-3.0f64..7.2).prop_map(|x| 10f64.powf(x)),
        1 => 1.0e7f64..19.0e6,
        1 => Just(19.0e6f64),
    ];
    let direct = (lon_strategy(), lat_strategy(), az, s).prop_map(|(lon1, lat1, az, s)| {
        // an exactly equatorial start heading exactly east/west is the registered equatorial class
        let az = if lat1.abs() < 1e-7 && az.abs() == FRAC_PI_2 { az * 0.75 } else { az };
        Line { kind: 0, lon1: F(lon1), lat1: F(lat1), p: F(az), q: F(s) }
    });
    let meridional = (lon_strategy(), lat_strategy(), lat_strategy(), any::<bool>()).prop_map(|(lon1, lat1, lat2, over)| {
        // over a pole only when the pair is at least 10 degrees away from being antipodal
        let over = over && (lat1 + lat2).abs() >= 10f64.to_radians();
        // same meridian: at most 19 000 km apart
        let lat2 = if !over && (lat2 - lat1).abs() > SIGMA_MAX { lat2 * 0.5 + lat1 * 0.5 } else { lat2 };
        let lat2 = if lat2 == lat1 { lat1 * 0.5 + 0.1 } else { lat2 };
        Line { kind: 1, lon1: F(lon1), lat1: F(lat1), p: F(lat2), q: F(if over { 1.0 } else { 0.0 }) }
    });
    let opposite = (-180.0f64..180.0, any::<bool>(), any::<u16>(), lat_strategy(), lat_strategy(), any::<bool>()).prop_map(|(lon1, plus, sp, l1, l2, equal)| {
        // a latitude pair whose sum is at least 10 degrees from zero (19 000 km limit), equal half of the time
        let l1 = l1.to_degrees();
        let l1 = if l1.abs() < 5.0 { 5.0f64.copysign(l1) + l1 } else { l1 };
        let l2 = if equal { l1 } else { l2.to_degrees().abs().copysign(l1) };
        let l2 = if (l1 + l2).abs() < 10.0 { l1 } else { l2 };
        let lon1 = [lon1, lon1.round(), 0.0, 180.0, -90.0, 10.0][pick(sp, 6)];
        let lon2 = lon1 + if plus { 180.0 } else { -180.0 };
        Line { kind: 3, lon1: F(lon1), lat1: F(l1), p: F(l2), q: F(lon2) }
    });
    prop_oneof![6 => direct, 2 => meridional, 1 => opposite]
}

fn equatorial_line(i: usize) -> Line {
    // longitude differences from 1e-9 rad to the 19 000 km limit, both directions, lat1 exactly 0
    // or within 1e-9 rad of the equator
    const DL: [f64; 12] = [1e-9, 1e-6, 1e-3, 0.01, 0.1, 0.5, 1.0, FRAC_PI_2, 2.0, 2.5, 2.9, SIGMA_MAX];
    const LAT: [f64; 4] = [0.0, 0.0, 1e-12, -1e-9];
    let dl = DL[i % 12];
    let dir = if (i / 12) % 2 == 0 { 1.0 } else { -1.0 };
    let lat = LAT[(i / 24) % 4];
    let lon = [0.0, -3.0, 1.5, 3.1][(i / 24) % 4];
    Line { kind: 2, lon1: F(lon), lat1: F(lat), p: F(dir), q: F(dl) }
}

/// end points on opposite meridians: 14 spellings of a longitude difference of +-180 (+-360) degrees
/// x 17 equal-latitude and 14 different-latitude pairs, north and south, from 5 deg to 1e-9 deg from the pole
fn opposite_lines() -> Vec<Line> {
    const LON: [(f64, f64); 14] = [
        (0.0, 180.0), (-90.0, 90.0), (90.0, -90.0), (10.0, -170.0), (-170.0, 10.0), (180.0, 0.0), (0.0, -180.0), (-180.0, 0.0),
        (0.0, 540.0), (0.0, -540.0), (360.0, 180.0), (-360.0, -180.0), (123.456, -56.544), (-45.5, 134.5),
    ];
    const EQUAL: [f64; 17] = [5.0, -5.0, 10.0, -10.0, 30.0, -30.0, 45.0, -45.0, 60.0, -60.0, 75.0, -75.0, 89.0, -89.0, 89.999, -89.999, 89.999999999];
    const DIFF: [(f64, f64); 14] = [
        (0.001, 12.0), (5.0, 6.0), (20.0, 70.0), (70.0, 20.0), (60.0, 70.0), (89.0, 89.5), (10.0, 0.0), (-30.0, 45.0), (-5.0, 20.0),
        (-0.001, -12.0), (-20.0, -70.0), (-45.0, -46.0), (30.0, -45.0), (90.0, 60.0),
    ];
    let mut v = vec![];
    for (lon1, lon2) in LON {
        for lat in EQUAL {
            v.push(Line { kind: 3, lon1: F(lon1), lat1: F(lat), p: F(lat), q: F(lon2) });
        }
        for (l1, l2) in DIFF {
            v.push(Line { kind: 3, lon1: F(lon1), lat1: F(l1), p: F(l2), q: F(lon2) });
        }
    }
    v
}

/// deterministic lattices for the exhaustive sweep over the table
fn lattice_lats() -> Vec<f64> {
    let mut v: Vec<f64> = (-90..=90).map(|d| (d as f64).to_radians()).collect();
    v[0] = -FRAC_PI_2;
    v[180] = FRAC_PI_2;
    for k in [1e-3, 1e-6, 1e-9, 1e-12, 1e-15] {
        v.extend([FRAC_PI_2 - k, -FRAC_PI_2 + k, k, -k]);
    }
    v.extend([0.5f64.to_radians() + 0.7, 89.9f64.to_radians(), -89.9f64.to_radians(), 89.99f64.to_radians()]);
    v
}

fn lattice_cart(batch: usize) -> Vec<[F; 3]> {
    // batch = height index; all lattice latitudes x 6 longitudes
    const H: [f64; 10] = [-1.0e4, -123.4, 0.0, 1.0, 8848.0, 1.0e5, 4.0e5, 2.0e6, 6.0e6, 1.0e7];
    let h = H[batch % H.len()];
    let mut v = vec![];
    for (i, lat) in lattice_lats().into_iter().enumerate() {
        for lon in [0.0, 1.0, -2.5, PI, -FRAC_PI_2, 0.1 + i as f64 * 0.01] {
            v.push([F(lon), F(lat), F(h)]);
        }
    }
    v
}

fn lattice_lines(batch: usize) -> Vec<Line> {
    // batch = start latitude index; 16 azimuths x 12 distances, plus meridional pairs
    const LAT1: [f64; 12] = [-90.0, -89.999, -75.0, -45.0, -10.0, 0.0, 1e-7, 23.5, 55.0, 80.0, 89.9, 90.0];
    const S: [f64; 12] = [1e-3, 1.0, 1e3, 1e5, 1e6, 3e6, 6e6, 1.0e7, 1.3e7, 1.6e7, 1.8e7, 1.9e7];
    let lat1 = if LAT1[batch % 12].abs() == 90.0 { FRAC_PI_2.copysign(LAT1[batch % 12]) } else { LAT1[batch % 12].to_radians() };
    let lon1 = [0.0, 2.0, -3.0][batch % 3];
    let mut v = vec![];
    for k in 0..16 {
        let az = -PI + k as f64 * PI / 8.0;
        for s in S {
            if lat1.abs() < 1e-7 && (az.abs() - FRAC_PI_2).abs() < 1e-12 {
                continue; // exactly equatorial: separate section
            }
            v.push(Line { kind: 0, lon1: F(lon1), lat1: F(lat1), p: F(az), q: F(s) });
        }
    }
    for d in [-90.0f64, -60.0, -30.0, -5.0, 0.0, 5.0, 30.0, 60.0, 89.0, 90.0] {
        let lat2 = if d.abs() == 90.0 { FRAC_PI_2.copysign(d) } else { d.to_radians() };
        if lat2 != lat1 && (lat2 - lat1).abs() <= SIGMA_MAX {
            v.push(Line { kind: 1, lon1: F(lon1), lat1: F(lat1), p: F(lat2), q: F(0.0) });
        }
        if (lat1 + lat2).abs() >= 10f64.to_radians() {
            v.push(Line { kind: 1, lon1: F(lon1), lat1: F(lat1), p: F(lat2), q: F(1.0) });
        }
    }
    v
}

fn main() {
    let mut run = Run::init("C06");
    selftest();
    run.assume("lengths in generated cases (heights, geodesic distances) are for an Earth-sized ellipsoid and are multiplied by a/6378137; length tolerances are multiplied by min(1, a/6378137): the algorithms are scale free");
    run.assume("the domain of geodesics is distance <= 19000 km x a/6378137 (spherical separation < 172 deg): Vincenty's documented near-antipodal non-convergence zone is excluded by construction");
    run.assume("azimuth comparisons are made in metres across track (azimuth difference x reduced length) with an allowance 8 eps a / cos(lat) for the inherent ill-conditioning of azimuths near the poles");
    run.assume("the closed-form inverse (Bowring) is held to 1 cm and the cart operator to 1 um at heights -10..100 km as stated; at 100 km..1e7 m the statement gives no figure: the measured error laws of the two methods with a margin of 5 are used, 1 um + 1.5 a f^4 (h/a)^2 (operator; 0.36 mm observed for GRS80 at 1e7 m) and 1 cm + 2 f^3 h (closed form; 14 cm observed)");
    run.assume("the six auxiliary latitudes are geocentric, reduced(=parametric), conformal, authalic, rectifying and isometric; the isometric latitude is unbounded, so 'fixes the poles' is not applied to it");
    run.assume("published 1/f: agreement to the published decimals (half a unit of the last one, at most 1e-7 relative); 1e-7 relative for the six ellipsoids PROJ defines through b; semi-major axis to 0.05 mm");
    run.assume("tolerances of the approximate methods follow their order: Bowring's meridian formulas 0.6 a n^4 against quadrature and 4 n^4 rad round trip (observed 0.12 and 1.1), Vincenty against quadrature 0.6 n^4 min(s, a) + 0.2 um (observed 0.13), direct/inverse consistency 50 um (the inverse stops its longitude iteration at 1e-12 rad = 6.4 um; observed 7 um)");
    run.assume("a direct-problem start within 1e-7 rad of the equator with azimuth exactly +-90 deg is generated in section geodesic-equatorial only (it was the NaN class repaired by commit 0e2e174)");
    run.assume("auxiliary latitudes are compared with their closed forms for |lat| <= 89.9 deg (asin and atanh are ill-conditioned at the pole); fixed points, oddness, monotonicity and round trips are checked up to the poles");

    let table = library_table();
    let lib_names: Vec<String> = table.iter().map(|e| e.0.to_string()).collect();
    let mut all_names = lib_names.clone();
    for p in PUBLISHED.iter() {
        if !all_names.iter().any(|n| n == p.0) {
            all_names.push(p.0.to_string());
        }
    }
    run.note("ellipsoid_table_entries", serde_json::json!(lib_names.len()));
    let nt = lib_names.len();

    {
        let names = all_names.clone();
        run.enumerate(
            "table",
            "every name of the built-in table (verif_hooks enumeration) and of the published list: instantiates (biaxial and triaxial constructor), carries the published a and 1/f, 20 derived-parameter identities, M and N and the curvature operator at 37 latitudes; non-trivial = entry other than GRS80",
            names.len(),
            move |i| TableCase { name: names[i].clone() },
            check_table,
        );
    }
    {
        let names = lib_names.clone();
        run.enumerate(
            "table-cart",
            "every table entry x 10 heights (-10 km .. 1e7 m) x 205 lattice latitudes (every degree, poles, 1e-3..1e-15 rad from poles and equator) x 6 longitudes: cartesian vs defining formula, ellipsoid equation, closed-form inverse, cart operator round trip",
            nt * 10,
            move |i| CartCase { ell: Ell::named(&names[i % nt]), pts: lattice_cart(i / nt) },
            check_cart,
        );
    }
    {
        let names = lib_names.clone();
        run.enumerate(
            "table-latitudes",
            "every table entry x 205 lattice latitudes x 6 auxiliary latitudes: odd, increasing on a 1e-6 rad step, 0 and poles fixed, round trips 1e-12, closed forms 1e-11, latitude operator = trait method",
            nt,
            move |i| LatCase { ell: Ell::named(&names[i]), lats: lattice_lats().into_iter().map(F).collect() },
            check_latitudes,
        );
    }
    {
        let names = lib_names.clone();
        run.enumerate(
            "rectifying-definition",
            "every table entry: the rectifying latitude against (pi/2) M(phi)/M(pi/2) by quadrature at 7 latitudes incl. the pole",
            nt,
            move |i| LatCase { ell: Ell::named(&names[i]), lats: [0.0, 0.3, -0.7, 55f64.to_radians(), 1.2, FRAC_PI_2, -FRAC_PI_2].into_iter().map(F).collect() },
            check_rectifying_definition,
        );
    }
    {
        let names = lib_names.clone();
        run.enumerate(
            "table-meridian",
            "every table entry x 205 lattice latitudes: meridian distance vs quadrature, latitude <-> distance mutual inverses, odd, increasing, pole <-> quadrant",
            nt,
            move |i| LatCase { ell: Ell::named(&names[i]), lats: lattice_lats().into_iter().map(F).collect() },
            check_meridian,
        );
    }
    {
        let names = lib_names.clone();
        run.enumerate(
            "table-geodesic",
            "every table entry x 12 start latitudes (poles, near-poles, equator, generic) x 16 azimuths x 12 distances (1 mm .. 19000 km) + meridional pairs (same and opposite meridian): direct/inverse consistency, end-point symmetry, there-and-back, meridian arcs by quadrature, great circle on spheres, geodesic operator round trip",
            nt * 12,
            move |i| GeoCase { ell: Ell::named(&names[i % nt]), lines: lattice_lines(i / nt) },
            check_geodesics,
        );
    }
    {
        let names = lib_names.clone();
        run.enumerate(
            "geodesic-equatorial",
            "every table entry and 5 synthetic ellipsoids x 96 equatorial lines (12 longitude differences 1e-9 .. 2.98 rad x 2 directions x start exactly on / within 1e-9 rad of the equator): s = a dlon, azimuths +-pi/2",
            (nt + 5) * 4,
            move |i| {
                let k = i / 4;
                let ell = if k < nt { Ell::named(&names[k]) } else { [Ell::af(6378137.0, 150.0), Ell::af(1.0, 298.0), Ell::af(6.0e6, 0.0), Ell::af(7.0e6, 1000.0), Ell::af(2.5e3, 200.0)][k - nt].clone() };
                GeoCase { ell, lines: (0..24).map(|j| equatorial_line((i % 4) * 24 + j)).collect() }
            },
            check_geodesics,
        );
    }

    {
        let names = lib_names.clone();
        run.enumerate(
            "geodesic-opposite-meridians",
            "every table entry and 5 synthetic ellipsoids x 434 pairs of end points on opposite meridians (14 spellings of dlon = +-180 (+-360) deg: 0/180, -90/90, 10/-170, 180/0, 0/540 ... x 17 equal and 14 different latitude pairs, both hemispheres, 5 deg .. 1e-9 deg from the pole, total length <= 19000 km): distance = meridian arc over the nearer pole by quadrature, azimuths 0/180, symmetry in the end points, distance(), inverse -> direct arrives, geodesic operator (plain inverse mode, reversible round trip)",
            nt + 5,
            move |k| {
                let ell = if k < nt { Ell::named(&names[k]) } else { [Ell::af(6378137.0, 150.0), Ell::af(1.0, 298.0), Ell::af(6.0e6, 0.0), Ell::af(7.0e6, 1000.0), Ell::af(2.5e3, 200.0)][k - nt].clone() };
                GeoCase { ell, lines: opposite_lines() }
            },
            check_geodesics,
        );
    }

    // random ellipsoids and random points
    let names = lib_names.clone();
    let n = run.scale(12_000, 200_000);
    run.section(
        "cart",
        "random ellipsoid (table entry, or a in [1, 7e6] x 1/f in [150, 1e12], or sphere) x 64 random points (lat uniform on the sphere + poles, equator, 1e-3..1e-15 rad from them; all longitudes; h -10 km .. 1e7 m): as table-cart; non-trivial = latitude not 0/+-90 or ellipsoid not GRS80",
        n,
        || (ell_strategy(names.clone()), prop::collection::vec((lon_strategy(), lat_strategy(), height_strategy()), 64)).prop_map(|(ell, p)| CartCase { ell, pts: p.into_iter().map(|(a, b, c)| [F(a), F(b), F(c)]).collect() }),
        check_cart,
    );
    let n = run.scale(6_000, 80_000);
    run.section(
        "latitudes",
        "random ellipsoid x 32 random latitudes x 6 auxiliary latitudes: as table-latitudes",
        n,
        || (ell_strategy(names.clone()), prop::collection::vec(lat_strategy(), 32)).prop_map(|(ell, l)| LatCase { ell, lats: l.into_iter().map(F).collect() }),
        check_latitudes,
    );
    let n = run.scale(6_000, 100_000);
    run.section(
        "meridian",
        "random ellipsoid x 32 random latitudes: as table-meridian",
        n,
        || (ell_strategy(names.clone()), prop::collection::vec(lat_strategy(), 32)).prop_map(|(ell, l)| LatCase { ell, lats: l.into_iter().map(F).collect() }),
        check_meridian,
    );
    let n = run.scale(10_000, 300_000);
    run.section(
        "geodesic",
        "random ellipsoid x 32 random geodesics (75% direct-problem data: any start incl. poles, any azimuth incl. cardinal ones, 1 mm .. 19000 km; 25% meridional pairs, same meridian or over a pole): as table-geodesic",
        n,
        || (ell_strategy(names.clone()), prop::collection::vec(line_strategy(), 32)).prop_map(|(ell, lines)| GeoCase { ell, lines }),
        check_geodesics,
    );
    let n = run.scale(4_000, 100_000);
    run.section(
        "derived",
        "random ellipsoid: 20 derived-parameter identities, meridian constants vs quadrature, M and N and the curvature operator at 16 random latitudes",
        n,
        || (ell_strategy(names.clone()), prop::collection::vec(lat_strategy(), 16)).prop_map(|(ell, l)| LatCase { ell, lats: l.into_iter().map(F).collect() }),
        check_derived_case,
    );

    run.finish("generated ellipsoids (all table entries exhaustively + random a, f <= 1/150) x generated positions, heights, latitudes and geodesics, checked against closed forms, quadrature, round trips and symmetry laws; a case is non-trivial when its latitude is not 0/+-90 or its ellipsoid is not GRS80, distinct by (ellipsoid, coordinates)");
}
