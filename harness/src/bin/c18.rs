//! C18 — names resolve predictably; handles stay valid and operators never change.
//!
//! Technique: model-based stateful testing. A case is a HISTORY (vector of commands over
//! register_op, register_resource, op, apply, steps, params, Plain::clear_grids, new
//! context, unknown handles, grid files, concurrent bursts) run against the library and
//! against a reference registry model written from the documentation:
//!   pipeline -> user operator (names without ':') -> macro (names with ':'; run-time
//!   registrations before files) -> built-in; shadowing only for later instantiations.
//! User constructors add distinguishable constants, file items carry distinguishable
//! constants, so behaviour reveals what was resolved. After EVERY command the complete
//! fingerprint (outputs on probe tuples both directions, counts, step list, parameter
//! digest of every step) of every live handle must be unchanged.
//!
//! The behaviour fingerprint is ORDER SENSITIVE: every probe tuple is applied alone, the
//! evaluations of all live handles / contexts / directions are interleaved in an order that
//! changes at every step (plus one whole-set application in a permuted order), and each
//! result must equal the one recorded for that tuple at creation, which was compared with
//! a history-free reference (grid operators: a grid object freshly decoded per tuple). The
//! probes include child-interior, parent-only and near-border points of nested NTv2 files
//! (shipped 5458_with_subgrid.gsb, generated root + 2 children + grandchild), so a look-up
//! that remembers earlier queries inside a shared grid object (process-wide cache) shows.
//!
//! Instantiation is multi-threaded too: in a burst one live context of the history is lent
//! (&mut, exclusively) to a newly created thread and after that to a second one, which
//! instantiate new operators in it and in contexts of their own; every handle issued by any
//! thread / context of the history goes into one set (all distinct), handles of contexts
//! created on other threads must be rejected by every other context, and the older handles
//! of the lent context are re-fingerprinted afterwards.
//!
//! User constructors of EVERY outcome (section user-constructor-outcomes, and constructor ids 6..12
//! of the histories): accepting, refusing always / for some parameter texts only, with each public
//! Error variant, under every built-in name, stand-alone / pipeline step / macro body, Minimal and
//! Plain. Resolution stops at the user-registered operator: op() returns what the user constructor
//! returned (logged by the constructor itself) - its operator or its error, never the built-in.
//!
//! WHEN the directory tree and the files appear (sections late-tree-orderings / late-tree-histories):
//! a tree of its own per case (cwd + XDG_DATA_HOME switched under a lock), context creation, creation
//! of empty directory levels, file creation / replacement / removal and look-ups in every order, for
//! registers, stand-alone files and grids in both search locations. A look-up finds what the file
//! system holds at the time of the look-up (grids: cached by name once loaded, as documented).
//!
//! The SIZE of a register / resource file and the POSITION of the item in it (sections
//! file-size-and-item-position, -random, registers-with-very-many-items; chapter 7e): files padded with
//! filler (prose, other fenced items, very long lines, blank lines, code blocks, multi-byte text, comments
//! inside the definition; LF and CR/LF) so that a chosen byte of the wanted item - or the item as a whole,
//! before / after - falls on byte 2^k - 1, 2^k, 2^k + 1 (k = 9..=22, thorough ..=26) or on a random offset
//! of the file; registers with up to 10^5 (10^6) items. What is instantiated must be exactly the body
//! written into the file (behaviour, steps, parameters), an item that is not there is an error.
//!
//! Arithmetic of built-in primitives is taken from a pristine thread-local reference
//! context (GridCtx, in-memory grids, never mutated after set-up); the model decides WHICH
//! primitive with WHICH constant in WHICH order/direction; user operators are computed
//! by the harness itself.

use geodesy::authoring::*;
use proptest::prelude::*;
use serde::{Deserialize, Serialize};
use std::cell::RefCell;
use std::collections::{BTreeSet, HashMap};
use std::fmt::Write as FmtWrite;
use std::path::PathBuf;
use std::sync::atomic::{AtomicU64, Ordering};
use std::sync::OnceLock;
use vcore::geo::pick;
use vcore::gridctx::GridCtx;
use vcore::guard::guard;
use vcore::*;

// =====================================================================================
// 1. User defined operators (distinguishable constants)
// =====================================================================================

/// (constant, element, invertible)
const UC: [(f64, usize, bool); 6] =
    [(1000., 0, true), (2000., 0, true), (3000., 1, true), (4000., 0, false), (5000., 2, true), (6000., 0, true)];

pub const UGAMUT: [OpParameter; 2] = [OpParameter::Flag { key: "inv" }, OpParameter::Real { key: "d", default: Some(0.) }];

fn u_shift(j: usize, d: f64, fwd: bool, c: &mut Coor4D) {
    let s = UC[j].0 + d;
    if fwd {
        c[UC[j].1] += s;
    } else {
        c[UC[j].1] -= s;
    }
}

fn u_apply(j: usize, op: &Op, operands: &mut dyn CoordinateSet, fwd: bool) -> usize {
    let d = op.params.real("d").unwrap_or(0.);
    let n = operands.len();
    for i in 0..n {
        let mut c = operands.get_coord(i);
        u_shift(j, d, fwd, &mut c);
        operands.set_coord(i, &c);
    }
    n
}

macro_rules! uctor {
    ($j:expr, $f:ident, $g:ident, $c:ident) => {
        fn $f(op: &Op, _ctx: &dyn Context, o: &mut dyn CoordinateSet) -> usize {
            u_apply($j, op, o, true)
        }
        fn $g(op: &Op, _ctx: &dyn Context, o: &mut dyn CoordinateSet) -> usize {
            u_apply($j, op, o, false)
        }
        fn $c(p: &RawParameters, ctx: &dyn Context) -> Result<Op, Error> {
            Op::plain(p, InnerOp($f), if UC[$j].2 { Some(InnerOp($g)) } else { None }, &UGAMUT, ctx)
        }
    };
}
uctor!(0, uf0, ug0, uc0);
uctor!(1, uf1, ug1, uc1);
uctor!(2, uf2, ug2, uc2);
uctor!(3, uf3, ug3, uc3);
uctor!(4, uf4, ug4, uc4);
uctor!(5, uf5, ug5, uc5);

fn ctor(j: u8) -> OpConstructor {
    match j % 6 {
        0 => OpConstructor(uc0),
        1 => OpConstructor(uc1),
        2 => OpConstructor(uc2),
        3 => OpConstructor(uc3),
        4 => OpConstructor(uc4),
        _ => OpConstructor(uc5),
    }
}

// ---- 1b. User constructors of EVERY outcome -------------------------------------------
//
// A user constructor need not accept: it may refuse always, or for some parameter texts only,
// with any public `Error` variant. What it returned (for which step text) is written to a
// thread-local log, so the oracle knows exactly what the documented resolution order obliges
// `op()` to hand back for a definition naming a user-registered operator.

thread_local! {
    static UCTOR_LOG: RefCell<Vec<(String, Result<(), String>)>> = const { RefCell::new(Vec::new()) };
}
fn uctor_log_take() -> Vec<(String, Result<(), String>)> {
    UCTOR_LOG.with(|l| std::mem::take(&mut *l.borrow_mut()))
}

const ERROR_VARIANTS: [&str; 16] = [
    "MissingParam", "BadParam", "General", "Syntax", "NotFound(own-name)", "NotFound(other)", "Unsupported", "Invalid",
    "Operator", "Unknown", "NonInvertible", "Recursion", "InvalidHeader", "Unexpected", "Io", "Utf8Error",
];

fn make_error(v: u8, name: &str, def: &str) -> Error {
    match v % 16 {
        0 => Error::MissingParam("by".to_string()),
        1 => Error::BadParam("by".to_string(), "refused by the user constructor".to_string()),
        2 => Error::General("refused by the user constructor"),
        3 => Error::Syntax(format!("refused by the user constructor: {def}")),
        4 => Error::NotFound(name.to_string(), ": refused by the user constructor".to_string()),
        5 => Error::NotFound("something-the-user-constructor-needs".to_string(), String::new()),
        6 => Error::Unsupported(format!("refused by the user constructor: {name}")),
        7 => Error::Invalid("refused by the user constructor".to_string()),
        8 => Error::Operator("userop", "refused by the user constructor"),
        9 => Error::Unknown,
        10 => Error::NonInvertible(def.to_string()),
        11 => Error::Recursion(name.to_string(), def.to_string()),
        12 => Error::InvalidHeader { expected: "user".to_string(), found: "refusal".to_string() },
        13 => Error::Unexpected { message: "refused by the user constructor".to_string(), expected: "by".to_string(), found: String::new() },
        14 => Error::Io(std::io::Error::new(std::io::ErrorKind::NotFound, "refused by the user constructor")),
        _ => Error::Utf8Error(String::from_utf8(vec![0xffu8, 0xfe]).unwrap_err().utf8_error()),
    }
}

pub const RGAMUT_OPT: [OpParameter; 2] = [OpParameter::Flag { key: "inv" }, OpParameter::Real { key: "by", default: Some(0.) }];
pub const RGAMUT_REQ: [OpParameter; 2] = [OpParameter::Flag { key: "inv" }, OpParameter::Real { key: "by", default: None }];
/// what an accepting outcome-constructor's operator adds to the first element (plus `by`)
const RBASE: f64 = 7000.;

fn r_apply(op: &Op, operands: &mut dyn CoordinateSet, fwd: bool) -> usize {
    let s = RBASE + op.params.real("by").unwrap_or(0.);
    let n = operands.len();
    for i in 0..n {
        let mut c = operands.get_coord(i);
        if fwd {
            c[0] += s;
        } else {
            c[0] -= s;
        }
        operands.set_coord(i, &c);
    }
    n
}
fn rf(op: &Op, _ctx: &dyn Context, o: &mut dyn CoordinateSet) -> usize {
    r_apply(op, o, true)
}
fn rg(op: &Op, _ctx: &dyn Context, o: &mut dyn CoordinateSet) -> usize {
    r_apply(op, o, false)
}

/// M = 0: refuses always with variant V; 1: refuses with variant V unless the step text gives `by`;
/// 2: `by` is a required parameter (the refusal comes from the library's own parameter parser:
/// MissingParam / BadParam); 3: accepts (`by` optional; a malformed value is still a BadParam)
fn rc<const V: u8, const M: u8>(p: &RawParameters, ctx: &dyn Context) -> Result<Op, Error> {
    let def = p.definition.clone();
    let name = def.operator_name();
    let has_by = def.split_into_parameters().contains_key("by");
    let r = match M {
        0 => Err(make_error(V, &name, &def)),
        1 if !has_by => Err(make_error(V, &name, &def)),
        2 => Op::plain(p, InnerOp(rf), Some(InnerOp(rg)), &RGAMUT_REQ, ctx),
        _ => Op::plain(p, InnerOp(rf), Some(InnerOp(rg)), &RGAMUT_OPT, ctx),
    };
    let logged = match &r {
        Ok(_) => Ok(()),
        Err(e) => Err(format!("{e:?}")),
    };
    UCTOR_LOG.with(|l| l.borrow_mut().push((def, logged)));
    r
}

fn outcome_ctor(v: u8, m: u8) -> OpConstructor {
    macro_rules! arms {
        ($($v:literal)*) => {
            match (v % 16, m % 4) {
                (_, 2) => OpConstructor(rc::<0, 2>),
                (_, 3) => OpConstructor(rc::<0, 3>),
                $(($v, 0) => OpConstructor(rc::<$v, 0>), ($v, _) => OpConstructor(rc::<$v, 1>),)*
                _ => unreachable!(),
            }
        };
    }
    arms!(0 1 2 3 4 5 6 7 8 9 10 11 12 13 14 15)
}

/// Refusing constructors for the random histories (constructor ids 6..12 there): K = 0..=3 refuse
/// always (MissingParam, BadParam, General, NotFound(own name)); K = 4, 5 refuse (MissingParam,
/// Syntax) unless the step text itself gives `d`, and then behave as the accepting constructors 4, 5.
const HREFUSE: [&str; 6] = ["always MissingParam", "always BadParam", "always General", "always NotFound(own name)", "MissingParam unless d given, then U4", "Syntax unless d given, then U5"];
fn hc<const K: u8>(p: &RawParameters, ctx: &dyn Context) -> Result<Op, Error> {
    let def = &p.definition;
    let has_d = def.split_into_parameters().contains_key("d");
    match K {
        0 => Err(Error::MissingParam("d".to_string())),
        1 => Err(Error::BadParam("d".to_string(), "refused by the user constructor".to_string())),
        2 => Err(Error::General("refused by the user constructor")),
        3 => Err(Error::NotFound(def.operator_name(), ": refused by the user constructor".to_string())),
        4 if has_d => uc4(p, ctx),
        4 => Err(Error::MissingParam("d".to_string())),
        _ if has_d => uc5(p, ctx),
        _ => Err(Error::Syntax(format!("refused by the user constructor: {def}"))),
    }
}

/// constructor ids of the histories: 0..6 accept (U0..U5), 6..12 refuse (see `hc`)
fn hctor(c: u8) -> OpConstructor {
    match c % 12 {
        6 => OpConstructor(hc::<0>),
        7 => OpConstructor(hc::<1>),
        8 => OpConstructor(hc::<2>),
        9 => OpConstructor(hc::<3>),
        10 => OpConstructor(hc::<4>),
        11 => OpConstructor(hc::<5>),
        j => ctor(j),
    }
}

// =====================================================================================
// 2. Definition AST and rendering
// =====================================================================================

#[derive(Clone, Debug, Serialize, Deserialize, PartialEq, Eq, Hash)]
enum Arg {
    None,
    Lit(i16),
    Dollar,         // x=$k d=$k
    DollarDef(i16), // x=$k(v) d=$k(v)
}

#[derive(Clone, Debug, Serialize, Deserialize, PartialEq, Eq, Hash)]
enum GridSel {
    Cat(String),      // a file of the fixed tree
    Priv(u8),         // history-private slot (resolved to a file name when used)
    Resolved(String), // concrete history-private file name
}

#[derive(Clone, Debug, Serialize, Deserialize, PartialEq, Eq, Hash)]
enum Step {
    Call { name: String, arg: Arg, inv: bool },
    Fixed { i: u8, inv: bool },
    /// `gridshift grids=<file>` or, optional, `gridshift grids=@<file>`
    Grid {
        g: GridSel,
        inv: bool,
        #[serde(default)]
        optional: bool,
    },
}

#[derive(Clone, Debug, Serialize, Deserialize, PartialEq, Eq, Hash)]
struct Def {
    steps: Vec<Step>,
    piped: bool, // a single step rendered with a leading '|' is a one-step pipeline
}

impl Def {
    fn is_pipeline(&self) -> bool {
        self.piped || self.steps.len() != 1
    }
}

/// Fixed built-in definitions used as opaque primitives (behaviour from the reference context)
const FIXED: [&str; 11] = [
    "adapt from=neuf_deg",
    "adapt to=neuf_deg",
    "adapt from=enuf_deg",
    "adapt to=enuf_deg",
    "adapt from=neuf",
    "adapt to=neuf",
    "adapt from=enuf",
    "adapt to=enuf",
    "cart",
    "utm zone=32",
    "axisswap order=2,1",
];

fn args_text(arg: &Arg) -> String {
    match arg {
        Arg::None => String::new(),
        Arg::Lit(v) => format!(" x={v} d={v} k={v}"),
        // no `k=$k`: a self-referring binding is not a documented form
        Arg::Dollar => " x=$k d=$k".to_string(),
        Arg::DollarDef(v) => format!(" x=$k({v}) d=$k({v})"),
    }
}

fn grid_file(g: &GridSel) -> String {
    match g {
        GridSel::Cat(n) | GridSel::Resolved(n) => n.clone(),
        GridSel::Priv(s) => format!("c18-unwritten-{s}.geoid"),
    }
}

/// (head, tail): head = operator name, tail = parameters incl. a final " inv"
fn step_parts(s: &Step) -> (String, String) {
    let (head, mut tail, inv) = match s {
        Step::Call { name, arg, inv } => (name.clone(), args_text(arg), *inv),
        Step::Fixed { i, inv } => {
            let t = FIXED[*i as usize % FIXED.len()];
            let (h, r) = t.split_once(' ').unwrap_or((t, ""));
            (h.to_string(), if r.is_empty() { String::new() } else { format!(" {r}") }, *inv)
        }
        Step::Grid { g, inv, optional } => ("gridshift".to_string(), format!(" grids={}{}", if *optional { "@" } else { "" }, grid_file(g)), *inv),
    };
    if inv {
        tail.push_str(" inv");
    }
    (head, tail)
}

fn step_name(s: &Step) -> String {
    step_parts(s).0
}

/// Layouts: 0 single line; 1 one step per line, continuation lines, blank lines (LF);
/// 2 same with CR/LF; 3 with comment lines and inline comments (pipelines only, else as 1)
fn render_def(def: &Def, layout: u8) -> String {
    let pipe = def.is_pipeline();
    let layout = layout % 4;
    let mut out = String::new();
    match layout {
        0 => {
            let parts: Vec<String> = def.steps.iter().map(|s| {
                let (h, t) = step_parts(s);
                format!("{h}{t}")
            }).collect();
            if pipe && parts.len() == 1 {
                out = format!("| {}", parts[0]);
            } else {
                out = parts.join(" | ");
            }
        }
        _ => {
            let comments = layout == 3 && pipe;
            if comments {
                out.push_str("# a block comment\n\n");
            } else if pipe {
                out.push('\n');
            }
            for (k, s) in def.steps.iter().enumerate() {
                let (h, t) = step_parts(s);
                if pipe {
                    out.push_str("|   ");
                }
                out.push_str(&h);
                if t == " inv" {
                    out.push_str(" inv");
                } else if !t.is_empty() {
                    // continuation line; a final " inv" stays last and blank-preceded
                    out.push_str("\n:     ");
                    out.push_str(t.trim_start());
                }
                if comments && k % 2 == 0 {
                    out.push_str("  # inline comment");
                }
                out.push('\n');
                if pipe && k % 2 == 1 {
                    out.push('\n');
                }
            }
            if comments {
                out.push_str("# trailing comment\n");
            }
            if layout == 2 {
                out = out.replace('\n', "\r\n");
            }
        }
    }
    out
}

// =====================================================================================
// 3. The fixed world on disk: cwd tree + user data tree, resource files, grids
// =====================================================================================

#[derive(Clone, Debug)]
struct FileModel {
    alts: Vec<Option<Def>>, // None = "not found" is an acceptable outcome
    label: &'static str,    // layout class
    in_hist: bool,
}

struct WorldFiles {
    root: PathBuf,
    items: BTreeMap<String, FileModel>,
    grids: Vec<(String, Vec<u8>)>, // catalogue grids as the reference context must see them
}

static WORLD: OnceLock<WorldFiles> = OnceLock::new();
fn world() -> &'static WorldFiles {
    WORLD.get().expect("world not set up")
}

fn helm(v: i16) -> Step {
    Step::Call { name: "helmert".into(), arg: Arg::Lit(v), inv: false }
}
fn call(name: &str, arg: Arg, inv: bool) -> Step {
    Step::Call { name: name.into(), arg, inv }
}
fn one(s: Step) -> Def {
    Def { steps: vec![s], piped: false }
}
fn pipe(steps: Vec<Step>) -> Def {
    Def { steps, piped: true }
}

#[derive(Clone, Copy, PartialEq)]
enum Eol {
    Lf,
    CrLf,
    Cr,
}
#[derive(Clone, Copy, PartialEq)]
enum Ending {
    TermNl,
    TermNoNl,
    OpenNl,
    OpenNoNl,
}

fn eol(s: &str, e: Eol) -> String {
    match e {
        Eol::Lf => s.to_string(),
        Eol::CrLf => s.replace('\n', "\r\n"),
        Eol::Cr => s.replace('\n', "\r"),
    }
}

/// A register: prose, then the fenced items (layout per item), the last one ended as `ending`
fn register_text(title: &str, items: &[(&str, &Def, u8)], e: Eol, ending: Ending) -> String {
    let mut t = format!("# {title}\n\nSome prose mentioning geodesy:items and `code`.\n\n");
    for (k, (suffix, def, layout)) in items.iter().enumerate() {
        let last = k + 1 == items.len();
        t.push_str(&format!("## Item {suffix}\n\n```geodesy:{suffix}\n"));
        let body = render_def(def, *layout).replace("\r\n", "\n");
        t.push_str(body.trim_end_matches('\n'));
        if !last {
            t.push_str("\n```\n\nMore prose.\n\n");
        } else {
            match ending {
                Ending::TermNl => t.push_str("\n```\n"),
                Ending::TermNoNl => t.push_str("\n```"),
                Ending::OpenNl => t.push('\n'),
                Ending::OpenNoNl => {}
            }
        }
    }
    eol(&t, e)
}

fn priv_grid_text(v: u8) -> String {
    let x = v as f64 + 0.5;
    format!("54 58 8 16 2 4\n{x} {x} {x}\n{x} {x} {x}\n{x} {x} {x}\n")
}

const CAT_GRIDS: [&str; 9] = [
    "test.datum", "test_subset.datum", "test.geoid", "5458.gsb", "ga.geoid", "uonly.geoid", "nofile.geoid",
    "5458_with_subgrid.gsb", // shipped: root 54..58N 8..16E with a densified child 55..56N 12..14E
    "c18nest.gsb",           // generated: same root, two children, a grandchild inside the first child
];
/// selection pool: the nested NTv2 files three times as likely as the others
const GRID_POOL: [usize; 13] = [0, 1, 2, 3, 4, 5, 6, 7, 8, 7, 8, 7, 8];

/// Little-endian NTv2 file: sub-grids as (name, parent, lat_s, lat_n, lon_w, lon_e, dlat, dlon in
/// degrees, constant lat shift, constant lon shift in arc seconds), written in the given order.
fn ntv2_bytes(subs: &[(&str, &str, f64, f64, f64, f64, f64, f64, f32, f32)]) -> Vec<u8> {
    fn key(b: &mut Vec<u8>, k: &str) {
        let mut t = format!("{k:<8}").into_bytes();
        t.truncate(8);
        b.extend(t);
    }
    fn rec_u32(b: &mut Vec<u8>, k: &str, v: u32) {
        key(b, k);
        b.extend(v.to_le_bytes());
        b.extend([0u8; 4]);
    }
    fn rec_str(b: &mut Vec<u8>, k: &str, v: &str) {
        key(b, k);
        key(b, v);
    }
    fn rec_f64(b: &mut Vec<u8>, k: &str, v: f64) {
        key(b, k);
        b.extend(v.to_le_bytes());
    }
    let mut b = vec![];
    rec_u32(&mut b, "NUM_OREC", 11);
    rec_u32(&mut b, "NUM_SREC", 11);
    rec_u32(&mut b, "NUM_FILE", subs.len() as u32);
    rec_str(&mut b, "GS_TYPE", "SECONDS");
    rec_str(&mut b, "VERSION", "2.0");
    rec_str(&mut b, "SYSTEM_F", "INTER");
    rec_str(&mut b, "SYSTEM_T", "GRS80");
    rec_f64(&mut b, "MAJOR_F", 6378388.0);
    rec_f64(&mut b, "MINOR_F", 6356911.946127946);
    rec_f64(&mut b, "MAJOR_T", 6378137.0);
    rec_f64(&mut b, "MINOR_T", 6356752.314140356);
    for (name, parent, lat_s, lat_n, lon_w, lon_e, dlat, dlon, slat, slon) in subs {
        let rows = ((lat_n - lat_s) / dlat).round() as u32 + 1;
        let cols = ((lon_e - lon_w) / dlon).round() as u32 + 1;
        rec_str(&mut b, "SUB_NAME", name);
        rec_str(&mut b, "PARENT", parent);
        rec_str(&mut b, "CREATED", "20260927");
        rec_str(&mut b, "UPDATED", "20260927");
        rec_f64(&mut b, "S_LAT", lat_s * 3600.);
        rec_f64(&mut b, "N_LAT", lat_n * 3600.);
        rec_f64(&mut b, "E_LONG", -lon_e * 3600.); // positive west
        rec_f64(&mut b, "W_LONG", -lon_w * 3600.);
        rec_f64(&mut b, "LAT_INC", dlat * 3600.);
        rec_f64(&mut b, "LONG_INC", dlon * 3600.);
        rec_u32(&mut b, "GS_COUNT", rows * cols);
        for _ in 0..rows * cols {
            b.extend(slat.to_le_bytes());
            b.extend(slon.to_le_bytes());
            b.extend(0f32.to_le_bytes());
            b.extend(0f32.to_le_bytes());
        }
    }
    b
}

fn setup_world() {
    let pid = std::process::id();
    let tmp = std::env::temp_dir();
    // remove trees left behind by killed runs
    if let Ok(rd) = std::fs::read_dir(&tmp) {
        for e in rd.flatten() {
            let n = e.file_name().to_string_lossy().to_string();
            if let Some(p) = n.strip_prefix("verif-c18-") {
                if let Ok(p) = p.parse::<u32>() {
                    if p != pid && !std::path::Path::new(&format!("/proc/{p}")).exists() {
                        let _ = std::fs::remove_dir_all(e.path());
                    }
                }
            }
        }
    }
    let root = tmp.join(format!("verif-c18-{pid}"));
    let _ = std::fs::remove_dir_all(&root);
    let w = root.join("w").join("geodesy");
    let u = root.join("u").join("geodesy");
    for base in [&w, &u] {
        for d in ["resources", "datum", "geoid", "gsb", "deformation"] {
            std::fs::create_dir_all(base.join(d)).expect("create world dirs");
        }
    }
    let repo = PathBuf::from(std::env::var("VERIF_REPO_DIR").unwrap_or_else(|_| "/repo".into())).join("geodesy");
    let mut grids: Vec<(String, Vec<u8>)> = vec![];
    for (dir, name) in [("datum", "test.datum"), ("datum", "test_subset.datum"), ("geoid", "test.geoid"), ("gsb", "5458.gsb"), ("gsb", "5458_with_subgrid.gsb"), ("deformation", "test.deformation")] {
        let bytes = std::fs::read(repo.join(dir).join(name)).unwrap_or_else(|e| panic!("cannot read shipped grid {name}: {e}"));
        std::fs::write(w.join(dir).join(name), &bytes).expect("copy grid");
        grids.push((name.to_string(), bytes));
    }
    let nest = ntv2_bytes(&[
        ("GRAND", "CHILDA", 55.25, 55.75, 12.5, 13.5, 0.25, 0.25, 50., 60.),
        ("CHILDB", "ROOT", 56.5, 57.5, 9., 11., 0.5, 0.5, 30., 40.),
        ("ROOT", "NONE", 54., 58., 8., 16., 1., 1., 1., 2.),
        ("CHILDA", "ROOT", 55., 56., 12., 14., 0.5, 0.5, 10., 20.),
    ]);
    std::fs::write(w.join("gsb").join("c18nest.gsb"), &nest).unwrap();
    grids.push(("c18nest.gsb".into(), nest));
    let ga = "54 58 8 16 1 2\n11 11 11 11 11\n11 11 11 11 11\n11 11 11 11 11\n11 11 11 11 11\n11 11 11 11 11\n".to_string();
    std::fs::write(w.join("geoid").join("ga.geoid"), &ga).unwrap();
    grids.push(("ga.geoid".into(), ga.into_bytes()));
    let uo = "54 58 8 16 2 2\n13 13 13 13 13\n13 13 13 13 13\n13 13 13 13 13\n".to_string();
    std::fs::write(u.join("geoid").join("uonly.geoid"), &uo).unwrap();
    grids.push(("uonly.geoid".into(), uo.into_bytes()));
    for v in 0..8u8 {
        grids.push((format!("pv{v}.geoid"), priv_grid_text(v).into_bytes()));
    }

    // ---- resource files ---------------------------------------------------------------
    let mut items: BTreeMap<String, FileModel> = BTreeMap::new();
    let mut add = |name: &str, alts: Vec<Option<Def>>, label: &'static str, in_hist: bool| {
        items.insert(name.to_string(), FileModel { alts, label, in_hist });
    };
    let wr = w.join("resources");
    let ur = u.join("resources");

    // reg.md: several fenced items, a prefix-named item BEFORE its prefix, nested, parameterised
    let d_ab = pipe(vec![helm(102), call("addone", Arg::None, false)]);
    let d_a = one(helm(101));
    let d_mid = one(call("helmert", Arg::DollarDef(7), false));
    let d_nest = pipe(vec![call("reg:a", Arg::None, false), call("solo:one", Arg::Lit(3), true)]);
    let d_useop = pipe(vec![call("myop", Arg::Lit(5), false), call("addone", Arg::None, false)]);
    let d_grid = pipe(vec![Step::Grid { g: GridSel::Cat("test.datum".into()), inv: false, optional: false }, call("addone", Arg::None, false)]);
    let d_inv = one(call("helmert", Arg::Lit(104), true));
    let d_last = one(helm(105));
    std::fs::write(
        wr.join("reg.md"),
        register_text(
            "Reg",
            &[("ab", &d_ab, 3), ("a", &d_a, 0), ("mid", &d_mid, 1), ("nest", &d_nest, 1), ("useop", &d_useop, 0), ("grid", &d_grid, 1), ("inv", &d_inv, 0), ("last", &d_last, 0)],
            Eol::Lf,
            Ending::TermNoNl,
        ),
    )
    .unwrap();
    add("reg:ab", vec![Some(d_ab)], "several-items-comments", true);
    add("reg:a", vec![Some(d_a)], "several-items-prefix-name", true);
    add("reg:mid", vec![Some(d_mid)], "several-items-parameterised", true);
    add("reg:nest", vec![Some(d_nest)], "several-items-nested", true);
    add("reg:useop", vec![Some(d_useop)], "several-items-user-op", true);
    add("reg:grid", vec![Some(d_grid)], "several-items-grid", true);
    add("reg:inv", vec![Some(d_inv)], "several-items-inv", true);
    add("reg:last", vec![Some(d_last)], "item-at-end-of-file-no-newline", true);
    add("reg:b", vec![None], "absent-item-suffix-of-other", true);
    add("reg:nosuch", vec![None], "absent-item", true);
    add("none:such", vec![None], "absent-file", true);

    // crlf.md
    let c_a = one(helm(201));
    let c_b = pipe(vec![helm(202), call("addone", Arg::None, false)]);
    let c_z = one(helm(203));
    std::fs::write(wr.join("crlf.md"), register_text("CrLf", &[("a", &c_a, 0), ("b", &c_b, 1), ("z", &c_z, 1)], Eol::CrLf, Ending::TermNl)).unwrap();
    add("crlf:a", vec![Some(c_a)], "crlf", true);
    add("crlf:b", vec![Some(c_b)], "crlf-multiline", true);
    add("crlf:z", vec![Some(c_z)], "crlf-last", true);

    // cr.md (lone CR)
    let r_a = one(helm(211));
    let r_b = pipe(vec![call("addone", Arg::None, false), helm(212)]);
    std::fs::write(wr.join("cr.md"), register_text("Cr", &[("a", &r_a, 0), ("b", &r_b, 1)], Eol::Cr, Ending::TermNl)).unwrap();
    add("cr:a", vec![Some(r_a)], "cr-only", true);
    add("cr:b", vec![Some(r_b)], "cr-only-multiline", true);

    // noterm.md: last item without terminator, trailing newline
    let n_a = one(helm(301));
    let n_open = pipe(vec![helm(302), call("addone", Arg::None, false)]);
    std::fs::write(wr.join("noterm.md"), register_text("NoTerm", &[("a", &n_a, 0), ("open", &n_open, 0)], Eol::Lf, Ending::OpenNl)).unwrap();
    add("noterm:a", vec![Some(n_a)], "before-unterminated", true);
    add("noterm:open", vec![Some(n_open)], "missing-terminator", true);
    // noterm2.md: only item, no terminator, no trailing newline, CR/LF
    let n2 = one(helm(303));
    std::fs::write(wr.join("noterm2.md"), register_text("NoTerm2", &[("open", &n2, 0)], Eol::CrLf, Ending::OpenNoNl)).unwrap();
    add("noterm2:open", vec![Some(n2)], "missing-terminator-crlf-no-newline", true);
    // eof.md: closing fence are the last bytes
    let e_z = one(helm(311));
    std::fs::write(wr.join("eof.md"), register_text("Eof", &[("z", &e_z, 1)], Eol::Lf, Ending::TermNoNl)).unwrap();
    add("eof:z", vec![Some(e_z)], "fence-last-bytes", true);

    // stand-alone files
    let s_one = one(helm(501));
    std::fs::write(wr.join("solo_one.resource"), "helmert x=501 d=501 k=501\n").unwrap();
    add("solo:one", vec![Some(s_one)], "stand-alone", true);
    let s_crlf = pipe(vec![helm(502), call("addone", Arg::None, false)]);
    std::fs::write(wr.join("solo_crlf.resource"), render_def(&s_crlf, 3).replace('\n', "\r\n")).unwrap();
    add("solo:crlf", vec![Some(s_crlf)], "stand-alone-crlf-comments", true);
    let s_nonl = one(helm(503));
    std::fs::write(wr.join("solo_nonl.resource"), render_def(&s_nonl, 0)).unwrap();
    add("solo:nonl", vec![Some(s_nonl)], "stand-alone-no-newline", true);

    // both search paths have it: order not documented -> either
    let b1 = one(helm(601));
    let b2 = one(helm(602));
    std::fs::write(wr.join("both.md"), register_text("Both", &[("e", &b1, 0)], Eol::Lf, Ending::TermNl)).unwrap();
    std::fs::write(ur.join("both.md"), register_text("Both", &[("e", &b2, 0)], Eol::Lf, Ending::TermNl)).unwrap();
    add("both:e", vec![Some(b1), Some(b2)], "both-paths-either", true);
    // stand-alone and register item of the same name: order not documented -> either
    let m1 = one(helm(611));
    let m2 = one(helm(612));
    std::fs::write(wr.join("mix.md"), register_text("Mix", &[("a", &m1, 0)], Eol::Lf, Ending::TermNl)).unwrap();
    std::fs::write(wr.join("mix_a.resource"), render_def(&m2, 0)).unwrap();
    add("mix:a", vec![Some(m1), Some(m2)], "file-and-register-either", true);
    // local register lacks the item, the user path register of the same name has it: either found or not
    let ru = one(helm(621));
    std::fs::write(ur.join("reg.md"), register_text("UReg", &[("u", &ru, 0)], Eol::Lf, Ending::TermNl)).unwrap();
    add("reg:u", vec![Some(ru), None], "local-register-lacks-item", true);
    // user path only
    let uv = one(helm(631));
    let uw = pipe(vec![helm(632), call("addone", Arg::None, false)]);
    std::fs::write(ur.join("ureg.md"), register_text("UOnly", &[("v", &uv, 0), ("w", &uw, 2)], Eol::Lf, Ending::TermNl)).unwrap();
    add("ureg:v", vec![Some(uv)], "user-path-register", true);
    add("ureg:w", vec![Some(uw)], "user-path-register-multiline", true);
    let us = one(helm(641));
    std::fs::write(ur.join("usolo_w.resource"), format!("{}\n", render_def(&us, 0))).unwrap();
    add("usolo:w", vec![Some(us)], "user-path-stand-alone", true);
    // user path grid inside a user path macro
    let ug = pipe(vec![Step::Grid { g: GridSel::Cat("uonly.geoid".into()), inv: false, optional: false }, helm(651)]);
    std::fs::write(ur.join("ugrid.md"), register_text("UGrid", &[("g", &ug, 1)], Eol::CrLf, Ending::TermNl)).unwrap();
    add("ugrid:g", vec![Some(ug)], "user-path-register-grid", true);

    // comments in single-step items (documented: "# inline comments are OK, block comments too")
    let cc = one(helm(77));
    let cd = one(helm(78));
    std::fs::write(
        wr.join("cmt.md"),
        "# Comments\n\n```geodesy:c\n# adds 77\nhelmert x=77 d=77 k=77\n```\n\n```geodesy:d\nhelmert x=78 d=78 k=78 # adds 78\n```\n",
    )
    .unwrap();
    add("cmt:c", vec![Some(cc)], "single-step-item-with-comment-line", false);
    add("cmt:d", vec![Some(cd)], "single-step-item-with-inline-comment", true);

    std::env::set_var("XDG_DATA_HOME", root.join("u"));
    std::env::set_current_dir(root.join("w")).expect("chdir into the world");
    let _ = WORLD.set(WorldFiles { root, items, grids });
}

fn teardown_world() {
    let _ = std::env::set_current_dir("/");
    if let Some(l) = LATE_ROOT.get() {
        let _ = std::fs::remove_dir_all(l);
    }
    let _ = std::fs::remove_dir_all(&world().root);
}

// =====================================================================================
// 4. The reference model: registry, resolution, evaluation
// =====================================================================================

#[derive(Clone, Debug, PartialEq)]
enum Prim {
    Add1,
    Helm(i64),
    Noop,
    User { c: u8, d: i64 },
    /// the operator of an accepting outcome-constructor (`rc`): RBASE + by on the first element
    By(i64),
    Fixed(u8),
    Grid(String), // name in the reference context
    NoGrid,       // gridshift whose only grid is an absent @optional one
}

#[derive(Clone, Debug, PartialEq)]
enum Node {
    Leaf { prim: Prim, inverted: bool },
    Seq { items: Vec<Node>, inverted: bool },
}

impl Node {
    fn toggle(&mut self) {
        match self {
            Node::Leaf { inverted, .. } | Node::Seq { inverted, .. } => *inverted = !*inverted,
        }
    }
    fn invertible(&self) -> bool {
        match self {
            Node::Leaf { prim: Prim::User { c, .. }, .. } => UC[*c as usize % 6].2,
            _ => true,
        }
    }
    fn has_noninvertible(&self) -> bool {
        match self {
            Node::Leaf { .. } => !self.invertible(),
            Node::Seq { items, .. } => items.iter().any(|n| n.has_noninvertible()),
        }
    }
    fn has_grid(&self) -> bool {
        match self {
            Node::Leaf { prim, .. } => matches!(prim, Prim::Grid(_)),
            Node::Seq { items, .. } => items.iter().any(|n| n.has_grid()),
        }
    }
    fn describe(&self) -> String {
        match self {
            Node::Leaf { prim, inverted } => format!("{prim:?}{}", if *inverted { "^-1" } else { "" }),
            Node::Seq { items, inverted } => {
                format!("[{}]{}", items.iter().map(|n| n.describe()).collect::<Vec<_>>().join(", "), if *inverted { "^-1" } else { "" })
            }
        }
    }
}

// ---- the pristine reference context (thread local) ----------------------------------

struct RefCtx {
    ctx: GridCtx,
    handles: HashMap<String, OpHandle>,
}
thread_local! {
    static REF: RefCell<Option<RefCtx>> = const { RefCell::new(None) };
}

fn ref_apply(text: &str, fwd: bool, data: &mut Vec<Coor4D>) -> usize {
    REF.with(|r| {
        let mut r = r.borrow_mut();
        if r.is_none() {
            let mut ctx = GridCtx::new();
            for (name, bytes) in &world().grids {
                ctx.add_grid_bytes(name, bytes).unwrap_or_else(|e| panic!("reference grid {name} does not decode: {e:?}"));
            }
            *r = Some(RefCtx { ctx, handles: HashMap::new() });
        }
        let rc = r.as_mut().unwrap();
        let h = match rc.handles.get(text) {
            Some(h) => *h,
            None => {
                let h = rc.ctx.op(text).unwrap_or_else(|e| panic!("reference definition '{text}' does not instantiate: {e:?}"));
                rc.handles.insert(text.to_string(), h);
                h
            }
        };
        rc.ctx.apply(h, if fwd { Fwd } else { Inv }, data).unwrap_or_else(|e| panic!("reference apply '{text}': {e:?}"))
    })
}

/// Singleton results of `text` in the pristine reference context; None if it does not instantiate there
fn ref_try_singletons(text: &str, fwd: bool, pr: &[Coor4D]) -> Option<Vec<Out>> {
    REF.with(|r| {
        let mut r = r.borrow_mut();
        if r.is_none() {
            let mut ctx = GridCtx::new();
            for (name, bytes) in &world().grids {
                ctx.add_grid_bytes(name, bytes).unwrap_or_else(|e| panic!("reference grid {name} does not decode: {e:?}"));
            }
            *r = Some(RefCtx { ctx, handles: HashMap::new() });
        }
        let rc = r.as_mut().unwrap();
        let h = match rc.handles.get(text) {
            Some(h) => *h,
            None => {
                let h = guard(|| rc.ctx.op(text)).ok()?.ok()?;
                rc.handles.insert(text.to_string(), h);
                h
            }
        };
        let mut out = vec![];
        for p in pr {
            let mut one = vec![*p];
            let c = guard(|| rc.ctx.apply(h, if fwd { Fwd } else { Inv }, &mut one)).ok()?;
            out.push(Out { count: c.map_err(|e| format!("{e:?}")), data: bits(&one) });
        }
        Some(out)
    })
}

/// Reference for grid operators: every tuple on its own, through a context whose grid object
/// has just been decoded from the file bytes and has never served any other query. The result
/// cannot depend on anything applied before, through whatever handle, context or thread.
fn fresh_grid_apply(name: &str, fwd: bool, data: &mut Vec<Coor4D>) -> usize {
    let bytes = &world().grids.iter().find(|(g, _)| g == name).unwrap_or_else(|| panic!("no reference bytes for grid {name}")).1;
    let def = format!("gridshift grids={name}");
    let mut n = 0;
    for c in data.iter_mut() {
        let mut ctx = GridCtx::default();
        ctx.add_grid_bytes(name, bytes).unwrap_or_else(|e| panic!("reference grid {name} does not decode: {e:?}"));
        let h = ctx.op(&def).unwrap_or_else(|e| panic!("reference definition '{def}' does not instantiate: {e:?}"));
        let mut one = [*c];
        n += ctx.apply(h, if fwd { Fwd } else { Inv }, &mut one).unwrap_or_else(|e| panic!("reference apply '{def}': {e:?}"));
        *c = one[0];
    }
    n
}

/// Evaluate the model on `data`. Returns the count; sets `unspec` when the inverse of a
/// non-invertible operator was needed (left unspecified by the documentation).
fn eval(node: &Node, fwd: bool, data: &mut Vec<Coor4D>, unspec: &mut bool) -> usize {
    match node {
        Node::Leaf { prim, inverted } => {
            let f = *inverted != fwd; // library: `if descriptor.inverted != forward { fwd } else { inv }`
            match prim {
                Prim::Add1 => ref_apply("addone", f, data),
                Prim::Helm(v) => ref_apply(&format!("helmert x={v}"), f, data),
                Prim::Noop => ref_apply("noop", f, data),
                Prim::Fixed(i) => ref_apply(FIXED[*i as usize % FIXED.len()], f, data),
                Prim::Grid(name) => fresh_grid_apply(name, f, data),
                // whatever the library documents for "no grid serves the point" (pristine reference context)
                Prim::NoGrid => ref_apply("gridshift grids=@c18-never-there.geoid", f, data),
                Prim::By(by) => {
                    let s = RBASE + *by as f64;
                    for p in data.iter_mut() {
                        if f {
                            p[0] += s;
                        } else {
                            p[0] -= s;
                        }
                    }
                    data.len()
                }
                Prim::User { c, d } => {
                    let j = *c as usize % 6;
                    if !f && !UC[j].2 {
                        *unspec = true;
                        return 0;
                    }
                    for p in data.iter_mut() {
                        u_shift(j, *d as f64, f, p);
                    }
                    data.len()
                }
            }
        }
        Node::Seq { items, inverted } => {
            let f = *inverted != fwd;
            let mut n = usize::MAX;
            if f {
                for it in items {
                    n = n.min(eval(it, true, data, unspec));
                }
            } else {
                for it in items.iter().rev() {
                    n = n.min(eval(it, false, data, unspec));
                }
            }
            if n == usize::MAX {
                n = data.len();
            }
            n
        }
    }
}

// ---- registry and resolution ------------------------------------------------------------

#[derive(Clone, Debug, Default)]
struct Registry {
    plain: bool,
    ops: BTreeMap<String, u8>,
    macros: BTreeMap<String, Def>,
}

#[derive(Clone, Debug)]
struct PrivGrid {
    v: u8,
    removed: bool,
    /// false: the name has been reserved (and possibly asked for) but no file of that name ever existed
    written: bool,
}

enum Stop {
    Err(String),
    Unspec(String),
}

struct Resolver<'a> {
    reg: &'a Registry,
    priv_files: &'a BTreeMap<String, PrivGrid>,
    choices: Vec<usize>,
    arity: Vec<usize>,
    next_point: usize,
    touched: BTreeSet<String>,
    labels: BTreeSet<&'static str>,
}

impl<'a> Resolver<'a> {
    fn choose(&mut self, m: usize) -> usize {
        let k = self.next_point;
        self.next_point += 1;
        if self.arity.len() <= k {
            self.arity.push(m);
        }
        self.choices.get(k).copied().unwrap_or(0).min(m - 1)
    }

    fn value(arg: &Arg, env: Option<i64>) -> Result<i64, Stop> {
        match arg {
            Arg::Lit(v) => Ok(*v as i64),
            Arg::None => Ok(env.unwrap_or(0)),
            Arg::Dollar => env.ok_or_else(|| Stop::Err("'$k' without a caller value".into())),
            Arg::DollarDef(v) => Ok(env.unwrap_or(*v as i64)),
        }
    }

    /// -> (node, names of the reported steps)
    fn def(&mut self, def: &Def, env: Option<i64>, path: &mut Vec<String>) -> Result<(Node, Vec<String>), Stop> {
        if path.len() > 10 {
            return Err(Stop::Unspec("macro nesting deeper than 10".into()));
        }
        if def.is_pipeline() {
            let mut items = vec![];
            let mut names = vec![];
            for s in &def.steps {
                let (n, _) = self.step(s, env, path)?;
                items.push(n);
                names.push(step_name(s));
            }
            return Ok((Node::Seq { items, inverted: false }, names));
        }
        self.step(&def.steps[0], env, path)
    }

    fn step(&mut self, s: &Step, env: Option<i64>, path: &mut Vec<String>) -> Result<(Node, Vec<String>), Stop> {
        match s {
            Step::Fixed { i, inv } => Ok((Node::Leaf { prim: Prim::Fixed(*i), inverted: *inv }, vec![step_name(s)])),
            Step::Grid { g, inv, optional } => {
                if !self.reg.plain {
                    if *optional {
                        return Err(Stop::Unspec("an @optional grid in a context without grid access".into()));
                    }
                    return Err(Stop::Err("Minimal has no grid access".into()));
                }
                // an @optional grid that is not there is skipped: the operator is a gridshift without grids
                let skipped = Ok((Node::Leaf { prim: Prim::NoGrid, inverted: *inv }, vec![step_name(s)]));
                let file = grid_file(g);
                let refname = match g {
                    GridSel::Cat(n) => {
                        if n == "nofile.geoid" || !world().grids.iter().any(|(g, _)| g == n) {
                            if *optional {
                                return skipped;
                            }
                            return Err(Stop::Err(format!("grid file {n} does not exist")));
                        }
                        n.clone()
                    }
                    _ => match self.priv_files.get(&file) {
                        // documented lookup: the file is looked for at instantiation time. A name asked
                        // for in vain earlier (in any context) is found as soon as its file exists.
                        Some(p) if p.written => {
                            if p.removed && self.choose(2) == 1 {
                                // removed and not in the cache (which any thread may clear at any time)
                                if *optional {
                                    return skipped;
                                }
                                return Err(Stop::Err(format!("grid file {file} removed")));
                            }
                            format!("pv{}.geoid", p.v % 8)
                        }
                        _ => {
                            if *optional {
                                return skipped;
                            }
                            return Err(Stop::Err(format!("grid file {file} does not exist (yet)")));
                        }
                    },
                };
                Ok((Node::Leaf { prim: Prim::Grid(refname), inverted: *inv }, vec![step_name(s)]))
            }
            Step::Call { name, arg, inv } => {
                self.touched.insert(name.clone());
                let colon = name.contains(':');
                if !colon {
                    // user operator?
                    if let Some(c) = self.reg.ops.get(name) {
                        // a refusing user constructor: the definition gets the user's error - resolution
                        // stops at the user-registered operator, whatever a built-in of that name would do
                        let mut c = *c % 12;
                        if c >= 6 {
                            let k = c - 6;
                            let has_d = !matches!(arg, Arg::None); // `d` in the step text itself
                            if k < 4 || !has_d {
                                return Err(Stop::Err(format!("the user constructor registered as '{name}' refuses ({})", HREFUSE[k as usize])));
                            }
                            c = k; // accepts: behaves as U4 / U5
                        }
                        let d = Self::value(arg, env)?;
                        let node = Node::Leaf { prim: Prim::User { c, d }, inverted: *inv };
                        if *inv && !node.invertible() {
                            return Err(Stop::Err(format!("'{name} inv' on a non-invertible user operator")));
                        }
                        return Ok((node, vec![name.clone()]));
                    }
                } else {
                    if self.reg.ops.contains_key(name) {
                        return Err(Stop::Unspec(format!("user operator registered under the macro-style name '{name}'")));
                    }
                    // run-time macro first, then (Plain) files
                    let mut body: Option<Def> = self.reg.macros.get(name).cloned();
                    if body.is_none() && self.reg.plain {
                        if let Some(fm) = world().items.get(name) {
                            self.labels.insert(fm.label);
                            let k = if fm.alts.len() > 1 { self.choose(fm.alts.len()) } else { 0 };
                            body = fm.alts[k].clone();
                        }
                    }
                    if let Some(body) = body {
                        if path.contains(name) {
                            return Err(Stop::Err(format!("cyclic macro '{name}'")));
                        }
                        let env2 = match arg {
                            Arg::Lit(v) => Some(*v as i64),
                            Arg::None => env,
                            _ => return Err(Stop::Unspec("'$' forwarding on a macro invocation".into())),
                        };
                        path.push(name.clone());
                        let r = self.def(&body, env2, path);
                        path.pop();
                        let (mut node, names) = r?;
                        if *inv {
                            if !node.invertible() {
                                return Err(Stop::Err(format!("'{name} inv' expands to a non-invertible operator")));
                            }
                            node.toggle();
                        }
                        return Ok((node, names));
                    }
                }
                // built-in?
                let prim = match name.as_str() {
                    "addone" => Prim::Add1,
                    "noop" | "longlat" | "lonlat" | "latlon" | "latlong" => Prim::Noop,
                    "helmert" => Prim::Helm(Self::value(arg, env)?),
                    _ => return Err(Stop::Err(format!("unknown name '{name}'"))),
                };
                // noop has an empty gamut: its `inv` flag is not even read
                let inverted = *inv && prim != Prim::Noop;
                Ok((Node::Leaf { prim, inverted }, vec![name.clone()]))
            }
        }
    }
}

#[derive(Clone, Debug)]
enum Alt {
    Ok(Node, Vec<String>),
    Err(String),
}

struct Expectation {
    alts: Vec<Alt>,
    unspec: Option<String>,
    touched: BTreeSet<String>,
    labels: BTreeSet<&'static str>,
}

fn expect(def: &Def, reg: &Registry, priv_files: &BTreeMap<String, PrivGrid>) -> Expectation {
    let mut out = Expectation { alts: vec![], unspec: None, touched: BTreeSet::new(), labels: BTreeSet::new() };
    let mut choices: Vec<usize> = vec![];
    for _round in 0..64 {
        let mut r = Resolver { reg, priv_files, choices: choices.clone(), arity: vec![], next_point: 0, touched: BTreeSet::new(), labels: BTreeSet::new() };
        let res = r.def(def, None, &mut vec![]);
        out.touched.extend(r.touched.iter().cloned());
        out.labels.extend(r.labels.iter().cloned());
        match res {
            Ok((n, s)) => out.alts.push(Alt::Ok(n, s)),
            Err(Stop::Err(m)) => out.alts.push(Alt::Err(m)),
            Err(Stop::Unspec(m)) => {
                out.unspec = Some(m);
                return out;
            }
        }
        // odometer over the choice points seen in this round
        let arity = r.arity.clone();
        choices.resize(arity.len(), 0);
        let mut k = arity.len();
        loop {
            if k == 0 {
                return out;
            }
            k -= 1;
            if choices[k] + 1 < arity[k] {
                choices[k] += 1;
                choices.truncate(k + 1);
                break;
            }
        }
    }
    out.unspec = Some("more than 64 combinations of undocumented choices".into());
    out
}

// =====================================================================================
// 5. Library side: contexts, fingerprints
// =====================================================================================

enum AnyCtx {
    Min(Minimal),
    Pla(Plain),
}

impl AnyCtx {
    fn make(plain: bool, with_new: bool) -> AnyCtx {
        match (plain, with_new) {
            (false, true) => AnyCtx::Min(Minimal::new()),
            (false, false) => AnyCtx::Min(Minimal::default()),
            (true, true) => AnyCtx::Pla(Plain::new()),
            (true, false) => AnyCtx::Pla(Plain::default()),
        }
    }
    fn op(&mut self, d: &str) -> Result<OpHandle, Error> {
        match self {
            AnyCtx::Min(c) => c.op(d),
            AnyCtx::Pla(c) => c.op(d),
        }
    }
    fn apply(&self, h: OpHandle, dir: Direction, data: &mut dyn CoordinateSet) -> Result<usize, Error> {
        match self {
            AnyCtx::Min(c) => c.apply(h, dir, data),
            AnyCtx::Pla(c) => c.apply(h, dir, data),
        }
    }
    fn steps(&self, h: OpHandle) -> Result<Vec<String>, Error> {
        match self {
            AnyCtx::Min(c) => c.steps(h).cloned(),
            AnyCtx::Pla(c) => c.steps(h).cloned(),
        }
    }
    fn params(&self, h: OpHandle, i: usize) -> Result<ParsedParameters, Error> {
        match self {
            AnyCtx::Min(c) => c.params(h, i),
            AnyCtx::Pla(c) => c.params(h, i),
        }
    }
    fn register_op(&mut self, n: &str, c: OpConstructor) {
        match self {
            AnyCtx::Min(x) => x.register_op(n, c),
            AnyCtx::Pla(x) => x.register_op(n, c),
        }
    }
    fn register_resource(&mut self, n: &str, d: &str) {
        match self {
            AnyCtx::Min(x) => x.register_resource(n, d),
            AnyCtx::Pla(x) => x.register_resource(n, d),
        }
    }
}

/// Probe tuples. 0..=2 integer valued, 3.. geographic in radians (lon, lat), 5 cartesian.
/// With respect to the nested NTv2 files (root 54..58N 8..16E, child 55..56N 12..14E, and in the
/// generated file a grandchild 55.25..55.75N 12.5..13.5E and a second child 56.5..57.5N 9..11E):
/// 3 = SW corner of the child, 4 = parent only, 6 = child (grandchild) interior, 7 = second
/// child / parent only, 8 = child only, 9 = just outside the child, 10, 11 = just inside.
fn probes() -> Vec<Coor4D> {
    let g = |lon: f64, lat: f64, h: f64, t: f64| Coor4D([lon.to_radians(), lat.to_radians(), h, t]);
    vec![
        Coor4D([10., 20., 30., 40.]),
        Coor4D([-7., 3., 1000., 2020.]),
        Coor4D([55., 12., 100., 2020.5]),
        g(12., 55., 100., 2020.),
        g(9.5, 56.25, 0., 0.),
        Coor4D([3513638.19380, 778956.45250, 5248216.46900, 2000.]),
        g(13., 55.5, 10., 2000.),
        g(10., 57., 20., 2000.),
        g(12.2, 55.1, 30., 2000.),
        g(11.99, 55.5, 40., 2000.),
        g(12.01, 55.01, 50., 2000.),
        g(13.99, 55.99, 60., 2000.),
    ]
}
/// probe indices that exercise grids (parent-only and child points alternate)
const GEO_PROBES: [usize; 9] = [4, 6, 7, 8, 9, 10, 3, 11, 4];

fn mix64(mut x: u64) -> u64 {
    x = x.wrapping_add(0x9E3779B97F4A7C15);
    x = (x ^ (x >> 30)).wrapping_mul(0xBF58476D1CE4E5B9);
    x = (x ^ (x >> 27)).wrapping_mul(0x94D049BB133111EB);
    x ^ (x >> 31)
}
/// a permutation of 0..n determined by `seed`
fn shuffled(n: usize, seed: u64) -> Vec<usize> {
    let mut v: Vec<usize> = (0..n).collect();
    v.sort_by_key(|i| mix64(seed ^ (*i as u64).wrapping_mul(0x51ED27)));
    v
}

fn bits(v: &[Coor4D]) -> Vec<[u64; 4]> {
    v.iter()
        .map(|c| {
            let mut o = [0u64; 4];
            for k in 0..4 {
                o[k] = if c[k].is_nan() { 0x7ff8_0000_0000_0000 } else { c[k].to_bits() };
            }
            o
        })
        .collect()
}

fn show_bits(b: &[[u64; 4]]) -> String {
    b.iter().take(2).map(|c| format!("[{:?}, {:?}, {:?}, {:?}]", f64::from_bits(c[0]), f64::from_bits(c[1]), f64::from_bits(c[2]), f64::from_bits(c[3]))).collect::<Vec<_>>().join(" ")
}

/// Outcome of one application on a copy of `input`
#[derive(Clone, Debug, PartialEq)]
struct Out {
    count: Result<usize, String>,
    data: Vec<[u64; 4]>,
}

fn lib_apply(ctx: &AnyCtx, h: OpHandle, fwd: bool, input: &[Coor4D]) -> Result<Out, Failure> {
    let mut data = input.to_vec();
    match guard(|| ctx.apply(h, if fwd { Fwd } else { Inv }, &mut data)) {
        Err(p) => Err(Failure { key: format!("panic-apply@{}", p.sig()), msg: format!("apply panics: {} at {}:{}", p.msg, p.file, p.line) }),
        Ok(r) => Ok(Out { count: r.map_err(|e| format!("{e:?}")), data: bits(&data) }),
    }
}

struct HashWriter(u64);
impl std::fmt::Write for HashWriter {
    fn write_str(&mut self, s: &str) -> std::fmt::Result {
        for b in s.bytes() {
            self.0 ^= b as u64;
            self.0 = self.0.wrapping_mul(0x100000001b3);
        }
        Ok(())
    }
}

fn params_write<W: std::fmt::Write>(p: &ParsedParameters, w: &mut W) {
    let _ = write!(
        w,
        "name={:?} boolean={:?} natural={:?} integer={:?} real={:?} series={:?} text={:?} texts={:?} uuid={:?} fourier={:?} ignored={:?} given={:?} grids={}",
        p.name, p.boolean, p.natural, p.integer, p.real, p.series, p.text, p.texts, p.uuid, p.fourier_coefficients, p.ignored, p.given, p.grids.len()
    );
}

/// The behaviour part holds, per probe tuple, the result of applying the handle to that tuple ALONE
/// (a history dependent look-up inside a shared object cannot hide behind a fixed evaluation order).
#[derive(Clone, Debug, PartialEq)]
struct Fp {
    fwd: Vec<Out>,
    inv: Vec<Out>,
    steps: Result<Vec<String>, String>,
    params: Vec<Result<u64, String>>, // digest per step index 0..max(1, nsteps), then one beyond
}

fn singletons(ctx: &AnyCtx, h: OpHandle, fwd: bool, pr: &[Coor4D]) -> Result<Vec<Out>, Failure> {
    pr.iter().map(|p| lib_apply(ctx, h, fwd, std::slice::from_ref(p))).collect()
}

fn static_part(ctx: &AnyCtx, h: OpHandle) -> Result<(Result<Vec<String>, String>, Vec<Result<u64, String>>), Failure> {
    let steps = match guard(|| ctx.steps(h)) {
        Err(p) => return Err(Failure { key: format!("panic-steps@{}", p.sig()), msg: format!("steps panics: {} at {}:{}", p.msg, p.file, p.line) }),
        Ok(r) => r.map_err(|e| format!("{e:?}")),
    };
    let n = steps.as_ref().map(|s| s.len()).unwrap_or(0).max(1);
    let mut params = vec![];
    for i in 0..=n {
        match guard(|| ctx.params(h, i)) {
            Err(p) => return Err(Failure { key: format!("panic-params@{}", p.sig()), msg: format!("params({i}) panics: {} at {}:{}", p.msg, p.file, p.line) }),
            Ok(Ok(p)) => {
                let mut hw = HashWriter(0xcbf29ce484222325);
                params_write(&p, &mut hw);
                params.push(Ok(hw.0));
            }
            Ok(Err(e)) => params.push(Err(format!("{e:?}"))),
        }
    }
    Ok((steps, params))
}

fn fingerprint(ctx: &AnyCtx, h: OpHandle) -> Result<Fp, Failure> {
    let pr = probes();
    let fwd = singletons(ctx, h, true, &pr)?;
    let inv = singletons(ctx, h, false, &pr)?;
    let (steps, params) = static_part(ctx, h)?;
    Ok(Fp { fwd, inv, steps, params })
}

fn show_outs(v: &[Out]) -> String {
    v.iter().take(2).map(|o| format!("{:?} {}", o.count, show_bits(&o.data))).collect::<Vec<_>>().join(" | ")
}

// =====================================================================================
// 6. Histories and their interpreter
// =====================================================================================

#[derive(Clone, Debug, Serialize, Deserialize)]
enum Cmd {
    NewCtx { slot: u8, plain: bool, with_new: bool },
    RegOp { ctx: u8, name: String, ctor: u8 },
    RegRes { ctx: u8, name: String, body: Def, layout: u8 },
    /// register (operator or macro, by name class) under the name a live handle was built from
    Redefine { h: u16, ctor: u8, body: Def, layout: u8 },
    Op { ctx: u8, def: Def, layout: u8 },
    /// instantiate a name that is currently registered (operator or macro) in that context
    OpReg { ctx: u8, sel: u16, arg: Arg, inv: bool, layout: u8, wrap: u8 },
    /// instantiate a grid operator on a history-private grid file (in a Plain context if there is one)
    /// wrap: bit 0 = inside a pipeline, bit 1 = insist on the chosen slot even if its file does not exist yet
    OpPriv {
        ctx: u8,
        slot: u8,
        inv: bool,
        wrap: u8,
        #[serde(default)]
        opt: bool,
    },
    Apply { h: u16, fwd: bool, n: u8, seed: i16 },
    Foreign { h: u16, ctx: u8 },
    ClearGrids,
    WriteGrid { slot: u8, v: u8 },
    RemoveGrid { slot: u8 },
    Burst { threads: u8, rounds: u8, seed: u16, side: bool },
}

#[derive(Clone, Debug, Serialize, Deserialize)]
struct History {
    cmds: Vec<Cmd>,
}

/// built-in names the registry model gives a meaning to
const MODELLED_BUILTINS: [&str; 7] = ["addone", "helmert", "noop", "longlat", "lonlat", "latlon", "latlong"];

struct MCtx {
    any: AnyCtx,
    reg: Registry,
}

impl MCtx {
    fn make(plain: bool, with_new: bool) -> MCtx {
        let mut reg = Registry { plain, ..Default::default() };
        if with_new {
            for (k, (name, body)) in BUILTIN_ADAPTORS.iter().enumerate() {
                // the documented adaptors; bodies as opaque primitives where the harness has them
                let _ = k;
                let i = FIXED.iter().position(|f| f == body).expect("adaptor body known to the harness");
                let def = one(Step::Fixed { i: i as u8, inv: false });
                reg.macros.insert(name.to_string(), def);
            }
        }
        MCtx { any: AnyCtx::make(plain, with_new), reg }
    }
}

/// an instantiation that has been decided (definition, text, expectation) but not executed yet
struct Prepared {
    def: Def,
    text: String,
    ex: Expectation,
    tag: String,
}

struct Live {
    ctx: usize,
    h: OpHandle,
    text: String,
    tree: Option<Node>,
    fp: Fp,
    touched: BTreeSet<String>,
    has_grid: bool,
    first_name: Option<String>,
    born: usize,
}

static PRIV_COUNTER: AtomicU64 = AtomicU64::new(0);

struct Hist {
    ctxs: Vec<MCtx>,
    live: Vec<Live>,
    dead: Vec<OpHandle>,
    all: BTreeSet<OpHandle>,
    slots: [Option<String>; 2],
    priv_files: BTreeMap<String, PrivGrid>,
    created: Vec<PathBuf>,
    asked_before_written: BTreeSet<String>,
    nt: BTreeSet<&'static str>,
    sig: String,
}

impl Drop for Hist {
    fn drop(&mut self) {
        for p in &self.created {
            let _ = std::fs::remove_file(p);
        }
    }
}

impl Hist {
    /// Give every history-private slot the definition mentions a file name (unique in the process),
    /// whether or not a file of that name exists yet: an operator may ask for a grid before its
    /// file appears; the same NAME is then used when the file is written.
    fn reserve_slots(&mut self, def: &Def) {
        for s in &def.steps {
            if let Step::Grid { g: GridSel::Priv(k), .. } = s {
                let k = *k as usize % 2;
                if self.slots[k].is_none() {
                    let name = format!("c18p{}.geoid", PRIV_COUNTER.fetch_add(1, Ordering::Relaxed));
                    self.priv_files.insert(name.clone(), PrivGrid { v: 0, removed: false, written: false });
                    self.slots[k] = Some(name);
                }
            }
        }
    }
}

fn concretize(def: &Def, slots: &[Option<String>; 2]) -> Def {
    let mut d = def.clone();
    for s in d.steps.iter_mut() {
        if let Step::Grid { g, .. } = s {
            if let GridSel::Priv(k) = g {
                let k = *k as usize % 2;
                *g = GridSel::Resolved(slots[k].clone().unwrap_or_else(|| format!("c18-unwritten-{k}.geoid")));
            }
        }
    }
    d
}

fn gen_data(n: usize, seed: i16) -> Vec<Coor4D> {
    // integer valued tuples, points in the child sub-grids and parent-only points of the nested grids, mixed
    (0..n)
        .map(|i| {
            let f = i as f64;
            match i % 3 {
                2 => Coor4D([(8.5 + 0.25 * f).to_radians(), (54.5 + 0.125 * f).to_radians(), seed as f64, 2000.]),
                1 => Coor4D([(12.3 + 0.125 * f).to_radians(), (55.2 + 0.0625 * f).to_radians(), seed as f64, 2000.]),
                _ => Coor4D([seed as f64 + 7. * f, 20. - f, 30. + f, 2000. + f]),
            }
        })
        .collect()
}

fn model_out(node: &Node, fwd: bool, input: &[Coor4D]) -> (Out, bool) {
    let mut data = input.to_vec();
    let mut unspec = false;
    let n = eval(node, fwd, &mut data, &mut unspec);
    (Out { count: Ok(n), data: bits(&data) }, unspec)
}

/// the model's result for every tuple of `input` on its own
fn model_singletons(node: &Node, fwd: bool, input: &[Coor4D]) -> (Vec<Out>, bool) {
    let mut unspec = false;
    let v = input
        .iter()
        .map(|p| {
            let (o, u) = model_out(node, fwd, std::slice::from_ref(p));
            unspec |= u;
            o
        })
        .collect();
    (v, unspec)
}

const MAX_LIVE: usize = 20;

impl Hist {
    fn new() -> Hist {
        Hist {
            ctxs: vec![MCtx::make(false, true), MCtx::make(true, true), MCtx::make(true, true)],
            live: vec![],
            dead: vec![],
            all: BTreeSet::new(),
            slots: [None, None],
            priv_files: BTreeMap::new(),
            created: vec![],
            asked_before_written: BTreeSet::new(),
            nt: BTreeSet::new(),
            sig: String::new(),
        }
    }

    fn registry_text(&self, ci: usize) -> String {
        let r = &self.ctxs[ci].reg;
        let macros: Vec<String> = r.macros.iter().filter(|(k, _)| !BUILTIN_ADAPTORS.iter().any(|a| a.0 == k.as_str() ) || !matches!(r.macros[k.as_str()].steps[0], Step::Fixed { .. }))
            .map(|(k, v)| format!("{k} := {:?}", render_def(v, 0))).collect();
        format!(
            "context #{ci} ({}), user operators {{{}}}, run-time macros {{{}}}",
            if r.plain { "Plain" } else { "Minimal" },
            r.ops.iter().map(|(k, c)| if *c % 12 >= 6 { format!("{k} -> REFUSING({})", HREFUSE[(*c % 12 - 6) as usize]) } else { format!("{k} -> U{c}(+{} on element {}{})", UC[*c as usize % 6].0, UC[*c as usize % 6].1, if UC[*c as usize % 6].2 { "" } else { ", not invertible" }) }).collect::<Vec<_>>().join(", "),
            macros.join(", ")
        )
    }

    fn tag(&self, ci: usize, def: &Def) -> String {
        match &def.steps[0] {
            Step::Fixed { .. } => "fixed".into(),
            Step::Grid { .. } => "grid".into(),
            Step::Call { name, .. } => {
                let r = &self.ctxs[ci].reg;
                if !name.contains(':') {
                    if let Some(c) = r.ops.get(name) {
                        let refusing = *c % 12 >= 6;
                        match (MODELLED_BUILTINS.contains(&name.as_str()), refusing) {
                            (true, false) => "builtin-shadowed-by-user-op".into(),
                            (true, true) => "builtin-shadowed-by-refusing-user-op".into(),
                            (false, false) => "user-op".into(),
                            (false, true) => "refusing-user-op".into(),
                        }
                    } else if MODELLED_BUILTINS.contains(&name.as_str()) {
                        "builtin".into()
                    } else {
                        "unknown-plain-name".into()
                    }
                } else if r.macros.contains_key(name) {
                    if world().items.contains_key(name) && r.plain { "runtime-macro-over-file".into() } else { "runtime-macro".into() }
                } else if r.plain && world().items.contains_key(name) {
                    format!("file:{}", world().items[name].label)
                } else {
                    "unknown-colon-name".into()
                }
            }
        }
    }

    /// Every live handle must still behave, list and parameterise exactly as when created.
    /// Behaviour: every probe tuple is applied ALONE; the evaluations of all live handles (all
    /// contexts), both directions, are interleaved in an order that changes with every history
    /// step, so each evaluation is preceded by arbitrary other applies - through the same handle,
    /// through other handles and contexts sharing the same grid object. Each result must be
    /// bit-identical to the one recorded for that tuple when the handle was created (which was
    /// itself compared with a history-free reference). Then one whole-set application in a
    /// permuted order: every tuple must come out as it does alone.
    fn recheck(&self, after: &str, at: usize) -> CaseResult {
        let pr = probes();
        let np = pr.len();
        let seed = mix64(at as u64 * 0x1_0001 + self.live.len() as u64 * 977 + self.all.len() as u64);
        let total = self.live.len() * 2 * np;
        let mut previous = String::from("nothing");
        for t in shuffled(total, seed) {
            let (li, rest) = (t / (2 * np), t % (2 * np));
            let (fwd, j) = (rest / np == 0, rest % np);
            let l = &self.live[li];
            let out = lib_apply(&self.ctxs[l.ctx].any, l.h, fwd, std::slice::from_ref(&pr[j]))?;
            let want = if fwd { &l.fp.fwd[j] } else { &l.fp.inv[j] };
            if &out != want {
                vfail!(
                    format!("handle-changed-after-{after}"),
                    "operator '{}' instantiated at step {} in context #{} changed after history step {at} ({after}): {} of probe tuple #{j} {:?} applied alone gives count {:?} {}, when the handle was created it gave count {:?} {}; the evaluation directly before this one was: {previous}",
                    l.text, l.born, l.ctx, if fwd { "Fwd" } else { "Inv" }, pr[j], out.count, show_bits(&out.data), want.count, show_bits(&want.data)
                );
            }
            previous = format!("{} of probe tuple #{j} through '{}' (context #{})", if fwd { "Fwd" } else { "Inv" }, l.text, l.ctx);
        }
        for (li, l) in self.live.iter().enumerate() {
            let fwd = (at + li) % 2 == 0;
            let order = shuffled(np, seed ^ li as u64);
            let input: Vec<Coor4D> = order.iter().map(|j| pr[*j]).collect();
            let out = lib_apply(&self.ctxs[l.ctx].any, l.h, fwd, &input)?;
            for (k, j) in order.iter().enumerate() {
                let want = if fwd { &l.fp.fwd[*j] } else { &l.fp.inv[*j] };
                if out.count.is_err() || out.data[k] != want.data[0] {
                    vfail!(
                        format!("handle-changed-after-{after}"),
                        "operator '{}' (context #{}) after history step {at} ({after}): {} of the probe tuples in the order {order:?} gives {:?} {} for tuple #{j} {:?}, but {} for that tuple alone when the handle was created",
                        l.text, l.ctx, if fwd { "Fwd" } else { "Inv" }, out.count, show_bits(&out.data[k..k + 1]), pr[*j], show_bits(&want.data)
                    );
                }
            }
            let (steps, params) = static_part(&self.ctxs[l.ctx].any, l.h)?;
            if steps != l.fp.steps || params != l.fp.params {
                vfail!(
                    format!("handle-changed-after-{after}"),
                    "operator '{}' instantiated at step {} in context #{} changed after history step {at} ({after}): steps before {:?} / now {:?}; parameter digests before {:?} / now {:?}",
                    l.text, l.born, l.ctx, l.fp.steps, steps, l.fp.params, params
                );
            }
        }
        Ok(())
    }

    fn prepare_op(&self, ci: usize, def: &Def, layout: u8, rec: &mut Rec) -> Prepared {
        let def = concretize(def, &self.slots);
        let text = render_def(&def, layout);
        let ex = expect(&def, &self.ctxs[ci].reg, &self.priv_files);
        let mut tag = self.tag(ci, &def);
        rec.class(&format!("op-target:{tag}"));
        if !ex.labels.is_empty() {
            tag = format!("file:{}", ex.labels.iter().cloned().collect::<Vec<_>>().join("+"));
        }
        for l in &ex.labels {
            rec.class(&format!("file-layout-resolved:{l}"));
        }
        Prepared { def, text, ex, tag }
    }

    fn do_op(&mut self, ci: usize, def: &Def, layout: u8, rec: &mut Rec, at: usize) -> CaseResult {
        self.reserve_slots(def);
        let asked_in_vain = def.steps.iter().any(|s| matches!(s, Step::Grid { g: GridSel::Priv(k), .. } if self.slots[*k as usize % 2].as_ref().map(|n| !self.priv_files[n].written).unwrap_or(false)));
        if asked_in_vain {
            rec.class("grid-asked-for-before-its-file-exists");
        }
        let found_after = def.steps.iter().any(|s| matches!(s, Step::Grid { g: GridSel::Priv(k), .. } if self.slots[*k as usize % 2].as_ref().map(|n| self.asked_before_written.contains(n) && self.priv_files[n].written && !self.priv_files[n].removed).unwrap_or(false)));
        if found_after {
            rec.class("grid-instantiated-after-its-file-appeared");
            self.nt.insert("grid-file-appeared-after-a-vain-lookup");
        }
        if asked_in_vain {
            for s in &def.steps {
                if let Step::Grid { g: GridSel::Priv(k), .. } = s {
                    if let Some(n) = &self.slots[*k as usize % 2] {
                        self.asked_before_written.insert(n.clone());
                    }
                }
            }
        }
        let p = self.prepare_op(ci, def, layout, rec);
        let r = {
            let any = &mut self.ctxs[ci].any;
            let text = &p.text;
            guard(|| any.op(text).map_err(|e| format!("{e:?}")))
        };
        self.finish_op(ci, p, r, rec, at)
    }

    /// Judge the outcome of `op(text)` - wherever (on whichever thread) it was executed
    fn finish_op(&mut self, ci: usize, p: Prepared, r: Result<Result<OpHandle, String>, vcore::guard::PanicInfo>, rec: &mut Rec, at: usize) -> CaseResult {
        let Prepared { def, text, ex, tag } = p;
        let r = match r {
            Err(p) => vfail!(format!("panic-op@{}", p.sig()), "op({text:?}) panics: {} at {}:{} [{}]", p.msg, p.file, p.line, self.registry_text(ci)),
            Ok(r) => r,
        };
        let expected_text = || -> String {
            ex.alts.iter().map(|a| match a {
                Alt::Ok(n, s) => format!("Ok: {} with steps {:?}", n.describe(), s),
                Alt::Err(m) => format!("Err ({m})"),
            }).collect::<Vec<_>>().join("  OR  ")
        };
        let h = match r {
            Err(e) => {
                if ex.unspec.is_some() {
                    rec.class("op-outcome:unspecified-err");
                    rec.count("excluded_unspecified", 1);
                    return Ok(());
                }
                if !ex.alts.iter().any(|a| matches!(a, Alt::Err(_))) {
                    vfail!(
                        format!("expected-ok-got-error/{tag}"),
                        "op({text:?}) failed with {e}; the registry model expects {} [{}]",
                        expected_text(), self.registry_text(ci)
                    );
                }
                rec.class("op-outcome:err-as-expected");
                return Ok(());
            }
            Ok(h) => h,
        };
        if !self.all.insert(h) {
            vfail!("duplicate-handle", "op({text:?}) returned handle {h:?} which an earlier op() of this history already returned");
        }
        let fp = fingerprint(&self.ctxs[ci].any, h)?;
        if fp.fwd[0].count.is_err() || fp.steps.is_err() || fp.params[0].is_err() {
            vfail!("fresh-handle-rejected", "handle just returned by op({text:?}) is rejected: apply {:?}, steps {:?}, params {:?}", fp.fwd[0].count, fp.steps, fp.params[0]);
        }
        for (kind, fwd, r) in apply_to_empty_sets(&self.ctxs[ci].any, h)? {
            if r != Ok(0) {
                vfail!("empty-set-on-valid-handle", "op({text:?}): apply({}) of the fresh handle to an EMPTY {kind} gives {r:?}, expected Ok(0)", if fwd { "Fwd" } else { "Inv" });
            }
        }
        let first_name = match &def.steps[0] {
            Step::Call { name, .. } => Some(name.clone()),
            _ => None,
        };
        let mut tree = None;
        if let Some(why) = &ex.unspec {
            rec.class("op-outcome:unspecified-ok");
            rec.count("excluded_unspecified", 1);
            let _ = why;
        } else {
            if !ex.alts.iter().any(|a| matches!(a, Alt::Ok(..))) {
                vfail!(
                    format!("expected-error-got-ok/{tag}"),
                    "op({text:?}) succeeded (forward on {:?} gives {}), the registry model expects {} [{}]",
                    probes()[0], show_bits(&fp.fwd[0].data), expected_text(), self.registry_text(ci)
                );
            }
            let pr = probes();
            let mut behaviour_ok = false;
            let mut detail = String::new();
            for a in &ex.alts {
                let Alt::Ok(node, names) = a else { continue };
                let (mf, _) = model_singletons(node, true, &pr);
                let (mi, unspec_inv) = model_singletons(node, false, &pr);
                let inv_ok = unspec_inv || node.has_noninvertible() || mi == fp.inv;
                if mf == fp.fwd && inv_ok {
                    behaviour_ok = true;
                    let steps = fp.steps.clone().unwrap_or_default();
                    let names_ok = steps.len() == names.len() && steps.iter().zip(names).all(|(s, n)| s.split_whitespace().next() == Some(n.as_str()));
                    if names_ok {
                        tree = Some(node.clone());
                        break;
                    }
                    detail = format!("behaviour matches {} but the step list is {:?}, expected operator names {:?}", node.describe(), steps, names);
                } else if detail.is_empty() {
                    let first = (0..pr.len()).find(|j| mf[*j] != fp.fwd[*j]).map(|j| (true, j)).or_else(|| (0..pr.len()).find(|j| mi[*j] != fp.inv[*j]).map(|j| (false, j)));
                    let (f, j) = first.unwrap_or((true, 0));
                    let (m, l) = if f { (&mf[j], &fp.fwd[j]) } else { (&mi[j], &fp.inv[j]) };
                    detail = format!(
                        "expected {}: {} of probe tuple #{j} {:?} (applied alone): model count {:?} {} / library count {:?} {}; tuples #0,#1 forward: model {} / library {}",
                        node.describe(), if f { "Fwd" } else { "Inv" }, pr[j], m.count, show_bits(&m.data), l.count, show_bits(&l.data), show_outs(&mf), show_outs(&fp.fwd)
                    );
                }
            }
            if tree.is_none() {
                let key = if behaviour_ok { format!("steps-mismatch/{tag}") } else { format!("resolution-mismatch/{tag}") };
                vfail!(key, "op({text:?}) does not behave as the registry model resolves it; expected {}; {detail} [{}]", expected_text(), self.registry_text(ci));
            }
            // selected parameters of a top-level leaf
            if let Some(Node::Leaf { prim, .. }) = &tree {
                let want: Option<(&str, f64)> = match prim {
                    Prim::Helm(v) => Some(("x", *v as f64)),
                    Prim::User { d, .. } => Some(("d", *d as f64)),
                    _ => None,
                };
                if let Some((k, v)) = want {
                    let p = self.ctxs[ci].any.params(h, 0);
                    let got = p.as_ref().ok().and_then(|p| p.real.get(k).copied());
                    if got != Some(v) {
                        vfail!("params-mismatch", "op({text:?}): params(handle, 0) reports {k} = {got:?}, the resolved operator has {k} = {v} [{}]", self.registry_text(ci));
                    }
                }
            }
            rec.class(if ex.alts.len() > 1 { "op-outcome:ok-one-of-undocumented-alternatives" } else { "op-outcome:ok-as-expected" });
        }
        if self.live.len() < MAX_LIVE {
            let has_grid = tree.as_ref().map(|t| t.has_grid()).unwrap_or(text.contains("grids="));
            self.live.push(Live { ctx: ci, h, text, tree, fp, touched: ex.touched, has_grid, first_name, born: at });
        } else {
            rec.count("not_tracked_beyond_max_live", 1);
        }
        Ok(())
    }

    fn note_registration(&mut self, ci: usize, name: &str) {
        if self.live.iter().any(|l| l.ctx == ci && l.touched.contains(name)) {
            self.nt.insert("registration-after-instantiation-of-same-name");
        }
    }

    fn reg_op(&mut self, ci: usize, name: &str, c: u8) {
        self.note_registration(ci, name);
        self.ctxs[ci].any.register_op(name, hctor(c));
        self.ctxs[ci].reg.ops.insert(name.to_string(), c % 12);
    }

    fn reg_res(&mut self, ci: usize, name: &str, body: &Def, layout: u8) {
        self.reserve_slots(body);
        self.note_registration(ci, name);
        let body = concretize(body, &self.slots);
        // trimmed: `inv` on a nested macro invocation is detected by `ends_with(" inv")` on the raw
        // text (candidate defect of C03/C04/C16, excluded here by construction)
        let text = render_def(&body, layout).trim().to_string();
        self.ctxs[ci].any.register_resource(name, &text);
        self.ctxs[ci].reg.macros.insert(name.to_string(), body);
    }

    fn unknown_handle(&self, ci: usize, h: OpHandle, what: &str) -> CaseResult {
        must_reject(&self.ctxs[ci].any, &format!("context #{ci}"), h, what)
    }
}

/// `apply(h, dir, EMPTY set)` for every kind of coordinate container, both directions
fn apply_to_empty_sets(any: &AnyCtx, h: OpHandle) -> Result<Vec<(&'static str, bool, Result<usize, String>)>, Failure> {
    let mut out = vec![];
    for fwd in [true, false] {
        let mut run = |kind: &'static str, set: &mut dyn CoordinateSet| -> Result<(), Failure> {
            let r = guard(|| any.apply(h, if fwd { Fwd } else { Inv }, set)).map_err(|p| Failure { key: format!("panic-apply@{}", p.sig()), msg: format!("apply to an empty {kind} panics: {} at {}:{}", p.msg, p.file, p.line) })?;
            out.push((kind, fwd, r.map_err(|e| format!("{e:?}"))));
            Ok(())
        };
        run("Vec<Coor4D>", &mut Vec::<Coor4D>::new())?;
        let mut backing: [Coor4D; 0] = [];
        let mut slice: &mut [Coor4D] = &mut backing[..];
        run("&mut [Coor4D]", &mut slice)?;
        run("[Coor4D; 0]", &mut ([] as [Coor4D; 0]))?;
        run("Vec<Coor3D>", &mut Vec::<Coor3D>::new())?;
        run("Vec<Coor2D>", &mut Vec::<Coor2D>::new())?;
        run("Vec<Coor32>", &mut Vec::<Coor32>::new())?;
        run("[Coor2D; 0]", &mut ([] as [Coor2D; 0]))?;
        run("(Vec<Coor2D>, h, t)", &mut (Vec::<Coor2D>::new(), 100., 2020.))?;
        run("(Vec<Coor3D>, t)", &mut (Vec::<Coor3D>::new(), 2020.))?;
    }
    Ok(out)
}

/// `h` was not issued by `any`: apply, steps and params must all fail, data must stay untouched
fn must_reject(any: &AnyCtx, which: &str, h: OpHandle, what: &str) -> CaseResult {
    // an unknown handle is an error whatever the operands - also when there are none
    for (kind, fwd, r) in apply_to_empty_sets(any, h)? {
        if let Ok(n) = r {
            vfail!(
                "unknown-handle-accepted-on-empty-set",
                "{what} {h:?} used on {which}: apply({}) to an EMPTY {kind} returns Ok({n}) instead of the unknown-handle error",
                if fwd { "Fwd" } else { "Inv" }
            );
        }
    }
    let mut data = probes();
    let before = bits(&data);
    let a = guard(|| any.apply(h, Fwd, &mut data)).map_err(|p| Failure { key: format!("panic-apply@{}", p.sig()), msg: format!("apply with {what} panics: {}", p.msg) })?;
    let s = guard(|| any.steps(h)).map_err(|p| Failure { key: format!("panic-steps@{}", p.sig()), msg: format!("steps with {what} panics: {}", p.msg) })?;
    let p = guard(|| any.params(h, 0)).map_err(|p| Failure { key: format!("panic-params@{}", p.sig()), msg: format!("params with {what} panics: {}", p.msg) })?;
    if a.is_ok() || s.is_ok() || p.is_ok() || bits(&data) != before {
        vfail!(
            "unknown-handle-accepted",
            "{what} {h:?} used on {which}: apply -> {a:?} (data changed: {}), steps -> {:?}, params -> {}",
            bits(&data) != before, s, if p.is_ok() { "Ok" } else { "Err" }
        );
    }
    Ok(())
}

// ---- running a history --------------------------------------------------------------------

fn run_history(hist: &History, rec: &mut Rec) -> CaseResult {
    let mut w = Hist::new();
    for (at, cmd) in hist.cmds.iter().enumerate() {
        let label: &'static str = match cmd {
            Cmd::NewCtx { slot, plain, with_new } => {
                let ci = *slot as usize % 3;
                let mut k = 0;
                while k < w.live.len() {
                    if w.live[k].ctx == ci {
                        let l = w.live.remove(k);
                        w.dead.push(l.h);
                    } else {
                        k += 1;
                    }
                }
                w.ctxs[ci] = MCtx::make(*plain, *with_new);
                let _ = write!(w.sig, "N{ci}{}{};", *plain as u8, *with_new as u8);
                "new-context"
            }
            Cmd::RegOp { ctx, name, ctor } => {
                let ci = *ctx as usize % 3;
                w.reg_op(ci, name, *ctor);
                let _ = write!(w.sig, "O{ci}{name}{};", ctor % 12);
                "register_op"
            }
            Cmd::RegRes { ctx, name, body, layout } => {
                let ci = *ctx as usize % 3;
                w.reg_res(ci, name, body, *layout);
                let _ = write!(w.sig, "R{ci}{name}{};", render_def(body, 0));
                "register_resource"
            }
            Cmd::Redefine { h, ctor, body, layout } => {
                if w.live.is_empty() {
                    rec.count("skipped_no_live_handle", 1);
                    continue;
                }
                let l = &w.live[pick(*h, w.live.len())];
                let ci = l.ctx;
                let name = l.first_name.clone().or_else(|| l.touched.iter().next().cloned()).unwrap_or_else(|| "addone".to_string());
                if name.contains(':') {
                    w.reg_res(ci, &name, body, *layout);
                    let _ = write!(w.sig, "R{ci}{name}{};", render_def(body, 0));
                    "register_resource"
                } else {
                    w.reg_op(ci, &name, *ctor);
                    let _ = write!(w.sig, "O{ci}{name}{};", ctor % 12);
                    "register_op"
                }
            }
            Cmd::Op { ctx, def, layout } => {
                let ci = *ctx as usize % 3;
                let _ = write!(w.sig, "I{ci}{};", render_def(def, 0));
                w.do_op(ci, def, *layout, rec, at)?;
                "op"
            }
            Cmd::OpReg { ctx, sel, arg, inv, layout, wrap } => {
                let ci = *ctx as usize % 3;
                // user operators (weight 3), macros registered by the history, one documented adaptor
                let mut names: Vec<String> = vec![];
                for k in w.ctxs[ci].reg.ops.keys() {
                    names.extend([k.clone(), k.clone(), k.clone()]);
                }
                for (k, v) in w.ctxs[ci].reg.macros.iter() {
                    let default_adaptor = BUILTIN_ADAPTORS.iter().any(|a| a.0 == k.as_str()) && matches!(v.steps[0], Step::Fixed { .. }) && v.steps.len() == 1;
                    if !default_adaptor || k == "geo:in" {
                        names.push(k.clone());
                    }
                }
                let name = if names.is_empty() { "addone".to_string() } else { names[pick(*sel, names.len())].clone() };
                let arg = if name.contains(':') {
                    match arg {
                        Arg::Dollar => Arg::None,
                        Arg::DollarDef(v) => Arg::Lit(*v),
                        a => a.clone(),
                    }
                } else {
                    arg.clone()
                };
                let c = call(&name, arg, *inv);
                let def = match wrap % 4 {
                    0 | 1 => one(c),
                    2 => pipe(vec![call("addone", Arg::None, false), c]),
                    _ => pipe(vec![c, helm(3)]),
                };
                let _ = write!(w.sig, "I{ci}{};", render_def(&def, 0));
                w.do_op(ci, &def, *layout, rec, at)?;
                "op"
            }
            Cmd::OpPriv { ctx, slot, inv, wrap, opt } => {
                let mut ci = *ctx as usize % 3;
                if !w.ctxs[ci].reg.plain {
                    if let Some(k) = (0..3).find(|k| w.ctxs[*k].reg.plain) {
                        ci = k;
                    }
                }
                let has_file = |k: usize| w.slots[k].as_ref().map(|n| w.priv_files[n].written).unwrap_or(false);
                let mut slot = *slot as usize % 2;
                if wrap & 2 == 0 && !has_file(slot) && has_file(1 - slot) {
                    slot = 1 - slot;
                }
                let g = Step::Grid { g: GridSel::Priv(slot as u8), inv: *inv, optional: *opt };
                let def = if wrap % 2 == 0 { one(g) } else { pipe(vec![g, call("addone", Arg::None, false)]) };
                let _ = write!(w.sig, "I{ci}{};", render_def(&def, 0));
                w.do_op(ci, &def, 0, rec, at)?;
                "op"
            }
            Cmd::Apply { h, fwd, n, seed } => {
                if w.live.is_empty() {
                    rec.count("skipped_no_live_handle", 1);
                    continue;
                }
                let l = &w.live[pick(*h, w.live.len())];
                let input = gen_data(*n as usize, *seed);
                let out = lib_apply(&w.ctxs[l.ctx].any, l.h, *fwd, &input)?;
                if out.count.is_err() {
                    vfail!("live-handle-rejected", "apply on the live handle of '{}' (context #{}) fails: {:?}", l.text, l.ctx, out.count);
                }
                if let Some(t) = &l.tree {
                    let (m, unspec) = model_out(t, *fwd, &input);
                    if !unspec && !(t.has_noninvertible() && !*fwd) && m != out {
                        vfail!(
                            "apply-mismatch",
                            "'{}' ({}) on {} generated tuples: library count {:?} {} vs model {} count {:?} {}",
                            l.text, if *fwd { "Fwd" } else { "Inv" }, n, out.count, show_bits(&out.data), t.describe(), m.count, show_bits(&m.data)
                        );
                    }
                }
                "apply"
            }
            Cmd::Foreign { h, ctx } => {
                if !w.dead.is_empty() && h % 3 == 0 {
                    let hd = w.dead[pick(*h, w.dead.len())];
                    w.unknown_handle(*ctx as usize % 3, hd, "handle of a dropped context")?;
                } else if !w.live.is_empty() && h % 3 == 1 {
                    let l = &w.live[pick(*h, w.live.len())];
                    let other = (l.ctx + 1 + (*ctx as usize % 2)) % 3;
                    w.unknown_handle(other, l.h, "handle of another context")?;
                } else {
                    w.unknown_handle(*ctx as usize % 3, OpHandle::new(), "never issued handle")?;
                }
                "unknown-handle-use"
            }
            Cmd::ClearGrids => {
                if w.live.iter().any(|l| l.has_grid) {
                    w.nt.insert("cache-clear-between-creation-and-use");
                }
                Plain::clear_grids();
                w.sig.push_str("C;");
                "clear_grids"
            }
            Cmd::WriteGrid { slot, v } => {
                let k = *slot as usize % 2;
                // a name that was reserved (maybe asked for in vain) but never had a file gets its file
                // now; otherwise a fresh name: the content behind a name never changes
                let name = match &w.slots[k] {
                    Some(n) if !w.priv_files[n].written => n.clone(),
                    _ => format!("c18p{}.geoid", PRIV_COUNTER.fetch_add(1, Ordering::Relaxed)),
                };
                let path = world().root.join("w").join("geodesy").join("geoid").join(&name);
                std::fs::write(&path, priv_grid_text(*v % 8)).expect("write private grid");
                w.created.push(path);
                w.priv_files.insert(name.clone(), PrivGrid { v: *v % 8, removed: false, written: true });
                w.slots[k] = Some(name);
                let _ = write!(w.sig, "W{k}{};", v % 8);
                "write-grid-file"
            }
            Cmd::RemoveGrid { slot } => {
                let k = *slot as usize % 2;
                if let Some(name) = w.slots[k].as_ref().filter(|n| w.priv_files[*n].written) {
                    let path = world().root.join("w").join("geodesy").join("geoid").join(name);
                    let _ = std::fs::remove_file(path);
                    if w.live.iter().any(|l| l.text.contains(name.as_str())) {
                        w.nt.insert("grid-file-removed-between-creation-and-use");
                    }
                    if let Some(p) = w.priv_files.get_mut(name) {
                        p.removed = true;
                    }
                }
                let _ = write!(w.sig, "X{k};");
                "remove-grid-file"
            }
            Cmd::Burst { threads, rounds, seed, side } => {
                burst(&mut w, *threads, *rounds, *seed, *side, rec, at)?;
                let _ = write!(w.sig, "B{threads}{rounds}{};", *side as u8);
                "concurrent-burst"
            }
        };
        rec.class(&format!("cmd:{label}"));
        w.recheck(label, at)?;
    }
    rec.count("fingerprint_rechecks", (hist.cmds.len() * w.live.len()) as u64 / 2);
    rec.count("handles_issued", w.all.len() as u64);
    for k in &w.nt {
        rec.class(&format!("nontrivial:{k}"));
    }
    if !w.nt.is_empty() {
        rec.nontrivial(&w.sig);
    }
    Ok(())
}

// ---- a small persistent helper pool (thread creation is expensive on a loaded machine) ----

type Job = Box<dyn FnOnce() + Send + 'static>;
struct HelperPool {
    tx: std::sync::Mutex<std::sync::mpsc::Sender<Job>>,
}
static HELPERS: OnceLock<HelperPool> = OnceLock::new();
fn helpers() -> &'static HelperPool {
    HELPERS.get_or_init(|| {
        let (tx, rx) = std::sync::mpsc::channel::<Job>();
        let rx = std::sync::Arc::new(std::sync::Mutex::new(rx));
        for i in 0..12 {
            let rx = rx.clone();
            std::thread::Builder::new()
                .name(format!("burst-helper-{i}"))
                .stack_size(8 << 20)
                .spawn(move || loop {
                    let job = { rx.lock().unwrap().recv() };
                    match job {
                        Ok(j) => j(),
                        Err(_) => break,
                    }
                })
                .expect("helper thread");
        }
        HelperPool { tx: std::sync::Mutex::new(tx) }
    })
}

/// Run the jobs on the helper threads and return when ALL of them have finished; this is
/// what makes lending them references to the caller's stack sound.
fn run_scoped<'a>(jobs: Vec<Box<dyn FnOnce() + Send + 'a>>) {
    let latch = std::sync::Arc::new((std::sync::Mutex::new(jobs.len()), std::sync::Condvar::new()));
    for job in jobs {
        // SAFETY: the function does not return before the latch has counted every job down,
        // so the borrowed data outlives the job; a panicking job still counts down.
        let job: Job = unsafe { std::mem::transmute::<Box<dyn FnOnce() + Send + 'a>, Box<dyn FnOnce() + Send + 'static>>(job) };
        let latch = latch.clone();
        let wrapped: Job = Box::new(move || {
            let _ = std::panic::catch_unwind(std::panic::AssertUnwindSafe(job));
            let (m, c) = &*latch;
            *m.lock().unwrap() -= 1;
            c.notify_all();
        });
        helpers().tx.lock().unwrap().send(wrapped).expect("helper pool alive");
    }
    let (m, c) = &*latch;
    let mut g = m.lock().unwrap();
    while *g > 0 {
        g = c.wait(g).unwrap();
    }
}

fn ri_kind(seed: u16) -> bool {
    seed % 2 == 0
}

/// T threads share the contexts by reference and apply live handles to private data while
/// (side) a further thread builds, uses and clears another Plain context / the grid cache.
/// What a freshly created thread does: instantiate in the context it was lent (exclusively),
/// then create contexts of its own and instantiate there.
struct ThreadOut {
    lent: Vec<Result<Result<OpHandle, String>, vcore::guard::PanicInfo>>,
    own: Vec<(AnyCtx, Vec<(usize, Result<OpHandle, String>)>)>,
}

/// definitions instantiated by the threads in their own contexts, with their model
const OWN_DEFS: [&str; 5] = ["addone", "addone inv", "helmert x=5", "addone | helmert x=2", "noop"];
fn own_node(i: usize) -> Node {
    let leaf = |prim: Prim, inverted: bool| Node::Leaf { prim, inverted };
    match i {
        0 => leaf(Prim::Add1, false),
        1 => leaf(Prim::Add1, true),
        2 => leaf(Prim::Helm(5), false),
        3 => Node::Seq { items: vec![leaf(Prim::Add1, false), leaf(Prim::Helm(2), false)], inverted: false },
        _ => leaf(Prim::Noop, false),
    }
}

fn instantiate_on_this_thread(lent: &mut AnyCtx, texts: &[String], second: bool) -> ThreadOut {
    let mut out = ThreadOut { lent: vec![], own: vec![] };
    for t in texts {
        out.lent.push(guard(|| lent.op(t).map_err(|e| format!("{e:?}"))));
    }
    for plain in [false, true] {
        let mut c = AnyCtx::make(plain, true);
        let mut hs = vec![];
        // the second thread goes through the definitions in the opposite order: equal positions
        // in the two threads' handle sequences then belong to different operators
        let order: Vec<usize> = if second { (0..OWN_DEFS.len()).rev().collect() } else { (0..OWN_DEFS.len()).collect() };
        for i in order {
            let r = guard(|| c.op(OWN_DEFS[i]).map_err(|e| format!("{e:?}"))).unwrap_or_else(|p| Err(format!("panic: {} at {}:{}", p.msg, p.file, p.line)));
            hs.push((i, r));
        }
        out.own.push((c, hs));
    }
    out
}

/// T threads share the contexts by reference and apply live handles to private data while
/// (side) a further thread builds, uses and clears another Plain context / the grid cache, and
/// (lend) one context of the history is lent exclusively to a newly created thread, and after
/// that to a second one, which instantiate new operators in it and in contexts of their own.
fn burst(w: &mut Hist, threads: u8, rounds: u8, seed: u16, side: bool, rec: &mut Rec, at: usize) -> CaseResult {
    let t = (threads % 6 + 2) as usize;
    let r = (rounds % 8 + 1) as usize;
    if w.live.is_empty() {
        rec.count("burst_without_live_handle", 1);
    } else {
        w.nt.insert("concurrent-burst");
        if side && w.live.iter().any(|l| l.has_grid) {
            w.nt.insert("cache-clear-between-creation-and-use");
        }
    }
    let pr = probes();
    // ---- instantiations to be executed on other threads, decided (with their expectation) here
    let lend = seed % 2 == 1;
    let lc = (seed as usize / 4) % 3;
    let mut batches: [Vec<Prepared>; 2] = [vec![], vec![]];
    if lend {
        w.nt.insert("instantiation-on-another-thread");
        let v = (seed % 7) as i16 + 1;
        let name = w.live.iter().filter(|l| l.ctx == lc).filter_map(|l| l.first_name.clone()).next().unwrap_or_else(|| "myop".to_string());
        let arg = |k: i16| Arg::Lit(k);
        let first = vec![
            one(call("addone", Arg::None, false)),
            one(helm(v)),
            pipe(vec![call("addone", Arg::None, false), helm(2)]),
            one(call(&name, arg(v), false)),
        ];
        let second = vec![
            one(call("addone", Arg::None, true)),
            one(helm(-v - 3)),
            pipe(vec![helm(7), call("addone", Arg::None, true)]),
            one(call(&name, arg(-v), true)),
            one(call("noop", Arg::None, false)),
        ];
        for (k, defs) in [first, second].into_iter().enumerate() {
            for d in defs {
                batches[k].push(w.prepare_op(lc, &d, (seed % 3) as u8, rec));
            }
        }
    }
    let texts: [Vec<String>; 2] = [batches[0].iter().map(|p| p.text.clone()).collect(), batches[1].iter().map(|p| p.text.clone()).collect()];
    // ---- split the contexts: the lent one exclusively, the others shared
    let names: Vec<String> = w.live.iter().filter_map(|l| l.first_name.clone()).collect();
    let Hist { ctxs: all_ctxs, live, .. } = &mut *w;
    let live: &Vec<Live> = live;
    let mut ctxs: Vec<Option<&AnyCtx>> = vec![];
    let mut lent: Option<&mut AnyCtx> = None;
    for (i, c) in all_ctxs.iter_mut().enumerate() {
        if lend && i == lc {
            lent = Some(&mut c.any);
            ctxs.push(None);
        } else {
            ctxs.push(Some(&c.any));
        }
    }
    let ctxs = &ctxs;
    // handles that may be applied concurrently: those whose context is not lent out
    let eligible: Vec<usize> = (0..live.len()).filter(|k| ctxs[live[*k].ctx].is_some()).collect();
    let eligible = &eligible;
    let nlive = eligible.len();
    type JobOut = (usize, bool, usize, Result<Out, Failure>);
    type SideOut = Result<(&'static str, bool, usize, Out), Failure>;
    // Helper threads come from a dedicated pool (thread creation costs ~1 ms here); a short
    // spin barrier makes the tasks of one burst start together when enough helpers are free.
    let started = AtomicU64::new(0);
    let want = (t + side as usize) as u64;
    let gate = |started: &AtomicU64| {
        started.fetch_add(1, Ordering::SeqCst);
        let t0 = std::time::Instant::now();
        while started.load(Ordering::SeqCst) < want && t0.elapsed().as_micros() < 300 {
            std::hint::spin_loop();
        }
    };
    let np = pr.len();
    let thread_outs;
    let results: std::sync::Mutex<Vec<Vec<JobOut>>> = std::sync::Mutex::new(vec![]);
    let side_res: std::sync::Mutex<Vec<SideOut>> = std::sync::Mutex::new(vec![]);
    {
        let mut jobs: Vec<Box<dyn FnOnce() + Send + '_>> = vec![];
        for ti in 0..t {
            let (pr, results, started, gate) = (&pr, &results, &started, &gate);
            jobs.push(Box::new(move || {
                gate(started);
                let mut out: Vec<JobOut> = vec![];
                if nlive > 0 {
                    // single tuples: parent-only and child points of the grids alternate, so that
                    // concurrent threads hit different sub-grids of one shared grid object
                    for ri in 0..4 * r {
                        let k = eligible[(seed as usize + 31 * ti + 17 * (ri / 4)) % nlive];
                        let fwd = (ti + ri / 2 + seed as usize) % 2 == 0;
                        let l = &live[k];
                        let j = if l.has_grid { GEO_PROBES[(ti + ri + seed as usize) % GEO_PROBES.len()] } else { (5 * ri + ti + seed as usize) % np };
                        out.push((k, fwd, j, lib_apply(ctxs[l.ctx].expect("context not lent"), l.h, fwd, std::slice::from_ref(&pr[j]))));
                    }
                }
                results.lock().unwrap().push(out);
            }));
        }
        if side {
            let (pr, names, side_res, started, gate) = (&pr, &names, &side_res, &started, &gate);
            jobs.push(Box::new(move || {
                gate(started);
                let r2 = guard(|| {
                    let mut out: Vec<SideOut> = vec![];
                    let mut c = AnyCtx::make(true, true);
                    let mut c2 = AnyCtx::make(ri_kind(seed), true);
                    for ri in 0..r {
                        for (di, def) in SIDE_DEFS.iter().enumerate() {
                            match c.op(def) {
                                Ok(h) => {
                                    for q in 0..3 {
                                        let j = GEO_PROBES[(q + ri + di + seed as usize) % GEO_PROBES.len()];
                                        let fwd = (ri + q) % 2 == 0;
                                        out.push(lib_apply(&c, h, fwd, std::slice::from_ref(&pr[j])).map(|o| (*def, fwd, j, o)));
                                    }
                                }
                                Err(e) => out.push(Err(Failure { key: "side-thread-op-failed".into(), msg: format!("op({def:?}) in the side thread of a burst failed: {e:?}") })),
                            }
                            // cleared only every other time: in between, the grid objects stay shared
                            // with the handles the other threads are applying
                            if (ri + di) % 2 == 1 {
                                Plain::clear_grids();
                            }
                        }
                        for (k, n) in names.iter().enumerate() {
                            if n.contains(':') {
                                c2.register_resource(n, "helmert x=4242");
                            } else {
                                c2.register_op(n, ctor(k as u8));
                            }
                            let _ = c2.op(n);
                        }
                    }
                    out
                });
                let out = match r2 {
                    Ok(v) => v,
                    Err(p) => vec![Err(Failure { key: format!("panic-side-thread@{}", p.sig()), msg: format!("side thread panics: {} at {}:{}", p.msg, p.file, p.line) })],
                };
                *side_res.lock().unwrap() = out;
            }));
        }
        // A newly created thread gets the lent context, instantiates, and - when it is done - hands
        // the context on to a second newly created thread; meanwhile this thread runs the pool jobs.
        let texts = &texts;
        thread_outs = std::thread::scope(|sc| {
            let lender = lent.map(|any| {
                sc.spawn(move || {
                    let o1 = instantiate_on_this_thread(any, &texts[0], false);
                    let o2 = std::thread::scope(|s2| s2.spawn(|| instantiate_on_this_thread(any, &texts[1], true)).join());
                    (o1, o2)
                })
            });
            run_scoped(jobs);
            lender.map(|h| h.join())
        });
    }
    let results = results.into_inner().unwrap();
    let side_out = side_res.into_inner().unwrap();
    if results.len() != t || (side && side_out.is_empty()) {
        panic!("a burst job died outside the library guards ({} of {t} results, side {})", results.len(), side_out.len());
    }
    for jobs in results {
        for (k, fwd, j, out) in jobs {
            let out = out?;
            let l = &w.live[k];
            let want = if fwd { &l.fp.fwd[j] } else { &l.fp.inv[j] };
            if &out != want {
                vfail!(
                    "concurrent-mismatch",
                    "'{}' ({}) applied to probe tuple #{j} {:?} alone from one of {t} threads sharing the context: count {:?} {} vs sequential count {:?} {}",
                    l.text, if fwd { "Fwd" } else { "Inv" }, pr[j], out.count, show_bits(&out.data), want.count, show_bits(&want.data)
                );
            }
            rec.count("concurrent_applies", 1);
        }
    }
    for so in side_out {
        let (def, fwd, j, out) = so?;
        let leaf = |g: &str| Node::Leaf { prim: Prim::Grid(g.into()), inverted: false };
        let node = match def {
            "reg:grid" => Node::Seq { items: vec![leaf("test.datum"), Node::Leaf { prim: Prim::Add1, inverted: false }], inverted: false },
            "ureg:v" => Node::Leaf { prim: Prim::Helm(631), inverted: false },
            d => leaf(d.strip_prefix("gridshift grids=").expect("side definition")),
        };
        let (m, _) = model_out(&node, fwd, std::slice::from_ref(&pr[j]));
        if m != out {
            vfail!(
                "side-thread-mismatch",
                "'{def}' instantiated in a second Plain context and applied ({}) to probe tuple #{j} {:?} alone, while other threads apply and the grid cache is cleared concurrently: count {:?} {} vs history-free reference count {:?} {}",
                if fwd { "Fwd" } else { "Inv" }, pr[j], out.count, show_bits(&out.data), m.count, show_bits(&m.data)
            );
        }
        rec.count("side_thread_applies", 1);
    }
    // ---- what the newly created threads did
    if let Some(joined) = thread_outs {
        let (o1, o2) = match joined {
            Ok((o1, Ok(o2))) => (o1, o2),
            _ => panic!("an instantiating thread died outside the library guards"),
        };
        // (a) the instantiations in the lent context: judged exactly like those of this thread
        // (resolution, uniqueness of the handle, behaviour); the caller then re-fingerprints every
        // older handle of that context
        let [b1, b2] = batches;
        let mut owns = vec![];
        for (batch, o) in [(b1, o1), (b2, o2)] {
            for (p, r) in batch.into_iter().zip(o.lent) {
                w.finish_op(lc, p, r, rec, at)?;
                rec.count("instantiated_in_lent_context_on_other_thread", 1);
            }
            owns.extend(o.own);
        }
        // (b) the contexts the threads created for themselves: every handle distinct from every other
        // handle of the history, behaving as defined, and unknown to every other context
        let mut issued: Vec<(usize, OpHandle)> = vec![];
        for (ci, (c, hs)) in owns.iter().enumerate() {
            for (di, r) in hs {
                let h = match r {
                    Ok(h) => *h,
                    Err(e) => vfail!("thread-op-failed", "op({:?}) in a context created on another thread failed: {e}", OWN_DEFS[*di]),
                };
                if !w.all.insert(h) {
                    vfail!("duplicate-handle", "op({:?}) in a context created on another thread returned handle {h:?}, which another op() of this history (any thread, any context) had already returned", OWN_DEFS[*di]);
                }
                let node = own_node(*di);
                for fwd in [true, false] {
                    let lib = singletons(c, h, fwd, &pr[..3])?;
                    let (m, _) = model_singletons(&node, fwd, &pr[..3]);
                    if lib != m {
                        vfail!("thread-context-mismatch", "'{}' instantiated in a context created on another thread ({}): {} vs model {} {}", OWN_DEFS[*di], if fwd { "Fwd" } else { "Inv" }, show_outs(&lib), node.describe(), show_outs(&m));
                    }
                }
                issued.push((ci, h));
                rec.count("instantiated_in_contexts_of_other_threads", 1);
            }
        }
        for (ci, h) in &issued {
            for k in 0..3 {
                must_reject(&w.ctxs[k].any, &format!("context #{k} of the history"), *h, "handle issued by a context on another thread")?;
            }
            for (cj, (c, _)) in owns.iter().enumerate() {
                if cj != *ci {
                    must_reject(c, "another context created on a helper thread", *h, "handle issued by a context on another thread")?;
                }
            }
        }
        for l in w.live.iter().rev().take(4) {
            for (c, _) in &owns {
                must_reject(c, "a context created on another thread", l.h, "live handle of the history")?;
            }
        }
    }
    Ok(())
}

const SIDE_DEFS: [&str; 6] = [
    "gridshift grids=5458_with_subgrid.gsb",
    "gridshift grids=test.datum",
    "reg:grid",
    "gridshift grids=c18nest.gsb",
    "gridshift grids=ga.geoid",
    "ureg:v",
];

// =====================================================================================
// 7. Generators
// =====================================================================================

const BUILTIN_NAMES: [&str; 3] = ["addone", "helmert", "noop"];
const DERIVED_NAMES: [&str; 6] = ["reg:a:x", "solo:one:x", "crlf:b:b", "x:reg:a", "reg::a", "ureg:v:x"];
const ALIAS_NAMES: [&str; 4] = ["longlat", "lonlat", "latlon", "latlong"];
const PLAIN_NAMES: [&str; 3] = ["myop", "foo", "bar_2"];
const COLON_NAMES: [&str; 5] = ["my:mac", "x:y", "p:q:r", "geo:in", "gis:out"];

struct Pools {
    call: Vec<String>,
    regop: Vec<String>,
    regres: Vec<String>,
}

static POOLS: OnceLock<Pools> = OnceLock::new();
fn pools() -> &'static Pools {
    POOLS.get_or_init(|| {
        let files: Vec<String> = world().items.iter().filter(|(_, m)| m.in_hist).map(|(k, _)| k.clone()).collect();
        let rep = |v: &[&str], n: usize| -> Vec<String> { v.iter().flat_map(|s| std::iter::repeat(s.to_string()).take(n)).collect() };
        let mut call = rep(&BUILTIN_NAMES, 5);
        call.extend(rep(&ALIAS_NAMES, 1));
        call.extend(rep(&PLAIN_NAMES, 4));
        call.push("nosuchop".into());
        call.extend(rep(&COLON_NAMES, 3));
        call.extend(files.iter().cloned());
        // unknown names derived from known items (several colons): unknown unless registered at run time
        call.extend(rep(&DERIVED_NAMES, 1));
        let mut regop = rep(&BUILTIN_NAMES, 3);
        regop.extend(rep(&ALIAS_NAMES, 1));
        regop.extend(rep(&PLAIN_NAMES, 3));
        regop.extend(rep(&["my:mac", "reg:a"], 1));
        let mut regres = rep(&COLON_NAMES, 4);
        regres.extend(files.iter().cloned());
        regres.extend(rep(&["addone", "foo"], 1));
        regres.extend(rep(&DERIVED_NAMES[..3], 1));
        Pools { call, regop, regres }
    })
}

fn arb_arg() -> impl Strategy<Value = Arg> {
    prop_oneof![
        3 => Just(Arg::None),
        8 => (-20i16..=20).prop_map(Arg::Lit),
        1 => Just(Arg::Dollar),
        2 => (-20i16..=20).prop_map(Arg::DollarDef),
    ]
}

/// constructor ids: accepting U0..U5 (weight 2), refusing kinds 6..12 (weight 1)
fn arb_ctor() -> impl Strategy<Value = u8> {
    prop_oneof![2 => 0u8..6, 1 => 6u8..12]
}

fn arb_gridsel() -> impl Strategy<Value = GridSel> {
    prop_oneof![
        6 => any::<u16>().prop_map(|i| GridSel::Cat(CAT_GRIDS[GRID_POOL[pick(i, GRID_POOL.len())]].to_string())),
        4 => (0u8..2).prop_map(GridSel::Priv),
    ]
}

fn arb_step(grid_w: u32) -> impl Strategy<Value = Step> {
    prop_oneof![
        16 => (any::<u16>(), arb_arg(), prop::bool::weighted(0.25)).prop_map(|(i, arg, inv)| {
            let p = &pools().call;
            let name = p[pick(i, p.len())].clone();
            // '$' forwarding on macro invocations is outside this property (C04): literal there
            let arg = if name.contains(':') {
                match arg {
                    Arg::Dollar => Arg::None,
                    Arg::DollarDef(v) => Arg::Lit(v),
                    a => a,
                }
            } else {
                arg
            };
            Step::Call { name, arg, inv }
        }),
        2 => (0u8..FIXED.len() as u8, prop::bool::weighted(0.25)).prop_map(|(i, inv)| Step::Fixed { i, inv }),
        grid_w => (arb_gridsel(), prop::bool::weighted(0.25), prop::bool::weighted(0.25)).prop_map(|(g, inv, optional)| Step::Grid { g, inv, optional }),
    ]
}

fn arb_def(grid_w: u32, max_steps: usize) -> impl Strategy<Value = Def> {
    (prop::collection::vec(arb_step(grid_w), 1..=max_steps), prop::bool::weighted(0.2)).prop_map(|(steps, piped)| Def { steps, piped })
}

#[derive(Clone, Copy)]
struct Profile {
    grid_w: u32,
    w: [u32; 13], // NewCtx RegOp RegRes Redefine Op Apply Foreign Clear Write Remove Burst OpReg OpPriv
    max_len: usize,
}

fn arb_cmd(p: Profile) -> impl Strategy<Value = Cmd> {
    let g = p.grid_w;
    prop_oneof![
        p.w[0] => (0u8..3, prop::bool::weighted(0.6), prop::bool::weighted(0.8)).prop_map(|(slot, plain, with_new)| Cmd::NewCtx { slot, plain, with_new }),
        p.w[1] => (0u8..3, any::<u16>(), arb_ctor()).prop_map(|(ctx, i, ctor)| { let q = &pools().regop; Cmd::RegOp { ctx, name: q[pick(i, q.len())].clone(), ctor } }),
        p.w[2] => (0u8..3, any::<u16>(), arb_def(g, 3), 0u8..4).prop_map(|(ctx, i, body, layout)| { let q = &pools().regres; Cmd::RegRes { ctx, name: q[pick(i, q.len())].clone(), body, layout } }),
        p.w[3] => (any::<u16>(), arb_ctor(), arb_def(g, 2), 0u8..4).prop_map(|(h, ctor, body, layout)| Cmd::Redefine { h, ctor, body, layout }),
        p.w[4] => (0u8..3, arb_def(g, 3), 0u8..4).prop_map(|(ctx, def, layout)| Cmd::Op { ctx, def, layout }),
        p.w[5] => (any::<u16>(), any::<bool>(), 0u8..12, -50i16..50).prop_map(|(h, fwd, n, seed)| Cmd::Apply { h, fwd, n, seed }),
        p.w[6] => (any::<u16>(), 0u8..3).prop_map(|(h, ctx)| Cmd::Foreign { h, ctx }),
        p.w[7] => Just(Cmd::ClearGrids),
        p.w[8] => (0u8..2, 0u8..8).prop_map(|(slot, v)| Cmd::WriteGrid { slot, v }),
        p.w[9] => (0u8..2).prop_map(|slot| Cmd::RemoveGrid { slot }),
        p.w[10] => (0u8..6, 0u8..8, any::<u16>(), prop::bool::weighted(0.7)).prop_map(|(threads, rounds, seed, side)| Cmd::Burst { threads, rounds, seed, side }),
        p.w[11] => (0u8..3, any::<u16>(), arb_arg(), prop::bool::weighted(0.25), 0u8..4, 0u8..4).prop_map(|(ctx, sel, arg, inv, layout, wrap)| Cmd::OpReg { ctx, sel, arg, inv, layout, wrap }),
        p.w[12] => (0u8..3, 0u8..2, prop::bool::weighted(0.25), 0u8..4, prop::bool::weighted(0.3)).prop_map(|(ctx, slot, inv, wrap, opt)| Cmd::OpPriv { ctx, slot, inv, wrap, opt }),
    ]
}

fn arb_history(p: Profile) -> impl Strategy<Value = History> {
    prop::collection::vec(arb_cmd(p), 3..=p.max_len).prop_map(|cmds| History { cmds })
}

// ---- deterministic histories for every file item ---------------------------------------

fn file_item_cases() -> Vec<History> {
    let mut v = vec![];
    for (name, _) in world().items.iter() {
        let c = |arg: Arg, inv: bool| one(call(name, arg, inv));
        // 0: fresh Plain::new; 1: Plain::default with inv; 2: in a pipeline; 3: Minimal knows no files;
        // 4: run-time registration takes precedence, earlier instantiation keeps the file version, cache cleared;
        // 5: refusing user constructors under the built-in names used by the bodies
        v.push(History { cmds: vec![Cmd::Op { ctx: 1, def: c(Arg::None, false), layout: 0 }, Cmd::Op { ctx: 1, def: c(Arg::Lit(4), false), layout: 1 }] });
        v.push(History { cmds: vec![Cmd::NewCtx { slot: 2, plain: true, with_new: false }, Cmd::Op { ctx: 2, def: c(Arg::None, true), layout: 0 }] });
        v.push(History { cmds: vec![Cmd::Op { ctx: 1, def: pipe(vec![call("addone", Arg::None, false), call(name, Arg::Lit(-3), true), helm(9)]), layout: 2 }] });
        v.push(History { cmds: vec![Cmd::Op { ctx: 0, def: c(Arg::None, false), layout: 0 }] });
        v.push(History {
            cmds: vec![
                Cmd::Op { ctx: 1, def: c(Arg::Lit(2), false), layout: 0 },
                Cmd::RegRes { ctx: 1, name: name.clone(), body: one(helm(9999)), layout: 0 },
                Cmd::ClearGrids,
                Cmd::Op { ctx: 1, def: c(Arg::Lit(2), false), layout: 0 },
                Cmd::Op { ctx: 2, def: c(Arg::Lit(2), false), layout: 0 },
                Cmd::RegOp { ctx: 1, name: "addone".into(), ctor: 1 },
                Cmd::RegOp { ctx: 2, name: "helmert".into(), ctor: 2 },
                Cmd::RegOp { ctx: 2, name: "myop".into(), ctor: 4 },
                Cmd::Op { ctx: 2, def: c(Arg::None, false), layout: 0 },
                Cmd::Burst { threads: 2, rounds: 2, seed: 7, side: true },
                Cmd::Foreign { h: 1, ctx: 0 },
                Cmd::Foreign { h: 2, ctx: 1 },
                Cmd::NewCtx { slot: 1, plain: true, with_new: true },
                Cmd::Foreign { h: 0, ctx: 1 },
                Cmd::Foreign { h: 0, ctx: 0 },
            ],
        });
        // 5: user constructors that REFUSE, registered under the built-in names the item bodies use: from
        // then on the item gets the user's error (or the user's operator where the constructor accepts the
        // text), earlier handles and the other context keep the built-ins; then accepting constructors again
        v.push(History {
            cmds: vec![
                Cmd::Op { ctx: 1, def: c(Arg::Lit(2), false), layout: 0 },
                Cmd::RegOp { ctx: 1, name: "addone".into(), ctor: 6 },
                Cmd::RegOp { ctx: 1, name: "helmert".into(), ctor: 10 },
                Cmd::Op { ctx: 1, def: c(Arg::Lit(2), false), layout: 0 },
                Cmd::Op { ctx: 1, def: c(Arg::None, false), layout: 1 },
                Cmd::Op { ctx: 1, def: pipe(vec![helm(4), call(name, Arg::None, true)]), layout: 0 },
                Cmd::Op { ctx: 2, def: c(Arg::Lit(2), false), layout: 0 },
                Cmd::RegOp { ctx: 1, name: "helmert".into(), ctor: 7 },
                Cmd::RegOp { ctx: 1, name: "addone".into(), ctor: 11 },
                Cmd::Op { ctx: 1, def: c(Arg::Lit(2), false), layout: 0 },
                Cmd::Op { ctx: 1, def: one(call("addone", Arg::Lit(3), false)), layout: 0 },
                Cmd::Op { ctx: 1, def: one(call("addone", Arg::None, false)), layout: 0 },
                Cmd::RegOp { ctx: 1, name: "helmert".into(), ctor: 2 },
                Cmd::RegOp { ctx: 1, name: "addone".into(), ctor: 0 },
                Cmd::Op { ctx: 1, def: c(Arg::Lit(2), false), layout: 0 },
            ],
        });
    }
    // a grid is asked for before its file exists (mandatory: error; @optional: skipped), then the file
    // appears under that very name: every later instantiation - same context, other context, new
    // context, with or without a cache clear in between - must find it
    for variant in 0..4u8 {
        let (first_opt, pipe_form) = (variant % 2 == 1, variant / 2 == 1);
        let wrap = 2 + pipe_form as u8;
        v.push(History {
            cmds: vec![
                Cmd::OpPriv { ctx: 1, slot: 0, inv: false, wrap, opt: first_opt },
                Cmd::OpPriv { ctx: 2, slot: 0, inv: false, wrap: 2, opt: !first_opt },
                Cmd::WriteGrid { slot: 0, v: 3 + variant },
                Cmd::OpPriv { ctx: 1, slot: 0, inv: false, wrap, opt: false },
                Cmd::OpPriv { ctx: 2, slot: 0, inv: true, wrap: 2, opt: true },
                Cmd::ClearGrids,
                Cmd::OpPriv { ctx: 1, slot: 0, inv: false, wrap: 2, opt: true },
                Cmd::NewCtx { slot: 0, plain: true, with_new: true },
                Cmd::OpPriv { ctx: 0, slot: 0, inv: false, wrap, opt: false },
                Cmd::Apply { h: 65000, fwd: true, n: 9, seed: 2 },
                Cmd::Burst { threads: 2, rounds: 2, seed: 6, side: true },
                Cmd::RemoveGrid { slot: 0 },
                Cmd::ClearGrids,
                Cmd::OpPriv { ctx: 2, slot: 0, inv: false, wrap: 2, opt: true },
            ],
        });
    }
    // nested NTv2 files: handles on the same file in two Plain contexts, plain / inverted / inside a
    // pipeline, applies of generated data, bursts, cache clears, a new context, all interleaved by the
    // re-fingerprinting after every step
    for file in ["5458_with_subgrid.gsb", "c18nest.gsb"] {
        let g = |inv: bool| Step::Grid { g: GridSel::Cat(file.to_string()), inv, optional: false };
        for variant in 0..3u8 {
            let second = match variant {
                0 => one(g(false)),
                1 => one(g(true)),
                _ => pipe(vec![Step::Fixed { i: 0, inv: false }, g(false), Step::Fixed { i: 1, inv: false }]),
            };
            v.push(History {
                cmds: vec![
                    Cmd::Op { ctx: 1, def: one(g(false)), layout: 0 },
                    Cmd::Op { ctx: 2, def: second.clone(), layout: 0 },
                    Cmd::Apply { h: 0, fwd: true, n: 9, seed: 3 },
                    Cmd::Burst { threads: 3, rounds: 3, seed: 5 + variant as u16, side: true },
                    Cmd::Op { ctx: 2, def: pipe(vec![g(false), helm(2)]), layout: 1 },
                    Cmd::Apply { h: 40000, fwd: false, n: 11, seed: -4 },
                    Cmd::ClearGrids,
                    Cmd::Op { ctx: 1, def: second.clone(), layout: 0 },
                    Cmd::NewCtx { slot: 0, plain: true, with_new: false },
                    Cmd::Op { ctx: 0, def: one(g(variant == 1)), layout: 0 },
                    Cmd::Burst { threads: 5, rounds: 7, seed: 8 + variant as u16, side: variant != 0 },
                    Cmd::Apply { h: 65000, fwd: true, n: 6, seed: 9 },
                ],
            });
        }
    }
    v
}

// =====================================================================================
// 7b. Every built-in name resolves to the built-in (exhaustive over the hook's name list)
// =====================================================================================

/// (name, a minimal valid parameterisation, needs grid access). Names the table does not know
/// (new built-ins) are run without parameters: then only "the NAME is found" is asserted.
const BUILTIN_TABLE: [(&str, &str, bool); 36] = [
    ("adapt", "from=neuf_deg", false),
    ("addone", "", false),
    ("axisswap", "order=2,1", false),
    ("btmerc", "k_0=0.9996 lon_0=9 x_0=500000", false),
    ("butm", "zone=32", false),
    ("cart", "", false),
    ("curvature", "meridian", false),
    ("deflection", "grids=test.geoid", true),
    ("deformation", "dt=1000 grids=test.deformation", true),
    ("dm", "", false),
    ("dms", "", false),
    ("geodesic", "", false),
    ("gravity", "grs80", false),
    ("gridshift", "grids=test.datum", true),
    ("helmert", "x=5", false),
    ("laea", "lat_0=52 lon_0=10", false),
    ("latitude", "geocentric", false),
    ("lcc", "lat_1=57 lon_0=12", false),
    ("merc", "", false),
    ("webmerc", "", false),
    ("molodensky", "dx=-87 dy=-96 dz=-120 da=-251 df=-0.00001419", false),
    ("omerc", "latc=4 lonc=115 alpha=53 k_0=0.99984", false),
    ("permtide", "from=mean to=free", false),
    ("somerc", "lat_0=46.95 lon_0=7.44", false),
    ("tmerc", "lon_0=9", false),
    ("unitconvert", "xy_in=deg xy_out=rad", false),
    ("utm", "zone=32", false),
    ("pipeline", "", false),
    ("pop", "v_1", false),
    ("push", "v_1", false),
    ("stack", "push=1", false),
    ("noop", "", false),
    ("longlat", "", false),
    ("latlon", "", false),
    ("latlong", "", false),
    ("lonlat", "", false),
];
const NOOP_ALIASES: [&str; 5] = ["noop", "longlat", "latlon", "latlong", "lonlat"];
/// names the pipeline operator dispatches on by itself
const PIPELINE_HANDLERS: [&str; 4] = ["pipeline", "pop", "push", "stack"];

#[derive(Clone, Debug, Serialize, Deserialize)]
struct BuiltinCase {
    name: String,
    plain: bool,
    form: u8, // 0 stand-alone, 1 step of a pipeline, 2 body of a macro
}

fn is_name_not_found(e: &Error, name: &str) -> bool {
    matches!(e, Error::NotFound(n, _) if n == name)
}

fn check_builtin(case: &BuiltinCase, rec: &mut Rec) -> CaseResult {
    let name = case.name.as_str();
    let form = ["stand-alone", "pipeline-step", "macro-body"][case.form as usize % 3];
    let kind = if case.plain { "Plain" } else { "Minimal" };
    let entry = BUILTIN_TABLE.iter().find(|t| t.0 == name);
    let step = match entry {
        Some((_, p, _)) if !p.is_empty() => format!("{name} {p}"),
        _ => name.to_string(),
    };
    // the other step of the pipeline form must not be the operator under test
    let (filler, filler_prim) = if name == "addone" { ("helmert x=1", Prim::Helm(1)) } else { ("addone", Prim::Add1) };
    let def = match case.form % 3 {
        0 => step.clone(),
        1 => format!("{filler} | {step}"),
        _ => "bi:mac".to_string(),
    };
    let make = || -> AnyCtx {
        let mut c = AnyCtx::make(case.plain, true);
        if case.form % 3 == 2 {
            c.register_resource("bi:mac", &step);
        }
        c
    };
    let pr = probes();
    let mut ctx = make();
    // ---- (a) with no user registration the name must be FOUND (other constructor errors are not C18's business)
    let r1 = guard(|| ctx.op(&def)).map_err(|p| Failure { key: format!("panic-op@{}", p.sig()), msg: format!("op({def:?}) panics: {} at {}:{}", p.msg, p.file, p.line) })?;
    let mut h1 = None;
    match r1 {
        Err(e) if is_name_not_found(&e, name) => vfail!(
            "builtin-name-not-found",
            "{kind}: op({def:?}) ({form}) fails with {e:?}: the built-in operator name '{name}' (listed by builtin_operator_names()) is not found, no user operator or macro of that name is registered"
        ),
        Err(e) => {
            rec.class(&format!("constructor-error:{name}"));
            let expected_err = name == "pipeline" || (entry.map(|t| t.2).unwrap_or(false) && !case.plain) || entry.is_none();
            if !expected_err {
                rec.count("table_entry_rejected_by_constructor", 1);
            }
            let _ = e;
        }
        Ok(h) => {
            rec.class(&format!("resolved:{form}"));
            let fwd = singletons(&ctx, h, true, &pr)?;
            let inv = singletons(&ctx, h, false, &pr)?;
            // the operator instantiated is the one of that name
            if case.form % 3 != 1 {
                let pname = ctx.params(h, 0).map(|p| p.name).unwrap_or_default();
                if pname != name {
                    vfail!("builtin-resolved-to-something-else", "{kind}: op({def:?}) ({form}): params(handle, 0).name is '{pname}', expected '{name}'");
                }
            }
            // documented behaviour
            if NOOP_ALIASES.contains(&name) {
                let node = match case.form % 3 {
                    1 => Node::Seq { items: vec![Node::Leaf { prim: filler_prim.clone(), inverted: false }, Node::Leaf { prim: Prim::Noop, inverted: false }], inverted: false },
                    _ => Node::Leaf { prim: Prim::Noop, inverted: false },
                };
                // independent of any reference: data untouched (pipeline: only the addone), count 1
                for (j, p) in pr.iter().enumerate() {
                    let mut want = *p;
                    if case.form % 3 == 1 {
                        want[0] += 1.;
                    }
                    let w = Out { count: Ok(1), data: bits(&[want]) };
                    if fwd[j] != w {
                        vfail!("noop-alias-changes-data", "{kind}: '{def}' ({form}) Fwd of {:?}: count {:?} {} - a noop alias must leave the data alone and count every tuple ({})", p, fwd[j].count, show_bits(&fwd[j].data), node.describe());
                    }
                }
            } else if let (Some(mf), Some(mi)) = (ref_try_singletons(&if case.form % 3 == 1 { def.clone() } else { step.clone() }, true, &pr), ref_try_singletons(&if case.form % 3 == 1 { def.clone() } else { step.clone() }, false, &pr)) {
                if mf != fwd || mi != inv {
                    let j = (0..pr.len()).find(|j| mf[*j] != fwd[*j] || mi[*j] != inv[*j]).unwrap_or(0);
                    vfail!(
                        "builtin-behaviour-differs-from-reference-context",
                        "{kind}: '{def}' ({form}) on probe tuple #{j} {:?}: Fwd count {:?} {} / Inv count {:?} {}; the same built-in in a pristine reference context: Fwd count {:?} {} / Inv count {:?} {}",
                        pr[j], fwd[j].count, show_bits(&fwd[j].data), inv[j].count, show_bits(&inv[j].data), mf[j].count, show_bits(&mf[j].data), mi[j].count, show_bits(&mi[j].data)
                    );
                }
                rec.count("compared_with_reference_context", 1);
            } else {
                rec.count("reference_context_does_not_instantiate", 1);
            }
            let st = static_part(&ctx, h)?;
            h1 = Some((h, fwd, inv, st));
        }
    }
    // ---- (b) a user operator of that name wins - for instantiations made afterwards
    let in_pipeline_by_name = case.form % 3 == 1 && PIPELINE_HANDLERS.contains(&name);
    let j = [0u8, 1, 2, 4, 5][(name.len() + case.form as usize) % 5];
    ctx.register_op(name, ctor(j));
    if in_pipeline_by_name {
        // push/pop/stack steps are executed by the pipeline operator itself, by name: what a user
        // operator of that name means inside a pipeline is not documented
        rec.count("excluded_unspecified_pipeline_handler_shadowing", 1);
    } else {
        let r2 = guard(|| ctx.op(&def)).map_err(|p| Failure { key: format!("panic-op@{}", p.sig()), msg: format!("op({def:?}) panics: {} at {}:{}", p.msg, p.file, p.line) })?;
        let h2 = match r2 {
            Ok(h) => h,
            Err(e) => vfail!("user-op-does-not-shadow-builtin", "{kind}: after register_op({name:?}, U{j}) op({def:?}) ({form}) fails: {e:?}"),
        };
        let user = Node::Leaf { prim: Prim::User { c: j, d: 0 }, inverted: false };
        let node = if case.form % 3 == 1 { Node::Seq { items: vec![Node::Leaf { prim: filler_prim.clone(), inverted: false }, user], inverted: false } } else { user };
        let lib = singletons(&ctx, h2, true, &pr)?;
        let (m, _) = model_singletons(&node, true, &pr);
        let libi = singletons(&ctx, h2, false, &pr)?;
        let (mi, _) = model_singletons(&node, false, &pr);
        if lib != m || libi != mi {
            vfail!(
                "user-op-does-not-shadow-builtin",
                "{kind}: after register_op({name:?}, U{j}: +{} on element {}) op({def:?}) ({form}) gives Fwd {} / Inv {}, the user operator would give Fwd {} / Inv {}",
                UC[j as usize].0, UC[j as usize].1, show_outs(&lib), show_outs(&libi), show_outs(&m), show_outs(&mi)
            );
        }
        rec.class(&format!("shadowed:{form}"));
    }
    // ---- (c) ... and only for those: the operator instantiated before is unchanged
    if let Some((h, fwd, inv, st)) = &h1 {
        let fwd2 = singletons(&ctx, *h, true, &pr)?;
        let inv2 = singletons(&ctx, *h, false, &pr)?;
        let st2 = static_part(&ctx, *h)?;
        if &fwd2 != fwd || &inv2 != inv || &st2 != st {
            vfail!("handle-changed-after-register_op", "{kind}: '{def}' ({form}) instantiated BEFORE register_op({name:?}, ..) changed: Fwd {} -> {}, Inv {} -> {}, steps {:?} -> {:?}", show_outs(fwd), show_outs(&fwd2), show_outs(inv), show_outs(&inv2), st.0, st2.0);
        }
    }
    // ---- (d) ... and only in that context
    let mut other = make();
    match guard(|| other.op(&def)) {
        Ok(Ok(h3)) => {
            if let Some((_, fwd, _, _)) = &h1 {
                if &singletons(&other, h3, true, &pr)? != fwd {
                    vfail!("registration-leaked-to-other-context", "{kind}: '{def}' ({form}) in a fresh context behaves differently after register_op({name:?}, ..) in ANOTHER context");
                }
            }
        }
        Ok(Err(e)) => {
            if h1.is_some() || is_name_not_found(&e, name) {
                vfail!("registration-leaked-to-other-context", "{kind}: op({def:?}) ({form}) in a fresh context fails with {e:?} after register_op({name:?}, ..) in another context; it resolved before");
            }
        }
        Err(p) => vfail!(format!("panic-op@{}", p.sig()), "op({def:?}) panics: {} at {}:{}", p.msg, p.file, p.line),
    }
    rec.class(&format!("name:{name}"));
    rec.nontrivial(&(name.to_string(), case.plain, case.form));
    Ok(())
}

// =====================================================================================
// 7b'. A user-registered operator decides: whatever its constructor returns is the result
// =====================================================================================
//
// Documented order: pipeline -> user-registered operator -> macro -> built-in. Once a user operator
// is registered under the name N, resolution of a definition naming N STOPS there: `op()` hands back
// what the user constructor returns - a handle behaving as the user's operator, or the user's error -
// and never gets as far as the built-in called N, whether that built-in would accept the text or not.

#[derive(Clone, Debug, Serialize, Deserialize)]
struct OutcomeCase {
    name: String,
    /// 0 accepts; 1 `by` required (library parser refuses: MissingParam / BadParam); 2..18 refuses always with
    /// Error variant kind-2; 18..34 refuses with variant kind-18 unless the step text gives `by`
    kind: u8,
    /// parameter text: 0 the built-in's valid parameters; 1 none; 2 valid + by=7; 3 valid + by=abc; 4 valid + inv
    text: u8,
    /// 0 stand-alone; 1 step of a pipeline; 2 body of a macro; 3 step of a pipeline which is the body of a
    /// macro invoked as a step of a pipeline
    form: u8,
    plain: bool,
}
const OUTCOME_KINDS: usize = 34;
const OUTCOME_TEXTS: usize = 5;
const OUTCOME_FORMS: usize = 4;

fn outcome_kind(kind: u8) -> (u8, u8, String) {
    match kind as usize % OUTCOME_KINDS {
        0 => (0, 3, "accepts".to_string()),
        1 => (0, 2, "requires-by".to_string()),
        k if k < 18 => ((k - 2) as u8, 0, format!("always-{}", ERROR_VARIANTS[k - 2])),
        k => ((k - 18) as u8, 1, format!("unless-by-{}", ERROR_VARIANTS[k - 18])),
    }
}

fn check_outcome(case: &OutcomeCase, rec: &mut Rec) -> CaseResult {
    let name = case.name.as_str();
    let form = ["stand-alone", "pipeline-step", "macro-body", "pipeline-in-macro-in-pipeline"][case.form as usize % OUTCOME_FORMS];
    let kind = if case.plain { "Plain" } else { "Minimal" };
    let (v, m, klabel) = outcome_kind(case.kind);
    let valid = BUILTIN_TABLE.iter().find(|t| t.0 == name).map(|t| t.1).unwrap_or("");
    let (tail, by, inv): (String, i64, bool) = match case.text as usize % OUTCOME_TEXTS {
        0 => (valid.to_string(), 0, false),
        1 => (String::new(), 0, false),
        2 => (format!("{valid} by=7"), 7, false),
        3 => (format!("{valid} by=abc"), 0, false),
        _ => (format!("{valid} inv"), 0, true),
    };
    let tlabel = ["builtin-parameters", "no-parameters", "builtin-parameters+by=7", "builtin-parameters+by=abc", "builtin-parameters+inv"][case.text as usize % OUTCOME_TEXTS];
    let step = format!("{name} {}", tail.trim()).trim().to_string();
    let (filler, filler_prim) = if name == "addone" { ("helmert x=1", Prim::Helm(1)) } else { ("addone", Prim::Add1) };
    let fill = || Node::Leaf { prim: filler_prim.clone(), inverted: false };
    let def = match case.form as usize % OUTCOME_FORMS {
        0 => step.clone(),
        1 => format!("{filler} | {step}"),
        2 => "uo:mac".to_string(),
        _ => format!("{filler} | uo:pipe"),
    };
    let make = || -> AnyCtx {
        let mut c = AnyCtx::make(case.plain, true);
        c.register_resource("uo:mac", &step);
        c.register_resource("uo:pipe", &format!("{step} | {filler}"));
        c
    };
    let wrap = |user: Node| -> Node {
        match case.form as usize % OUTCOME_FORMS {
            0 | 2 => user,
            1 => Node::Seq { items: vec![fill(), user], inverted: false },
            _ => Node::Seq { items: vec![fill(), Node::Seq { items: vec![user, fill()], inverted: false }], inverted: false },
        }
    };
    let op_guarded = |ctx: &mut AnyCtx| -> Result<Result<OpHandle, Error>, Failure> {
        guard(|| ctx.op(&def)).map_err(|p| Failure { key: format!("panic-op@{}", p.sig()), msg: format!("op({def:?}) panics: {} at {}:{}", p.msg, p.file, p.line) })
    };
    let pr = probes();

    // what the BUILT-IN of that name makes of the very same definition (no user registration): class label only
    let builtin_accepts = {
        let mut c0 = make();
        op_guarded(&mut c0)?.is_ok()
    };
    let blabel = if builtin_accepts { "builtin-would-accept" } else { "builtin-would-refuse" };

    let mut ctx = make();
    ctx.register_op(name, outcome_ctor(v, m));
    let in_pipeline_by_name = case.form % 4 % 2 == 1 && PIPELINE_HANDLERS.contains(&name);
    // every later definition naming N: the first one, and again (a refusal must not wear the registration off)
    for round in 0..2 {
        let _ = uctor_log_take();
        let r = op_guarded(&mut ctx)?;
        let log = uctor_log_take();
        let Some((seen, returned)) = log.first().cloned() else {
            vfail!(
                format!("user-op-not-consulted/{form}"),
                "{kind}: after register_op({name:?}, <{klabel}>) op({def:?}) ({form}, instantiation #{}) gives {} WITHOUT the user constructor having been called: the documented order (pipeline, user-registered operator, macro, built-in) was not followed",
                round + 1, match &r { Ok(_) => "Ok".to_string(), Err(e) => format!("{e:?}") }
            );
        };
        match (&returned, r) {
            (Err(user_err), Ok(h)) => {
                let lib = singletons(&ctx, h, true, &pr[..2])?;
                vfail!(
                    format!("user-op-refusal-fell-through/{form}"),
                    "{kind}: '{name}' is registered by the user; for the step '{seen}' the user constructor returned {user_err}, yet op({def:?}) ({form}, instantiation #{}) SUCCEEDS (Fwd of {:?}, {:?} gives {}; params(0).name = {:?}): resolution went on past the user-registered operator ({blabel} the same text). Expected: the user's error",
                    round + 1, pr[0], pr[1], show_outs(&lib), ctx.params(h, 0).map(|p| p.name).ok()
                );
            }
            (Err(user_err), Err(e)) => {
                let got = format!("{e:?}");
                if &got != user_err {
                    vfail!(
                        format!("user-op-error-replaced/{form}"),
                        "{kind}: '{name}' is registered by the user; for the step '{seen}' the user constructor returned {user_err}, but op({def:?}) ({form}) fails with {got} ({blabel} the same text). Expected: exactly the user's error"
                    );
                }
                rec.class(&format!("refused:{}/{blabel}", returned.as_ref().err().map(|e| e.split(['(', ' ', '{']).next().unwrap_or("?").to_string()).unwrap_or_default()));
            }
            (Ok(()), Err(e)) => vfail!(
                format!("user-op-accepted-but-op-failed/{form}"),
                "{kind}: '{name}' is registered by the user, its constructor ACCEPTED the step '{seen}', but op({def:?}) ({form}) fails with {e:?}"
            ),
            (Ok(()), Ok(h)) => {
                if in_pipeline_by_name {
                    // push/pop/stack steps are executed by the pipeline operator itself, by name: what an
                    // accepting user operator of that name does inside a pipeline is not documented
                    rec.count("excluded_unspecified_pipeline_handler_shadowing", 1);
                } else {
                    let node = wrap(Node::Leaf { prim: Prim::By(by), inverted: inv });
                    let lib = singletons(&ctx, h, true, &pr)?;
                    let (mf, _) = model_singletons(&node, true, &pr);
                    let libi = singletons(&ctx, h, false, &pr)?;
                    let (mi, _) = model_singletons(&node, false, &pr);
                    if lib != mf || libi != mi {
                        vfail!(
                            format!("user-op-does-not-shadow-builtin/{form}"),
                            "{kind}: '{name}' is registered by the user (adds {RBASE} + by to the first element), its constructor accepted the step '{seen}', but op({def:?}) ({form}) gives Fwd {} / Inv {}; with the user's operator it would be Fwd {} / Inv {} ({})",
                            show_outs(&lib), show_outs(&libi), show_outs(&mf), show_outs(&mi), node.describe()
                        );
                    }
                }
                rec.class(&format!("accepted/{blabel}"));
            }
        }
    }
    // ... and the NEXT registration under that name decides from then on: accepting after refusing and v.v.
    let accepted_first = m >= 2;
    let (v2, m2) = if accepted_first { ((name.len() + case.text as usize) as u8 % 16, 0) } else { (0, 3) };
    ctx.register_op(name, outcome_ctor(v2, m2));
    let _ = uctor_log_take();
    let r = op_guarded(&mut ctx)?;
    let log = uctor_log_take();
    match (log.first(), &r) {
        (None, _) => vfail!(format!("user-op-not-consulted/{form}"), "{kind}: after a SECOND register_op({name:?}, ..) op({def:?}) ({form}) does not call the user constructor"),
        (Some((_, Err(ue))), Ok(_)) => vfail!(format!("user-op-refusal-fell-through/{form}"), "{kind}: register_op({name:?}, <{klabel}>), then register_op({name:?}, <always-{}>): op({def:?}) ({form}) succeeds although the constructor registered LAST returned {ue}", ERROR_VARIANTS[v2 as usize]),
        (Some((_, Ok(()))), Err(e)) => vfail!(format!("user-op-accepted-but-op-failed/{form}"), "{kind}: register_op({name:?}, <{klabel}>), then register_op({name:?}, <accepts>): op({def:?}) ({form}) fails with {e:?} although the constructor registered LAST accepted"),
        (Some((_, Err(ue))), Err(e)) => {
            if &format!("{e:?}") != ue {
                vfail!(format!("user-op-error-replaced/{form}"), "{kind}: re-registered '{name}': the user constructor returned {ue}, op({def:?}) ({form}) fails with {e:?}");
            }
        }
        (Some((_, Ok(()))), Ok(_)) => {}
    }
    rec.class(&format!("ctor:{klabel}"));
    rec.class(&format!("text:{tlabel}"));
    rec.class(&format!("form:{form}"));
    rec.class(&format!("name:{name}"));
    rec.nontrivial(&(name.to_string(), case.kind, case.text, case.form, case.plain));
    Ok(())
}

// =====================================================================================
// 7c. Unknown names derived from known file items must stay unknown
// =====================================================================================

#[derive(Clone, Debug, Serialize, Deserialize)]
struct DerivedCase {
    item: String,   // a name of the generated resource tree, "prefix:suffix"
    derivation: u8, // see `derive_name`
    plain: bool,
    form: u8, // 0 stand-alone, 1 pipeline step, 2 macro body, 3 registered at run time under the derived name
}

const DERIVATIONS: [&str; 6] = ["item:x", "x:item", "prefix:x:suffix", "prefix::suffix", "item:suffix", "item: (trailing colon)"];

fn derive_name(item: &str, derivation: u8) -> String {
    let (prefix, suffix) = item.split_once(':').unwrap_or((item, ""));
    match derivation % 6 {
        0 => format!("{item}:x"),
        1 => format!("x:{item}"),
        2 => format!("{prefix}:x:{suffix}"),
        3 => format!("{prefix}::{suffix}"),
        4 => format!("{item}:{suffix}"),
        _ => format!("{item}:"),
    }
}

fn check_derived(case: &DerivedCase, rec: &mut Rec) -> CaseResult {
    let name = derive_name(&case.item, case.derivation);
    let label = DERIVATIONS[case.derivation as usize % 6];
    let kind = if case.plain { "Plain" } else { "Minimal" };
    let form = ["stand-alone", "pipeline-step", "macro-body", "registered-at-run-time"][case.form as usize % 4];
    let mut ctx = AnyCtx::make(case.plain, true);
    let def = match case.form % 4 {
        0 | 3 => name.clone(),
        1 => format!("addone | {name} | helmert x=2"),
        _ => {
            ctx.register_resource("dn:mac", &name);
            "dn:mac".to_string()
        }
    };
    if case.form % 4 == 3 {
        ctx.register_resource(&name, "helmert x=9");
    }
    let r = guard(|| ctx.op(&def)).map_err(|p| Failure { key: format!("panic-op@{}", p.sig()), msg: format!("op({def:?}) panics: {} at {}:{}", p.msg, p.file, p.line) })?;
    if case.derivation % 6 == 5 {
        // the tokenizer strips ':' from both ends of a definition (continuation line markers), so a
        // trailing colon is not part of the name by design: outcome not compared
        rec.count("excluded_unspecified_trailing_colon", 1);
        rec.class("trailing-colon-not-compared");
        return Ok(());
    }
    let pr = probes();
    match (case.form % 4, r) {
        (3, Ok(h)) => {
            // a run-time registration under exactly that name is found first, however many colons
            let node = Node::Leaf { prim: Prim::Helm(9), inverted: false };
            let lib = singletons(&ctx, h, true, &pr[..3])?;
            let (m, _) = model_singletons(&node, true, &pr[..3]);
            if lib != m {
                vfail!("runtime-macro-with-several-colons-misresolved", "{kind}: register_resource({name:?}, \"helmert x=9\"); op({def:?}) gives {} instead of {}", show_outs(&lib), show_outs(&m));
            }
            rec.class("registered-derived-name-found");
        }
        (3, Err(e)) => vfail!("runtime-macro-with-several-colons-not-found", "{kind}: register_resource({name:?}, \"helmert x=9\"); op({def:?}) fails: {e:?}"),
        (_, Ok(h)) => {
            let lib = singletons(&ctx, h, true, &pr[..1])?;
            vfail!(
                format!("unknown-derived-name-instantiated/{label}"),
                "{kind}: op({def:?}) ({form}) succeeds although no operator or macro called '{name}' exists (derived from the file item '{}' as {label}); Fwd of {:?} gives {}; steps {:?}",
                case.item, pr[0], show_outs(&lib), ctx.steps(h)
            );
        }
        (_, Err(_)) => rec.class(&format!("unknown-as-expected:{label}")),
    }
    rec.nontrivial(&(name, case.plain, case.form));
    Ok(())
}

// =====================================================================================
// 7d. WHEN the directory tree and the files come into existence
// =====================================================================================
//
// Reference: a look-up consults the file system as it is AT THE TIME OF THE LOOK-UP ("By placing the
// text block in the file ./geodesy/resources/my_register.md, Geodesy, using the Plain Context, will know
// it as the macro my_register:pointless", Rumination 009) - not as it was when the context was created
// or when the name was last asked for. Registers and stand-alone resource files are read at every
// look-up (confirmed on the unchanged tree); grids are legitimately cached BY NAME once loaded (doc
// comment of Plain::clear_grids), so a grid name never changes its content here and a removed grid may
// or may not be found.
//
// Every case gets a directory tree of its own (cwd and XDG_DATA_HOME are process-wide, so the cases of
// these sections run one at a time, under a lock, and restore the world of the other sections).

#[derive(Clone, Debug, Serialize, Deserialize)]
enum LCmd {
    NewCtx { slot: u8, with_new: bool },
    /// depth 0: <loc>/geodesy; 1: <loc>/geodesy/resources; 2: <loc>/geodesy/geoid - created EMPTY
    MkDir { xdg: bool, depth: u8 },
    /// (re)write the register of that location with the given versions of its items a and b
    PutReg { xdg: bool, a: Option<u8>, b: Option<u8>, style: u8 },
    PutRes { xdg: bool, b: bool, v: u8 },
    PutGrid { xdg: bool, v: u8 },
    DelReg { xdg: bool },
    DelRes { xdg: bool, b: bool },
    RmTree { xdg: bool },
    /// run-time registration under the name of target 0..8
    RegRt { slot: u8, target: u8, v: u8 },
    /// targets 0..8: (location, register | stand-alone, item a | b); 8, 9: the grid of the location
    /// form % 4: 0 stand-alone; 1 step of a pipeline; 2 through a run-time macro naming it; 3 inverted;
    /// form & 4: go for the next target (cyclically) whose file exists right now, if any
    Look { slot: u8, target: u8, form: u8 },
    /// look up (form % 4) the target found last - after rewriting its file with another version, if `rewrite`
    Again { slot: u8, form: u8, rewrite: Option<u8> },
}

#[derive(Clone, Debug, Serialize, Deserialize)]
struct LateCase {
    cmds: Vec<LCmd>,
}

static LATE_LOCK: std::sync::Mutex<()> = std::sync::Mutex::new(());
static LATE_ROOT: OnceLock<PathBuf> = OnceLock::new();
/// Where the per-case trees live: a memory file system if there is one (thousands of tiny directory
/// operations; the disk behind the temp directory may be busy), else under the world's root
fn late_root() -> &'static PathBuf {
    LATE_ROOT.get_or_init(|| {
        let pid = std::process::id();
        let shm = PathBuf::from("/dev/shm");
        if let Ok(rd) = std::fs::read_dir(&shm) {
            for e in rd.flatten() {
                let n = e.file_name().to_string_lossy().to_string();
                if let Some(p) = n.strip_prefix("verif-c18-late-").and_then(|p| p.parse::<u32>().ok()) {
                    if p != pid && !std::path::Path::new(&format!("/proc/{p}")).exists() {
                        let _ = std::fs::remove_dir_all(e.path());
                    }
                }
            }
        }
        let cand = shm.join(format!("verif-c18-late-{pid}"));
        if std::fs::create_dir_all(&cand).is_ok() {
            return cand;
        }
        world().root.join("late")
    })
}
static LATE_COUNTER: AtomicU64 = AtomicU64::new(0);

struct LateEnv {
    base: PathBuf,
    id: u64,
}
impl LateEnv {
    fn enter() -> LateEnv {
        let id = LATE_COUNTER.fetch_add(1, Ordering::Relaxed);
        let base = late_root().join(format!("c{id}"));
        let _ = std::fs::remove_dir_all(&base);
        std::fs::create_dir_all(base.join("w")).expect("late tree");
        std::fs::create_dir_all(base.join("u")).expect("late tree");
        std::env::set_var("XDG_DATA_HOME", base.join("u"));
        std::env::set_current_dir(base.join("w")).expect("chdir into the late tree");
        LateEnv { base, id }
    }
    fn geodesy(&self, xdg: bool) -> PathBuf {
        self.base.join(if xdg { "u" } else { "w" }).join("geodesy")
    }
}
impl Drop for LateEnv {
    fn drop(&mut self) {
        std::env::set_var("XDG_DATA_HOME", world().root.join("u"));
        let _ = std::env::set_current_dir(world().root.join("w"));
        let _ = std::fs::remove_dir_all(&self.base);
    }
}

const LATE_PREFIX: [&str; 4] = ["lw", "sw", "lu", "su"]; // register / stand-alone in cwd, register / stand-alone in the user directory
fn late_name(t: usize) -> String {
    format!("{}:{}", LATE_PREFIX[t / 2], ["a", "b"][t % 2])
}
fn late_const(t: usize, v: u8) -> i64 {
    1000 * (t as i64 + 1) + (v % 100) as i64
}
fn late_label(t: usize) -> String {
    if t >= 8 {
        return format!("grid/{}", if t == 9 { "user-dir" } else { "cwd" });
    }
    format!("{}/{}", if (t % 4) / 2 == 0 { "register" } else { "stand-alone" }, if t / 4 == 1 { "user-dir" } else { "cwd" })
}

#[derive(Clone, Copy, Default, PartialEq, Debug)]
struct DirState {
    geodesy: bool,
    resources: bool,
    geoid: bool,
}

#[derive(Clone, Default)]
struct LateFs {
    dirs: [DirState; 2],
    regs: [Option<[Option<u8>; 2]>; 2],
    res: [[Option<u8>; 2]; 2],
    /// (version, exists now); None: never written
    grid: [Option<(u8, bool)>; 2],
    /// how often the file providing the target has been (re)written
    writes: [u32; 10],
}
impl LateFs {
    fn version(&self, t: usize) -> Option<u8> {
        let (loc, kind, sfx) = (t / 4, (t % 4) / 2, t % 2);
        if kind == 0 {
            self.regs[loc].and_then(|r| r[sfx])
        } else {
            self.res[loc][sfx]
        }
    }
}

struct LateCtx {
    any: AnyCtx,
    rt: BTreeMap<String, i64>,
    born: LateFs,
    /// per target: (number of vain look-ups, `writes` at the last successful look-up)
    asked: [(u32, Option<u32>); 10],
}

fn run_late(case: &LateCase, rec: &mut Rec) -> CaseResult {
    let _lock = LATE_LOCK.lock().unwrap_or_else(|e| e.into_inner());
    run_late_locked(case, rec)
}

fn run_late_locked(case: &LateCase, rec: &mut Rec) -> CaseResult {
    let env = LateEnv::enter();
    let pr = probes();
    let mut fs = LateFs::default();
    let mut ctxs: [Option<LateCtx>; 2] = [None, None];
    // (slot, handle, text, fwd, inv)
    let mut live: Vec<(usize, OpHandle, String, Vec<Out>, Vec<Out>)> = vec![];
    let mut sig = String::new();
    let mut nt = false;
    let grid_name = |xdg: bool| format!("c18l{}{}.geoid", env.id, if xdg { "u" } else { "w" });
    let io = |r: std::io::Result<()>, what: &str| r.unwrap_or_else(|e| panic!("late tree: {what}: {e}"));
    let mut queue: std::collections::VecDeque<LCmd> = case.cmds.iter().cloned().collect();
    let mut last_found: Option<usize> = None;
    let mut at = 0usize;
    while let Some(cmd) = queue.pop_front() {
        at += 1;
        // a context that is used before the history created it comes into being at that moment
        if let LCmd::RegRt { slot, .. } | LCmd::Look { slot, .. } | LCmd::Again { slot, .. } = &cmd {
            let s = *slot as usize % 2;
            if ctxs[s].is_none() {
                ctxs[s] = Some(LateCtx { any: AnyCtx::make(true, true), rt: BTreeMap::new(), born: fs.clone(), asked: [(0, None); 10] });
                let _ = write!(sig, "N{s};");
                rec.class("cmd:new-context");
            }
        }
        let cmd = &cmd;
        let label: &'static str = match cmd {
            LCmd::Again { slot, form, rewrite } => {
                // the target found last (by any context): optionally rewrite its file with another version
                // (a removed grid is restored: grid names keep their content), then look it up (again)
                let Some(t) = last_found else {
                    rec.count("skipped_nothing_found_yet", 1);
                    continue;
                };
                let xdg = if t >= 8 { t == 9 } else { t / 4 == 1 };
                queue.push_front(LCmd::Look { slot: *slot, target: t as u8, form: form % 4 });
                if let Some(v) = rewrite {
                    let put = if t >= 8 {
                        LCmd::PutGrid { xdg, v: *v }
                    } else if (t % 4) / 2 == 0 {
                        let cur = fs.regs[xdg as usize].unwrap_or([None, None]);
                        if t % 2 == 0 { LCmd::PutReg { xdg, a: Some(*v), b: cur[1], style: *v } } else { LCmd::PutReg { xdg, a: cur[0], b: Some(*v), style: *v } }
                    } else {
                        LCmd::PutRes { xdg, b: t % 2 == 1, v: *v }
                    };
                    queue.push_front(put);
                }
                continue;
            }
            LCmd::NewCtx { slot, with_new } => {
                let s = *slot as usize % 2;
                live.retain(|l| l.0 != s);
                ctxs[s] = Some(LateCtx { any: AnyCtx::make(true, *with_new), rt: BTreeMap::new(), born: fs.clone(), asked: [(0, None); 10] });
                let _ = write!(sig, "N{s};");
                "new-context"
            }
            LCmd::MkDir { xdg, depth } => {
                let loc = *xdg as usize;
                let g = env.geodesy(*xdg);
                let d = &mut fs.dirs[loc];
                match depth % 3 {
                    0 => {
                        io(std::fs::create_dir_all(&g), "mkdir geodesy");
                        d.geodesy = true;
                    }
                    1 => {
                        io(std::fs::create_dir_all(g.join("resources")), "mkdir resources");
                        (d.geodesy, d.resources) = (true, true);
                    }
                    _ => {
                        io(std::fs::create_dir_all(g.join("geoid")), "mkdir geoid");
                        (d.geodesy, d.geoid) = (true, true);
                    }
                }
                let _ = write!(sig, "M{loc}{};", depth % 3);
                "mkdir-empty"
            }
            LCmd::PutReg { xdg, a, b, style } => {
                let loc = *xdg as usize;
                let dir = env.geodesy(*xdg).join("resources");
                io(std::fs::create_dir_all(&dir), "mkdir resources");
                (fs.dirs[loc].geodesy, fs.dirs[loc].resources) = (true, true);
                let t0 = loc * 4;
                let defs: Vec<(usize, Def)> = [a, b].iter().enumerate().filter_map(|(k, v)| v.map(|v| (k, one(helm_k(late_const(t0 + k, v)))))).collect();
                let items: Vec<(&str, &Def, u8)> = defs.iter().map(|(k, d)| (["a", "b"][*k], d, (*k as u8 + style) % 2)).collect();
                let e = [Eol::Lf, Eol::CrLf, Eol::Cr][*style as usize % 3];
                let ending = [Ending::TermNl, Ending::TermNoNl, Ending::OpenNl, Ending::OpenNoNl][(*style as usize / 3) % 4];
                io(std::fs::write(dir.join(format!("{}.md", LATE_PREFIX[loc * 2])), register_text("Late", &items, e, ending)), "write register");
                fs.regs[loc] = Some([a.map(|v| v % 100), b.map(|v| v % 100)]);
                fs.writes[t0] += 1;
                fs.writes[t0 + 1] += 1;
                let _ = write!(sig, "G{loc}{a:?}{b:?};");
                "write-register"
            }
            LCmd::PutRes { xdg, b, v } => {
                let loc = *xdg as usize;
                let dir = env.geodesy(*xdg).join("resources");
                io(std::fs::create_dir_all(&dir), "mkdir resources");
                (fs.dirs[loc].geodesy, fs.dirs[loc].resources) = (true, true);
                let t = loc * 4 + 2 + *b as usize;
                let text = format!("helmert x={}{}", late_const(t, *v), if v % 2 == 0 { "\n" } else { "" });
                io(std::fs::write(dir.join(format!("{}_{}.resource", LATE_PREFIX[loc * 2 + 1], ["a", "b"][*b as usize])), text), "write resource");
                fs.res[loc][*b as usize] = Some(v % 100);
                fs.writes[t] += 1;
                let _ = write!(sig, "S{loc}{}{v};", *b as u8);
                "write-resource-file"
            }
            LCmd::PutGrid { xdg, v } => {
                let loc = *xdg as usize;
                let dir = env.geodesy(*xdg).join("geoid");
                io(std::fs::create_dir_all(&dir), "mkdir geoid");
                (fs.dirs[loc].geodesy, fs.dirs[loc].geoid) = (true, true);
                // the content behind a grid name never changes: a later PutGrid restores the same file
                let v = fs.grid[loc].map(|g| g.0).unwrap_or(*v % 8);
                if !matches!(fs.grid[loc], Some((_, true))) {
                    io(std::fs::write(dir.join(grid_name(*xdg)), priv_grid_text(v)), "write grid");
                    fs.grid[loc] = Some((v, true));
                    fs.writes[8 + loc] += 1;
                }
                let _ = write!(sig, "P{loc}{v};");
                "write-grid-file"
            }
            LCmd::DelReg { xdg } => {
                let loc = *xdg as usize;
                let _ = std::fs::remove_file(env.geodesy(*xdg).join("resources").join(format!("{}.md", LATE_PREFIX[loc * 2])));
                fs.regs[loc] = None;
                let _ = write!(sig, "D{loc};");
                "remove-register"
            }
            LCmd::DelRes { xdg, b } => {
                let loc = *xdg as usize;
                let _ = std::fs::remove_file(env.geodesy(*xdg).join("resources").join(format!("{}_{}.resource", LATE_PREFIX[loc * 2 + 1], ["a", "b"][*b as usize])));
                fs.res[loc][*b as usize] = None;
                let _ = write!(sig, "E{loc}{};", *b as u8);
                "remove-resource-file"
            }
            LCmd::RmTree { xdg } => {
                let loc = *xdg as usize;
                let _ = std::fs::remove_dir_all(env.geodesy(*xdg));
                fs.dirs[loc] = DirState::default();
                fs.regs[loc] = None;
                fs.res[loc] = [None, None];
                if let Some(g) = fs.grid[loc].as_mut() {
                    g.1 = false;
                }
                let _ = write!(sig, "X{loc};");
                "remove-tree"
            }
            LCmd::RegRt { slot, target, v } => {
                let (s, t) = (*slot as usize % 2, *target as usize % 8);
                let c = ctxs[s].as_mut().expect("context exists");
                let k = 50_000 + late_const(t, *v);
                c.any.register_resource(&late_name(t), &format!("helmert x={k}"));
                c.rt.insert(late_name(t), k);
                let _ = write!(sig, "R{s}{t};");
                "register_resource"
            }
            LCmd::Look { slot, target, form } => {
                let (s, mut t, redirect, form) = (*slot as usize % 2, *target as usize % 10, *form & 4 != 0, *form % 4);
                let c = ctxs[s].as_mut().expect("context exists");
                if redirect {
                    // prefer a target whose file exists right now (the next one, cyclically), if there is any
                    let provided = |c: usize| if c >= 8 { matches!(fs.grid[c - 8], Some((_, true))) } else { fs.version(c).is_some() };
                    if let Some(c) = (0..10).map(|k| (t + k) % 10).find(|c| provided(*c)) {
                        t = c;
                    }
                }
                let loc = if t >= 8 { t - 8 } else { t / 4 };
                let name = if t >= 8 { format!("gridshift grids={}", grid_name(loc == 1)) } else { late_name(t) };
                // expectation from the file system AS IT IS NOW
                let (leaf, either): (Option<Prim>, bool) = if t >= 8 {
                    match fs.grid[loc] {
                        Some((v, true)) => (Some(Prim::Grid(format!("pv{v}.geoid"))), false),
                        Some((v, false)) => (Some(Prim::Grid(format!("pv{v}.geoid"))), true), // removed: cached or not
                        None => (None, false),
                    }
                } else if let Some(k) = c.rt.get(&name) {
                    (Some(Prim::Helm(*k)), false)
                } else {
                    (fs.version(t).map(|v| Prim::Helm(late_const(t, v))), false)
                };
                let from_file = t >= 8 || !c.rt.contains_key(&name);
                let def = match form {
                    0 => name.clone(),
                    1 => format!("addone | {name}"),
                    2 => {
                        c.any.register_resource(&format!("rt:via{t}"), &name);
                        format!("rt:via{t}")
                    }
                    _ => format!("{name} inv"),
                };
                let r = guard(|| c.any.op(&def)).map_err(|p| Failure { key: format!("panic-op@{}", p.sig()), msg: format!("op({def:?}) panics: {} at {}:{}", p.msg, p.file, p.line) })?;
                let what = late_label(t);
                // how the moment of this look-up relates to the creation of the context and to earlier look-ups
                let born = &c.born;
                let timing = if !from_file {
                    "run-time-registration-wins"
                } else if !born.dirs[loc].geodesy {
                    "context-created-before-the-geodesy-directory"
                } else if !(if t >= 8 { born.dirs[loc].geoid } else { born.dirs[loc].resources }) {
                    "context-created-before-the-subdirectory"
                } else if born.writes[t] == 0 {
                    "context-created-before-the-file(directory-empty)"
                } else if born.writes[t] != fs.writes[t] {
                    "file-rewritten-after-context-creation"
                } else {
                    "context-created-after-the-file"
                };
                let history = format!(
                    "context #{s} was created when {} had: geodesy/ {}, geodesy/resources/ {}, geodesy/geoid/ {}, the file written {} time(s); now: geodesy/ {}, resources/ {}, geoid/ {}, file written {} time(s); earlier look-ups of this name in this context: {} in vain, last success at file version #{:?}",
                    if loc == 1 { "$XDG_DATA_HOME" } else { "the working directory" },
                    born.dirs[loc].geodesy, born.dirs[loc].resources, born.dirs[loc].geoid, born.writes[t],
                    fs.dirs[loc].geodesy, fs.dirs[loc].resources, fs.dirs[loc].geoid, fs.writes[t], c.asked[t].0, c.asked[t].1
                );
                match (&leaf, r) {
                    (None, Ok(h)) => {
                        let lib = singletons(&c.any, h, true, &pr[..2])?;
                        vfail!(
                            format!("absent-file-item-found/{what}"),
                            "Plain: op({def:?}) succeeds (Fwd of the first probe tuples: {}) although nothing provides that name at the time of the look-up (file removed / never written; history step {at}); {history}",
                            show_outs(&lib)
                        );
                    }
                    (None, Err(_)) => {
                        c.asked[t].0 += 1;
                        rec.class(&format!("absent-as-expected:{what}"));
                    }
                    (Some(prim), Err(e)) => {
                        if either {
                            rec.class("removed-grid:not-found");
                        } else {
                            vfail!(
                                format!("file-not-found-at-lookup-time/{what}/{timing}"),
                                "Plain: op({def:?}) fails with {e:?} although the {what} file providing it ({prim:?}) EXISTS at the time of the look-up (history step {at}); {history}. A look-up consults the file system as it is when the name is asked for, whenever the context was created"
                            );
                        }
                    }
                    (Some(prim), Ok(h)) => {
                        let user = Node::Leaf { prim: prim.clone(), inverted: form == 3 };
                        let node = if form == 1 { Node::Seq { items: vec![Node::Leaf { prim: Prim::Add1, inverted: false }, user], inverted: false } } else { user };
                        let lib = singletons(&c.any, h, true, &pr)?;
                        let libi = singletons(&c.any, h, false, &pr)?;
                        let (mf, _) = model_singletons(&node, true, &pr);
                        let (mi, _) = model_singletons(&node, false, &pr);
                        if lib != mf || libi != mi {
                            vfail!(
                                format!("file-lookup-mismatch/{what}/{timing}"),
                                "Plain: op({def:?}) (history step {at}) gives Fwd {} / Inv {}, but what the {what} file holds at the time of the look-up is {} -> Fwd {} / Inv {}; {history}",
                                show_outs(&lib), show_outs(&libi), node.describe(), show_outs(&mf), show_outs(&mi)
                            );
                        }
                        if from_file {
                            rec.class(&format!("found:{what}/{timing}"));
                            if c.asked[t].0 > 0 && c.asked[t].1.is_none() {
                                rec.class(&format!("found-after-vain-lookup:{what}"));
                            }
                            if c.asked[t].1.is_some_and(|w| w != fs.writes[t]) {
                                rec.class(&format!("{}:{what}", if t >= 8 { "found-again-after-removal-and-restoration" } else { "found-new-content-after-replacement" }));
                            }
                            if timing != "context-created-after-the-file" {
                                nt = true;
                            }
                            c.asked[t].1 = Some(fs.writes[t]);
                            last_found = Some(t);
                        } else {
                            rec.class("found:run-time-registration-over-file");
                        }
                        if live.len() < 8 {
                            live.push((s, h, def.clone(), lib, libi));
                        }
                    }
                }
                let _ = write!(sig, "L{s}{t}{form};");
                "look-up"
            }
        };
        rec.class(&format!("cmd:{label}"));
        // every operator instantiated earlier is unchanged, whatever happened to its file or directory
        for (s, h, text, fwd, inv) in &live {
            let c = ctxs[*s].as_ref().expect("live handle of a live context");
            if &singletons(&c.any, *h, true, &pr)? != fwd || &singletons(&c.any, *h, false, &pr)? != inv {
                vfail!(format!("handle-changed-after-{label}"), "Plain: operator '{text}' (context #{s}) changed after history step {at} ({label}): Fwd was {}", show_outs(fwd));
            }
        }
    }
    if nt {
        rec.nontrivial(&sig);
    }
    Ok(())
}

/// The canonical orderings of: context creation, directory creation, file creation / replacement /
/// removal, look-up - for every file kind in both search locations
fn late_orderings() -> Vec<LateCase> {
    let mut out = vec![];
    for t in 0..10usize {
        let xdg = if t >= 8 { t == 9 } else { t / 4 == 1 };
        let put = |v: u8| -> LCmd {
            if t >= 8 {
                LCmd::PutGrid { xdg, v }
            } else if (t % 4) / 2 == 0 {
                if t % 2 == 0 { LCmd::PutReg { xdg, a: Some(v), b: Some(v + 1), style: t as u8 * 5 + v } } else { LCmd::PutReg { xdg, a: None, b: Some(v), style: t as u8 * 5 + v } }
            } else {
                LCmd::PutRes { xdg, b: t % 2 == 1, v }
            }
        };
        let del = || -> LCmd {
            if t >= 8 {
                LCmd::RmTree { xdg }
            } else if (t % 4) / 2 == 0 {
                LCmd::DelReg { xdg }
            } else {
                LCmd::DelRes { xdg, b: t % 2 == 1 }
            }
        };
        let other = if t >= 8 { 17 - t } else { (t + 4) % 8 };
        let put_other = |v: u8| -> LCmd {
            if other >= 8 {
                LCmd::PutGrid { xdg: !xdg, v }
            } else if (other % 4) / 2 == 0 {
                LCmd::PutReg { xdg: !xdg, a: Some(v), b: Some(v + 1), style: 1 }
            } else {
                LCmd::PutRes { xdg: !xdg, b: other % 2 == 1, v }
            }
        };
        let sub = LCmd::MkDir { xdg, depth: if t >= 8 { 2 } else { 1 } };
        let top = LCmd::MkDir { xdg, depth: 0 };
        let look = |slot: u8, form: u8| LCmd::Look { slot, target: t as u8, form };
        for with_new in [true, false] {
            let new = |slot: u8| LCmd::NewCtx { slot, with_new };
            let orders: Vec<Vec<LCmd>> = vec![
                // context before the whole tree
                vec![new(0), put(3), look(0, 0), look(0, 1)],
                // look-ups in vain while the tree grows level by level
                vec![new(0), look(0, 0), top.clone(), look(0, 0), sub.clone(), look(0, 1), put(5), look(0, 0), look(0, 2)],
                // context after geodesy/, before the sub-directory
                vec![top.clone(), new(0), put(7), look(0, 0)],
                // context after the (empty) sub-directory, before the file
                vec![sub.clone(), new(0), look(0, 0), put(9), look(0, 3)],
                // tree before context
                vec![put(11), new(0), look(0, 0)],
                // file replaced between look-ups; a second, younger context
                vec![new(0), put(13), look(0, 0), put(23), look(0, 0), new(1), look(1, 0), look(0, 1)],
                // file removed, then written again
                vec![new(0), put(15), look(0, 0), del(), look(0, 0), put(35), look(0, 0)],
                // run-time registration first, file later: precedence; another context sees the file
                vec![new(0), LCmd::RegRt { slot: 0, target: t as u8, v: 1 }, look(0, 0), put(17), look(0, 0), new(1), look(1, 0)],
                // whole tree removed and rebuilt
                vec![new(0), put(19), look(0, 0), LCmd::RmTree { xdg }, look(0, 0), new(1), put(49), look(0, 0), look(1, 0)],
                // the OTHER search location exists when the context is created, this one does not
                vec![put_other(21), new(0), put(51), look(0, 0), LCmd::Look { slot: 0, target: other as u8, form: 0 }],
            ];
            for cmds in orders {
                out.push(LateCase { cmds });
            }
        }
    }
    out
}

fn arb_lcmd() -> impl Strategy<Value = LCmd> {
    let ov = || prop::option::weighted(0.8, 0u8..100);
    prop_oneof![
        2 => (0u8..2, prop::bool::weighted(0.7)).prop_map(|(slot, with_new)| LCmd::NewCtx { slot, with_new }),
        4 => (0u8..2, 0u8..4, prop::option::weighted(0.7, 0u8..100)).prop_map(|(slot, form, rewrite)| LCmd::Again { slot, form, rewrite }),
        3 => (any::<bool>(), 0u8..3).prop_map(|(xdg, depth)| LCmd::MkDir { xdg, depth }),
        4 => (any::<bool>(), ov(), ov(), 0u8..12).prop_map(|(xdg, a, b, style)| LCmd::PutReg { xdg, a, b, style }),
        4 => (any::<bool>(), any::<bool>(), 0u8..100).prop_map(|(xdg, b, v)| LCmd::PutRes { xdg, b, v }),
        3 => (any::<bool>(), 0u8..8).prop_map(|(xdg, v)| LCmd::PutGrid { xdg, v }),
        1 => any::<bool>().prop_map(|xdg| LCmd::DelReg { xdg }),
        1 => (any::<bool>(), any::<bool>()).prop_map(|(xdg, b)| LCmd::DelRes { xdg, b }),
        1 => any::<bool>().prop_map(|xdg| LCmd::RmTree { xdg }),
        1 => (0u8..2, 0u8..8, 0u8..100).prop_map(|(slot, target, v)| LCmd::RegRt { slot, target, v }),
        14 => (0u8..2, 0u8..10, 0u8..8).prop_map(|(slot, target, form)| LCmd::Look { slot, target, form }),
    ]
}

fn arb_late() -> impl Strategy<Value = LateCase> {
    (prop::bool::weighted(0.6), prop::collection::vec(arb_lcmd(), 4..=16)).prop_map(|(ctx_first, mut cmds)| {
        if ctx_first {
            cmds.insert(0, LCmd::NewCtx { slot: 0, with_new: true });
        }
        LateCase { cmds }
    })
}

/// The cases of the late-tree sections run one at a time (process-wide cwd); handing the lock from
/// thread to thread costs a scheduling delay on a loaded machine, so the random histories come in
/// batches (a failing batch shrinks to its one failing history).
const LATE_BATCH: usize = 8;
#[derive(Clone, Debug, Serialize, Deserialize)]
struct LateBatch {
    histories: Vec<LateCase>,
}
fn arb_late_batch() -> impl Strategy<Value = LateBatch> {
    prop::collection::vec(arb_late(), LATE_BATCH).prop_map(|histories| LateBatch { histories })
}
fn run_late_batch(b: &LateBatch, rec: &mut Rec) -> CaseResult {
    let _lock = LATE_LOCK.lock().unwrap_or_else(|e| e.into_inner());
    for h in &b.histories {
        run_late_locked(h, rec)?;
        rec.count("histories", 1);
    }
    Ok(())
}

fn helm_k(k: i64) -> Step {
    Step::Call { name: "helmert".into(), arg: Arg::Lit(k as i16), inv: false }
}

// =====================================================================================
// 7e. The SIZE of a register / resource file and the POSITION of the item in it
// =====================================================================================
//
// "Plain finds file based macros in resource files and registers exactly as documented" holds for a
// register of any size and for an item anywhere in it: the documentation (Rumination 009, doc comments
// of Plain) knows no limit on the size of a register, on the number of its items, on the length of a
// line, or on the amount of prose / other fenced blocks / comments around and inside an item.
//
// Generator dimension: the file is padded with filler so that a chosen byte of the wanted item (its
// first byte, a byte of its tag, of a number in its body, of a step separator, of its closing fence, the
// byte after it ...) is byte number `mark` of the file, for mark = 2^k, 2^k - 1, 2^k + 1 and for random
// marks; or the whole item lies before / after the mark. Filler: prose, other fenced geodesy items,
// one very long line, blank lines, code blocks and multi-byte prose, items with long comment lines;
// inside a definition: comment lines, one long comment line, blank lines, a long run of blanks,
// multi-byte comments, a long inline comment. LF and CR/LF. Plus registers with very many items.
//
// Oracle: what op(name) instantiates is exactly the body written into the file: behaviour (bitwise,
// both directions, reference context) of the literal body, and steps() / params() equal to those of a
// Minimal context in which the literal body has been registered at run time under the same name. An
// item that is not in the file is an error. A run-time registration takes precedence.
//
// The sections of this chapter run in a directory tree of their own (memory file system if there is
// one), entered before and left after them on the main thread; their cases run in parallel, every case
// with a file name of its own, removed as soon as the case is done.

static BIG_BASE: OnceLock<PathBuf> = OnceLock::new();
static BIG_COUNTER: AtomicU64 = AtomicU64::new(0);
static BIG_GATE: (std::sync::Mutex<usize>, std::sync::Condvar) = (std::sync::Mutex::new(0), std::sync::Condvar::new());
/// files larger than this are handled by at most `BIG_GATE_SLOTS` threads at a time (memory)
const BIG_GATE_BYTES: usize = 6 << 20;
const BIG_GATE_SLOTS: usize = 3;

struct GateGuard;
fn big_gate() -> GateGuard {
    let (m, cv) = &BIG_GATE;
    let mut n = m.lock().unwrap_or_else(|e| e.into_inner());
    while *n >= BIG_GATE_SLOTS {
        n = cv.wait(n).unwrap_or_else(|e| e.into_inner());
    }
    *n += 1;
    GateGuard
}
impl Drop for GateGuard {
    fn drop(&mut self) {
        let (m, cv) = &BIG_GATE;
        *m.lock().unwrap_or_else(|e| e.into_inner()) -= 1;
        cv.notify_one();
    }
}

fn enter_big_tree() {
    let base = late_root().join("big");
    let _ = std::fs::remove_dir_all(&base);
    for loc in ["w", "u"] {
        std::fs::create_dir_all(base.join(loc).join("geodesy").join("resources")).expect("size/position tree");
    }
    std::env::set_var("XDG_DATA_HOME", base.join("u"));
    std::env::set_current_dir(base.join("w")).expect("chdir into the size/position tree");
    let _ = BIG_BASE.set(base);
}
fn leave_big_tree() {
    std::env::set_var("XDG_DATA_HOME", world().root.join("u"));
    let _ = std::env::set_current_dir(world().root.join("w"));
    if let Some(b) = BIG_BASE.get() {
        let _ = std::fs::remove_dir_all(b);
    }
}
fn big_dir(xdg: bool) -> PathBuf {
    BIG_BASE.get().expect("size/position tree entered").join(if xdg { "u" } else { "w" }).join("geodesy").join("resources")
}

struct TmpFile(PathBuf);
impl Drop for TmpFile {
    fn drop(&mut self) {
        let _ = std::fs::remove_file(&self.0);
    }
}

/// an item as the model sees it: steps (primitive, inverted), pipeline?, the literal body (LF, trimmed)
#[derive(Clone, Debug)]
struct ItemModel {
    suffix: String,
    role: &'static str,
    steps: Vec<(Prim, bool)>,
    body: String,
    /// byte range of the item (tag .. end of terminator / body) in the file
    range: (usize, usize),
}
impl ItemModel {
    fn node(&self) -> Node {
        let leaf = |(p, i): &(Prim, bool)| Node::Leaf { prim: p.clone(), inverted: *i };
        if self.steps.len() == 1 && !self.body.contains('|') {
            leaf(&self.steps[0])
        } else {
            Node::Seq { items: self.steps.iter().map(leaf).collect(), inverted: false }
        }
    }
}

struct BuiltFile {
    file_name: String,
    text: String,
    items: Vec<ItemModel>,
    absent: Vec<String>,
    /// what the case is about, for messages
    what: String,
}

const REG_FILLERS: [&str; 6] = ["prose", "other-fenced-geodesy-items", "one-very-long-line", "blank-lines", "code-blocks+multi-byte-prose", "items-with-long-comment-lines"];
const DEF_FILLERS: [&str; 6] = ["comment-lines", "one-very-long-comment-line", "blank-lines", "one-long-line-of-blanks-and-tabs", "multi-byte-comment-lines", "one-very-long-inline-comment"];

/// Filler BETWEEN the items of a register: exactly `n` bytes, ending with a line end. Never contains
/// the tag of an item called `want`, `first`, `last`; `names` receives the fenced geodesy items it holds
fn reg_filler(style: u8, n: usize, nl: &str, counter: &mut u32, names: &mut Vec<(String, i64, String, usize)>, at: usize) -> String {
    let l = nl.len();
    assert!(n >= l + 2, "filler of {n} bytes");
    let mut t = String::with_capacity(n);
    let budget = n - l;
    let style = style % 6;
    let mut pad = 'x';
    let mut u = 0usize;
    loop {
        let unit: String = match style {
            0 => match u % 9 {
                0 => format!("## Section {u}{nl}{nl}"),
                8 => nl.to_string(),
                _ => format!("Lorem ipsum dolor sit amet, consectetur adipiscing elit, item {u}.{nl}"),
            },
            1 => {
                names.push((format!("f{}", *counter), *counter as i64, format!("helmert x={}", *counter), at + t.len()));
                format!("```geodesy:f{c}{nl}helmert x={c}{nl}```{nl}{nl}", c = *counter)
            }
            2 => "lorem ipsum ".to_string(),
            3 => {
                pad = ' ';
                nl.to_string()
            }
            4 => match u % 4 {
                0 => format!("Størrelsen på Ærø — ca. 88 km², se også geodesy:want og `geodesy:last`.{nl}{nl}"),
                1 => format!("```rust{nl}let geodesy = \"want\"; // not an item{nl}```{nl}{nl}"),
                2 => format!("```txt{nl}geodesy:want{nl}geodesy:first{nl}```{nl}{nl}"),
                _ => format!("> ελλειψοειδές: GRS80 ≠ «intl»{nl}{nl}"),
            },
            _ => {
                let comment = "long comment ".repeat(64 + (u % 3) * 40);
                names.push((format!("c{}", *counter), *counter as i64, format!("# {comment}\nhelmert x={}", *counter), at + t.len()));
                format!("```geodesy:c{c}{nl}# {comment}{nl}helmert x={c}{nl}```{nl}{nl}", c = *counter)
            }
        };
        if t.len() + unit.len() > budget {
            if style == 1 || style == 5 {
                names.pop();
            }
            break;
        }
        if style == 1 || style == 5 {
            *counter += 1;
        }
        t.push_str(&unit);
        u += 1;
    }
    while t.len() < budget {
        t.push(pad);
    }
    t.push_str(nl);
    assert_eq!(t.len(), n);
    t
}

/// Filler INSIDE a definition (comments, blank lines): exactly `n` bytes, ending with a line end.
/// Style 5 (inline comment) continues the line of the step in front of it.
fn def_filler(style: u8, n: usize, nl: &str) -> String {
    let l = nl.len();
    assert!(n >= l + 3, "filler of {n} bytes");
    let mut t = String::with_capacity(n);
    let budget = n - l;
    match style % 6 {
        0 | 4 => {
            let unit = if style % 6 == 0 { format!("# lorem ipsum dolor sit amet consectetur adipiscing elit{nl}") } else { format!("# Størrelsen på Ærø — ca. 88 km² (ελλειψοειδές){nl}") };
            // the last line is a comment of its own: keep room for its '#'
            while t.len() + unit.len() + 1 <= budget {
                t.push_str(&unit);
            }
            t.push('#');
            while t.len() < budget {
                t.push('x');
            }
        }
        1 => {
            t.push_str("# ");
            while t.len() < budget {
                t.push(if t.len() % 7 == 0 { ' ' } else { 'c' });
            }
        }
        2 => {
            while t.len() + l <= budget {
                t.push_str(nl);
            }
            while t.len() < budget {
                t.push(' ');
            }
        }
        3 => {
            while t.len() < budget {
                t.push(if t.len() % 8 == 5 { '\t' } else { ' ' });
            }
        }
        _ => {
            t.push_str(" # ");
            while t.len() < budget {
                t.push(if t.len() % 9 == 0 { ' ' } else { 'i' });
            }
        }
    }
    t.push_str(nl);
    assert_eq!(t.len(), n);
    t
}

#[derive(Clone, Debug, Serialize, Deserialize)]
struct SizeCase {
    /// 0: register, filler BETWEEN the items; 1: register, filler INSIDE the body of the wanted item;
    /// 2: stand-alone `.resource` file, filler inside the definition
    shape: u8,
    /// in the user data directory instead of ./geodesy
    xdg: bool,
    /// the byte offset (in the file) of the anchor byte
    mark: u64,
    /// which byte of the wanted item is the anchor: see ALIGN0 (shape 0) / ALIGN1 (shapes 1, 2)
    align: u8,
    filler: u8,
    crlf: bool,
    /// shape 0: 0 end of file after the item; 1 item unterminated at end of file; 2 filler (mark/2 bytes) and a
    /// terminated last item without final newline; 3 prose and an unterminated last item.
    /// shapes 1, 2: bit 0 filler between step 2 and step 3 too; bit 1 no final newline / item unterminated
    tail: u8,
    /// which body (0..4), bit 2: no final newline after an unterminated item
    body: u8,
}

const ALIGN0: [&str; 14] = [
    "item-wholly-before-mark",
    "item-ends-at-mark",
    "mark-at-line-end-of-closing-fence",
    "mark-inside-closing-fence",
    "mark-at-line-end-of-body",
    "mark-at-last-digit-of-last-number",
    "mark-at-last-step-separator",
    "mark-inside-first-number",
    "mark-at-first-byte-of-body",
    "mark-at-line-end-of-tag",
    "mark-inside-item-name-of-tag",
    "mark-inside-opening-fence",
    "item-starts-at-mark",
    "item-wholly-after-mark",
];
const ALIGN1: [&str; 8] = [
    "step-wholly-before-mark",
    "step-ends-at-mark",
    "mark-at-last-digit-of-step",
    "mark-inside-operator-name",
    "mark-after-step-separator",
    "step-starts-at-mark",
    "step-wholly-after-mark",
    "next-step-starts-at-mark",
];

fn mark_label(mark: u64) -> String {
    for d in [0i64, -1, 1] {
        let m = mark as i64 - d;
        if m > 0 && (m as u64).is_power_of_two() {
            return format!("2^{}{}", (m as u64).trailing_zeros(), ["", "+1", "-1"][if d == 0 { 0 } else if d == 1 { 1 } else { 2 }]);
        }
    }
    format!("between-2^{}-and-2^{}", 63 - mark.leading_zeros(), 64 - mark.leading_zeros())
}

fn size_bodies(b: u8, nl: &str) -> (String, Vec<(Prim, bool)>) {
    match b % 4 {
        0 => ("helmert x=4321 | addone | helmert x=8765".to_string(), vec![(Prim::Helm(4321), false), (Prim::Add1, false), (Prim::Helm(8765), false)]),
        1 => (format!("helmert x=4321{nl}| addone inv{nl}| helmert x=8765"), vec![(Prim::Helm(4321), false), (Prim::Add1, true), (Prim::Helm(8765), false)]),
        2 => ("addone | addone | addone".to_string(), vec![(Prim::Add1, false), (Prim::Add1, false), (Prim::Add1, false)]),
        _ => ("helmert x=97531".to_string(), vec![(Prim::Helm(97531), false)]),
    }
}

fn lf(s: &str) -> String {
    s.replace("\r\n", "\n").trim().to_string()
}

/// Shape 0: a register; the filler is between the items
fn build_register_between(c: &SizeCase, prefix: &str) -> Option<BuiltFile> {
    let nl = if c.crlf { "\r\n" } else { "\n" };
    let mark = c.mark as usize;
    let gap = (mark / 8).max(24);
    let align = c.align as usize % ALIGN0.len();
    let tail = c.tail % 4;
    let unterminated = tail == 1;
    let (body, steps) = size_bodies(c.body, nl);
    let tag = format!("```geodesy:want{nl}");
    let mut w = format!("{tag}{body}");
    let body_end = w.len();
    if !unterminated {
        w.push_str(nl);
        w.push_str("```");
        w.push_str(nl);
    } else if c.body & 4 == 0 {
        w.push_str(nl);
    }
    let in_body = |p: Option<usize>, fallback: usize| tag.len() + p.unwrap_or(fallback);
    let a: isize = match align {
        0 => (w.len() + gap) as isize,
        1 => w.len() as isize,
        2 => (w.len() - if unterminated { 0 } else { nl.len() }) as isize,
        3 => (body_end + nl.len() + 1).min(w.len()) as isize,
        4 => body_end as isize,
        5 => in_body(body.rfind(|ch: char| ch.is_ascii_digit()), body.len() - 2) as isize,
        6 => in_body(body.rfind('|'), body.len() / 2) as isize,
        7 => in_body(body.find(|ch: char| ch.is_ascii_digit()).map(|p| p + 2), 3) as isize,
        8 => tag.len() as isize,
        9 => (tag.len() - nl.len()) as isize,
        10 => 13,
        11 => 1,
        12 => 0,
        _ => -(gap as isize),
    };
    let head = format!(
        "# Register {prefix}{nl}{nl}Prose mentioning geodesy:want and `code`.{nl}{nl}```geodesy:first{nl}helmert x=11{nl}```{nl}{nl}```geodesy:wantx{nl}helmert x=12{nl}```{nl}{nl}```geodesy:xwant{nl}helmert x=13 | addone{nl}```{nl}{nl}"
    );
    let n1 = mark as isize - a - head.len() as isize;
    if n1 < 8 {
        return None;
    }
    let mut items = vec![];
    let mut counter = 100u32;
    let mut fenced: Vec<(String, i64, String, usize)> = vec![];
    let single = |sfx: &str, v: i64, role: &'static str, range: (usize, usize)| ItemModel { suffix: sfx.to_string(), role, steps: vec![(Prim::Helm(v), false)], body: format!("helmert x={v}"), range };
    items.push(single("first", 11, "first-item-of-the-file", (0, head.len())));
    let mut text = String::with_capacity(mark + mark / 2 + 4 * gap + 1024);
    text.push_str(&head);
    text.push_str(&reg_filler(c.filler, n1 as usize, nl, &mut counter, &mut fenced, head.len()));
    let w_start = text.len();
    assert_eq!(w_start as isize + a, mark as isize);
    text.push_str(&w);
    items.insert(0, ItemModel { suffix: "want".into(), role: "positioned-item", steps, body: lf(&body), range: (w_start, w_start + w.len()) });
    // the filler item right in front of the wanted one (it ends before the mark in all but the `after` alignment)
    if let Some((sfx, v, body, at)) = fenced.last().cloned() {
        items.push(ItemModel { suffix: sfx, role: "filler-item-in-front-of-the-positioned-one", steps: vec![(Prim::Helm(v), false)], body, range: (at, w_start) });
    }
    if !unterminated {
        let f2 = match tail {
            2 => (mark / 2).max(2 * gap),
            _ if align == 0 => 2 * gap,
            _ => 0,
        };
        if tail >= 2 || f2 > 0 {
            text.push_str(nl);
        }
        if f2 > 0 {
            let at = text.len();
            text.push_str(&reg_filler(c.filler.wrapping_add(1 + c.align), f2, nl, &mut counter, &mut fenced, at));
        }
        if tail == 2 {
            let at = text.len();
            text.push_str(&format!("## The last one{nl}{nl}```geodesy:last{nl}helmert x=99{nl}```"));
            items.push(single("last", 99, "last-item-fence-is-end-of-file", (at, text.len())));
        } else if tail == 3 {
            let at = text.len();
            text.push_str(&format!("Short prose.{nl}{nl}```geodesy:last{nl}helmert x=98 | addone{nl}"));
            items.push(ItemModel { suffix: "last".into(), role: "last-item-unterminated", steps: vec![(Prim::Helm(98), false), (Prim::Add1, false)], body: "helmert x=98 | addone".into(), range: (at, text.len()) });
        }
    }
    let mut absent = vec!["nosuch".to_string()];
    if text.len() < (64 << 10) {
        items.push(single("wantx", 12, "item-whose-name-extends-the-wanted-one", (0, head.len())));
        items.push(ItemModel { suffix: "xwant".into(), role: "item-whose-name-ends-with-the-wanted-one", steps: vec![(Prim::Helm(13), false), (Prim::Add1, false)], body: "helmert x=13 | addone".into(), range: (0, head.len()) });
        absent.push("wan".into());
        absent.push("ant".into());
        if !items.iter().any(|i| i.suffix == "last") {
            absent.push("last".into());
        }
    }
    let what = format!(
        "register {prefix}.md of {} bytes ({}, filler: {}), item `want` (body {:?}{}) at bytes {}..{}, placed so that byte {} of the file ({}) is: {}",
        text.len(), if c.crlf { "CR/LF" } else { "LF" }, REG_FILLERS[c.filler as usize % 6], lf(&body), if unterminated { ", unterminated, at end of file" } else { "" },
        w_start, w_start + w.len(), mark, mark_label(c.mark), ALIGN0[align]
    );
    Some(BuiltFile { file_name: format!("{prefix}.md"), text, items, absent, what })
}

/// Shapes 1 and 2: the filler is INSIDE the definition (between its steps): a stand-alone resource
/// file, or a register item with a very large body
fn build_filler_inside(c: &SizeCase, prefix: &str) -> Option<BuiltFile> {
    let nl = if c.crlf { "\r\n" } else { "\n" };
    let mark = c.mark as usize;
    let gap = (mark / 8).max(24);
    let align = c.align as usize % ALIGN1.len();
    let register = c.shape % 3 == 1;
    let style = c.filler % 6;
    let (s1, t2, t3, steps): (&str, &str, &str, Vec<(Prim, bool)>) = match c.body % 3 {
        0 => ("helmert x=13579", "| helmert x=24680", "| addone", vec![(Prim::Helm(13579), false), (Prim::Helm(24680), false), (Prim::Add1, false)]),
        1 => ("addone", "| addone", "| addone", vec![(Prim::Add1, false), (Prim::Add1, false), (Prim::Add1, false)]),
        _ => ("addone inv", "| helmert x=86420", "| helmert x=777 inv", vec![(Prim::Add1, true), (Prim::Helm(86420), false), (Prim::Helm(777), true)]),
    };
    let pre = if register {
        format!("# Register {prefix}{nl}{nl}```geodesy:first{nl}helmert x=11{nl}```{nl}{nl}An item with a very large body:{nl}{nl}```geodesy:want{nl}")
    } else {
        String::new()
    };
    let sep1 = if style == 5 { "" } else { nl };
    let a: isize = match align {
        0 => (t2.len() + gap) as isize,
        1 => t2.len() as isize,
        2 => t2.rfind(|ch: char| ch.is_ascii_digit()).unwrap_or(t2.len() - 2) as isize,
        3 => 5,
        4 => 1,
        5 => 0,
        6 => -(gap as isize),
        _ => (t2.len() + nl.len()) as isize,
    };
    let n1 = mark as isize - a - (pre.len() + s1.len() + sep1.len()) as isize;
    if n1 < 8 {
        return None;
    }
    let n2 = if align == 7 {
        0
    } else if align == 0 {
        2 * gap
    } else if c.tail & 1 == 1 {
        (mark / 2).max(16)
    } else {
        0
    };
    let mut text = String::with_capacity(mark + n2 + 1024);
    text.push_str(&pre);
    let d_start = text.len();
    text.push_str(s1);
    text.push_str(sep1);
    text.push_str(&def_filler(style, n1 as usize, nl));
    let t2_start = text.len();
    assert_eq!(t2_start as isize + a, mark as isize);
    text.push_str(t2);
    if n2 > 0 {
        let st2 = (style + 1 + c.align) % 6;
        text.push_str(if st2 == 5 { "" } else { nl });
        text.push_str(&def_filler(st2, n2, nl));
    } else {
        text.push_str(nl);
    }
    text.push_str(t3);
    let mut items = vec![];
    let body = format!("{s1} {t2} {t3}");
    if register {
        let open = c.tail & 2 != 0;
        if open {
            if c.body & 4 == 0 {
                text.push_str(nl);
            }
        } else {
            text.push_str(&format!("{nl}```{nl}"));
        }
        let end = text.len();
        items.push(ItemModel { suffix: "want".into(), role: "positioned-item", steps, body, range: (d_start, end) });
        items.push(ItemModel { suffix: "first".into(), role: "first-item-of-the-file", steps: vec![(Prim::Helm(11), false)], body: "helmert x=11".into(), range: (0, d_start) });
        if !open {
            let at = text.len();
            text.push_str(&format!("{nl}Short prose.{nl}{nl}```geodesy:last{nl}helmert x=99{nl}```{nl}"));
            items.push(ItemModel { suffix: "last".into(), role: "last-item-of-the-file", steps: vec![(Prim::Helm(99), false)], body: "helmert x=99".into(), range: (at, text.len()) });
        }
    } else {
        if c.tail & 2 == 0 {
            text.push_str(nl);
        }
        items.push(ItemModel { suffix: "want".into(), role: "positioned-item", steps, body, range: (0, text.len()) });
    }
    let what = format!(
        "{} of {} bytes ({}, filler inside the definition: {}), definition `{}` with step 2 at bytes {}..{}, placed so that byte {} of the file ({}) is: {}",
        if register { format!("register {prefix}.md with one very large item `want` (bytes {d_start}..)") } else { format!("stand-alone file {prefix}_want.resource") },
        text.len(), if c.crlf { "CR/LF" } else { "LF" }, DEF_FILLERS[style as usize], items[0].body, t2_start, t2_start + t2.len(), mark, mark_label(c.mark), ALIGN1[align]
    );
    let file_name = if register { format!("{prefix}.md") } else { format!("{prefix}_want.resource") };
    Some(BuiltFile { file_name, text, items, absent: vec!["nosuch".to_string()], what })
}

fn excerpt(s: &str) -> String {
    if s.len() <= 160 {
        return format!("{s:?}");
    }
    let head: String = s.chars().take(70).collect();
    let tail: String = s.chars().rev().take(70).collect::<Vec<_>>().into_iter().rev().collect();
    format!("{head:?} ... ({} bytes) ... {tail:?}", s.len())
}

/// The oracle of this chapter: every item of `b` is found and is exactly what was written; absent ones are errors
fn check_built_file(b: &BuiltFile, prefix: &str, xdg: bool, shape_label: &str, mark: Option<usize>, rec: &mut Rec) -> CaseResult {
    let _gate = if b.text.len() > BIG_GATE_BYTES { Some(big_gate()) } else { None };
    let path = big_dir(xdg).join(&b.file_name);
    std::fs::write(&path, b.text.as_bytes()).unwrap_or_else(|e| panic!("size/position tree: cannot write {path:?}: {e}"));
    let _file = TmpFile(path);
    rec.count("bytes_written", b.text.len() as u64);
    rec.metric("largest_file_bytes", b.text.len() as f64);
    let pr = probes();
    let pr = &pr[..3];
    let mut ctx = AnyCtx::make(true, true);
    let place = if xdg { "$XDG_DATA_HOME/geodesy/resources" } else { "./geodesy/resources" };
    for item in &b.items {
        let name = format!("{prefix}:{}", item.suffix);
        let relation = match mark {
            Some(m) if item.range.1 <= m => "item-before-mark",
            Some(m) if item.range.0 >= m => "item-at-or-after-mark",
            Some(_) => "item-straddling-mark",
            None => "item-of-many",
        };
        let r = guard(|| ctx.op(&name)).map_err(|p| Failure { key: format!("panic-op@{}", p.sig()), msg: format!("op({name:?}) panics: {} at {}:{}; {}", p.msg, p.file, p.line, b.what) })?;
        let got = || match &ctx {
            AnyCtx::Pla(p) => p.get_resource(&name).map(|t| excerpt(&t)).unwrap_or_else(|e| format!("{e:?}")),
            _ => String::new(),
        };
        let h = match r {
            Ok(h) => h,
            Err(e) => vfail!(
                format!("file-item-not-found/{shape_label}/{relation}"),
                "Plain: op({name:?}) fails with {e:?} although the item ({}, bytes {}..{} of the file, body {:?}) IS in {place}/{}; {}",
                item.role, item.range.0, item.range.1, item.body, b.file_name, b.what
            ),
        };
        let node = item.node();
        let lib = singletons(&ctx, h, true, pr)?;
        let libi = singletons(&ctx, h, false, pr)?;
        let (mf, _) = model_singletons(&node, true, pr);
        let (mi, _) = model_singletons(&node, false, pr);
        if lib != mf || libi != mi {
            vfail!(
                format!("file-item-mismatch/{shape_label}/{relation}"),
                "Plain: op({name:?}) gives Fwd {} / Inv {}, but the item written into {place}/{} ({}, bytes {}..{}) is {:?} = {} -> Fwd {} / Inv {}; get_resource returns {}; {}",
                show_outs(&lib), show_outs(&libi), b.file_name, item.role, item.range.0, item.range.1, item.body, node.describe(), show_outs(&mf), show_outs(&mi), got(), b.what
            );
        }
        // steps and parameters: those of the literal body, registered at run time under the same name
        let mut lit = AnyCtx::make(false, true);
        lit.register_resource(&name, &item.body);
        let hl = lit.op(&name).unwrap_or_else(|e| panic!("the literal body {:?} does not instantiate on Minimal: {e:?}", item.body));
        // (the error texts for a step index out of range name the context type: not compared)
        let blank = |v: (Result<Vec<String>, String>, Vec<Result<u64, String>>)| (v.0, v.1.into_iter().map(|r| r.map_err(|_| String::new())).collect::<Vec<_>>());
        let (ls, lp) = blank(static_part(&lit, hl)?);
        let (fs, fp) = blank(static_part(&ctx, h)?);
        if ls != fs || lp != fp {
            vfail!(
                format!("file-item-steps-mismatch/{shape_label}/{relation}"),
                "Plain: op({name:?}) behaves as the item written into {place}/{} ({}, {:?}) but reports steps {:?} (parameter digests {:?}); the literal body registered at run time reports {:?} ({:?}); get_resource returns {}; {}",
                b.file_name, item.role, item.body, fs, fp, ls, lp, got(), b.what
            );
        }
        rec.class(&format!("found:{}/{relation}", item.role));
        rec.count("items_found_and_compared", 1);
    }
    for sfx in &b.absent {
        let name = format!("{prefix}:{sfx}");
        let r = guard(|| ctx.op(&name)).map_err(|p| Failure { key: format!("panic-op@{}", p.sig()), msg: format!("op({name:?}) panics: {} at {}:{}; {}", p.msg, p.file, p.line, b.what) })?;
        if let Ok(h) = r {
            let lib = singletons(&ctx, h, true, &pr[..1])?;
            vfail!(
                format!("absent-file-item-found/{shape_label}"),
                "Plain: op({name:?}) succeeds (Fwd {}; steps {:?}) although {place}/{} holds no item of that name; {}",
                show_outs(&lib), ctx.steps(h), b.file_name, b.what
            );
        }
        rec.count("absent_items_refused", 1);
    }
    // a run-time registration takes precedence over the file, for later instantiations
    let name = format!("{prefix}:{}", b.items[0].suffix);
    ctx.register_resource(&name, "helmert x=31");
    let h = match guard(|| ctx.op(&name)) {
        Ok(Ok(h)) => h,
        other => vfail!("runtime-registration-not-preferred-to-file", "Plain: register_resource({name:?}, \"helmert x=31\"); op({name:?}) gives {:?}; {}", other.map(|r| r.map(|_| ())).map_err(|p| p.msg), b.what),
    };
    let node = Node::Leaf { prim: Prim::Helm(31), inverted: false };
    let lib = singletons(&ctx, h, true, pr)?;
    let (m, _) = model_singletons(&node, true, pr);
    if lib != m {
        vfail!("runtime-registration-not-preferred-to-file", "Plain: register_resource({name:?}, \"helmert x=31\"); op({name:?}) gives {} instead of {}; {}", show_outs(&lib), show_outs(&m), b.what);
    }
    Ok(())
}

const SHAPES: [&str; 3] = ["register", "register-item-with-large-body", "stand-alone-file"];

fn check_size_case(c: &SizeCase, rec: &mut Rec) -> CaseResult {
    let prefix = format!("z{}", BIG_COUNTER.fetch_add(1, Ordering::Relaxed));
    let shape = c.shape as usize % 3;
    let built = if shape == 0 { build_register_between(c, &prefix) } else { build_filler_inside(c, &prefix) };
    let Some(b) = built else {
        rec.count("skipped_mark_too_small_for_this_layout", 1);
        return Ok(());
    };
    let (align, filler) = if shape == 0 { (ALIGN0[c.align as usize % ALIGN0.len()], REG_FILLERS[c.filler as usize % 6]) } else { (ALIGN1[c.align as usize % ALIGN1.len()], DEF_FILLERS[c.filler as usize % 6]) };
    rec.class(&format!("shape:{}/{}", SHAPES[shape], if c.xdg { "user-dir" } else { "cwd" }));
    rec.class(&format!("mark:{}", mark_label(c.mark)));
    rec.class(&format!("align:{}/{align}", SHAPES[shape]));
    rec.class(&format!("filler:{}/{filler}", SHAPES[shape]));
    rec.class(if c.crlf { "eol:CR/LF" } else { "eol:LF" });
    rec.class(&format!("tail:{}/{}", SHAPES[shape], c.tail % 4));
    rec.class(&format!("file-size:<2^{}", usize::BITS - b.text.len().leading_zeros()));
    check_built_file(&b, &prefix, c.xdg, SHAPES[shape], Some(c.mark as usize), rec)?;
    if b.text.len() > c.mark as usize {
        rec.nontrivial(&(c.shape % 3, c.mark, c.align, c.filler % 6, c.crlf, c.tail % 4));
    }
    Ok(())
}

/// The enumerated marks 2^k - 1, 2^k, 2^k + 1: small files fully crossed, large files with the other
/// dimensions rotating (few large files)
fn size_cases(thorough: bool) -> Vec<SizeCase> {
    let mut out = vec![];
    let kmax: u32 = if thorough { 26 } else { 22 };
    let full_to: u32 = if thorough { 14 } else { 12 }; // everything crossed
    let mid_to: u32 = if thorough { 20 } else { 18 }; // filler crossed, the rest rotating
    let mut rot = 0u32;
    for shape in 0..3u8 {
        let na = if shape == 0 { ALIGN0.len() } else { ALIGN1.len() } as u8;
        for k in 9..=kmax {
            for delta in [-1i64, 0, 1] {
                let mark = ((1i64 << k) + delta) as u64;
                for align in 0..na {
                    // the largest files: the decisive alignments only
                    if k > 22 && shape == 0 && ![0u8, 1, 5, 6, 10, 12, 13].contains(&align) {
                        continue;
                    }
                    if k > 22 && shape != 0 && ![0u8, 1, 2, 5, 6].contains(&align) {
                        continue;
                    }
                    if k > 24 && delta != 0 && shape != 0 {
                        continue;
                    }
                    if k <= full_to {
                        for filler in 0..6u8 {
                            for crlf in [false, true] {
                                for tail in 0..4u8 {
                                    rot += 1;
                                    out.push(SizeCase { shape, xdg: rot % 2 == 1, mark, align, filler, crlf, tail, body: (rot % 8) as u8 });
                                }
                            }
                        }
                    } else if k <= mid_to {
                        for filler in 0..6u8 {
                            rot += 1;
                            out.push(SizeCase { shape, xdg: rot % 2 == 1, mark, align, filler, crlf: (rot / 2) % 2 == 1, tail: ((rot / 4) % 4) as u8, body: (rot % 8) as u8 });
                        }
                    } else {
                        rot += 1;
                        out.push(SizeCase { shape, xdg: rot % 2 == 1, mark, align, filler: (rot % 6) as u8, crlf: (rot / 2) % 2 == 1, tail: ((rot / 4) % 4) as u8, body: (rot % 8) as u8 });
                    }
                }
            }
        }
    }
    out
}

/// Random marks: m * 2^j / 8 + d for m in 8..16 (so also odd multiples of smaller powers of two), or anything
fn arb_size_case(jmax: u32) -> impl Strategy<Value = SizeCase> {
    let mark = prop_oneof![
        3 => (9u32..=jmax, 8u64..16, -2i64..=2).prop_map(|(j, m, d)| (((m << j) >> 3) as i64 + d) as u64),
        1 => (9u32..=jmax, 0u64..(1 << 20)).prop_map(|(j, r)| (1u64 << j) + r % (1u64 << j)),
    ];
    (0u8..3, any::<bool>(), mark, 0u8..14, 0u8..6, any::<bool>(), 0u8..4, 0u8..8).prop_map(|(shape, xdg, mark, align, filler, crlf, tail, body)| SizeCase { shape, xdg, mark, align, filler, crlf, tail, body })
}

// ---- registers with very many items --------------------------------------------------

#[derive(Clone, Debug, Serialize, Deserialize)]
struct ManyCase {
    n: u32,
    crlf: bool,
    /// 0: items back to back; 1: a blank line between them; 2: a heading and prose between them
    spacing: u8,
    ending: u8,
    xdg: bool,
}

fn check_many(c: &ManyCase, rec: &mut Rec) -> CaseResult {
    let prefix = format!("z{}", BIG_COUNTER.fetch_add(1, Ordering::Relaxed));
    let nl = if c.crlf { "\r\n" } else { "\n" };
    let n = c.n.max(2) as usize;
    let body_of = |j: usize| if j % 5 == 0 { (format!("helmert x={j} | addone"), vec![(Prim::Helm(j as i64), false), (Prim::Add1, false)]) } else { (format!("helmert x={j}"), vec![(Prim::Helm(j as i64), false)]) };
    let mut text = String::with_capacity(n * 64);
    text.push_str(&format!("# Register {prefix}: {n} items{nl}{nl}"));
    let mut ranges: Vec<(usize, usize)> = Vec::with_capacity(n + 1);
    ranges.push((0, 0));
    for j in 1..=n {
        match c.spacing % 3 {
            0 => {}
            1 => text.push_str(nl),
            _ => text.push_str(&format!("{nl}## Item {j}{nl}{nl}Adds {j}, see geodesy:i{}.{nl}{nl}", j + 1)),
        }
        let at = text.len();
        text.push_str(&format!("```geodesy:i{j}{nl}{}", body_of(j).0));
        if j < n {
            text.push_str(&format!("{nl}```{nl}"));
        } else {
            match c.ending % 4 {
                0 => text.push_str(&format!("{nl}```{nl}")),
                1 => text.push_str(&format!("{nl}```")),
                2 => text.push_str(nl),
                _ => {}
            }
        }
        ranges.push((at, text.len()));
    }
    // which items: all of a small register; else the decimal and binary neighbourhoods (names that are
    // prefixes / extensions of each other), both ends, and a deterministic scatter
    let mut pick: BTreeSet<usize> = BTreeSet::new();
    if n <= 2000 {
        pick.extend(1..=n);
    } else {
        let budget = if n <= 20_000 { 320 } else if n <= 100_000 { 72 } else { 28 };
        let mut p = 1usize;
        while p <= n {
            pick.extend([p.saturating_sub(1).max(1), p, (p + 1).min(n)]);
            p *= 10;
        }
        pick.extend([1, 2, n / 3, n / 2, n - 1, n]);
        let mut p = 1usize;
        while p <= n && pick.len() < budget / 2 {
            pick.extend([p.saturating_sub(1).max(1), p, (p + 1).min(n)]);
            p *= 2;
        }
        let mut s = 0u64;
        while pick.len() < budget {
            s += 1;
            pick.insert(1 + (mix64(s ^ (n as u64) << 20) % n as u64) as usize);
        }
    }
    let items: Vec<ItemModel> = pick
        .iter()
        .map(|&j| {
            let (body, steps) = body_of(j);
            ItemModel { suffix: format!("i{j}"), role: if j == n { "last-of-many-items" } else if j == 1 { "first-of-many-items" } else { "one-of-many-items" }, steps, body, range: ranges[j] }
        })
        .collect();
    let absent = vec!["i0".to_string(), format!("i{}", n + 1), "i".to_string(), "i01".to_string(), format!("i{}x", n / 2), format!("{}", n / 2)];
    let what = format!(
        "register {prefix}.md of {} bytes with {n} items i1..i{n} ({}, {}, last item {})",
        text.len(), if c.crlf { "CR/LF" } else { "LF" }, ["back to back", "separated by a blank line", "separated by a heading and prose"][c.spacing as usize % 3],
        ["terminated + newline", "terminated, fence is end of file", "unterminated + newline", "unterminated, no newline"][c.ending as usize % 4]
    );
    rec.class(&format!("many-items:n={n}/{}", if c.crlf { "CR/LF" } else { "LF" }));
    rec.class(&format!("many-items:spacing={}", c.spacing % 3));
    rec.count("items_in_registers", n as u64);
    let b = BuiltFile { file_name: format!("{prefix}.md"), text, items, absent, what };
    check_built_file(&b, &prefix, c.xdg, "register-with-many-items", None, rec)?;
    rec.nontrivial(&(c.n, c.crlf, c.spacing % 3, c.ending % 4, c.xdg));
    Ok(())
}

fn many_cases(thorough: bool) -> Vec<ManyCase> {
    let ns: &[u32] = if thorough { &[300, 1_000, 2_000, 10_000, 30_000, 100_000, 300_000, 1_000_000] } else { &[300, 2_000, 10_000, 100_000] };
    let mut out = vec![];
    let mut rot = 0u8;
    for &n in ns {
        for crlf in [false, true] {
            for spacing in 0..3u8 {
                rot = rot.wrapping_add(1);
                out.push(ManyCase { n, crlf, spacing, ending: rot % 4, xdg: rot % 2 == 0 });
            }
        }
    }
    out
}

// ---- what stands immediately BEFORE and AFTER the fences of an item ---------------------

/// what precedes the opening fence of the wanted item when it is the FIRST item of the file (from byte 0)
const BEFORE_FIRST: [&str; 9] = [
    "opening-fence-at-byte-0-of-the-file", "only-a-single-LF-before", "only-a-single-CRLF-before", "only-a-single-CR-before", "heading-and-blank-line-before",
    "only-a-BOM-before(unspecified)", "only-a-space-before(unspecified)", "only-a-tab-before(unspecified)", "prose-without-line-end-before(unspecified)",
];
/// what stands between the closing fence of the previous item and the opening fence of the wanted one
const BEFORE_LATER: [&str; 9] = [
    "closing-fence-of-previous-item-on-the-line-before", "previous-closing-fence+one-blank-line-LF", "previous-closing-fence+one-blank-line-CRLF", "previous-closing-fence+one-blank-line-CR", "prose-line-directly-before",
    "BOM-at-line-start-before(unspecified)", "space-at-line-start-before(unspecified)", "tab-at-line-start-before(unspecified)", "prose-without-line-end-before(unspecified)",
];
const AFTER_FENCE: [&str; 5] = ["closing-fence-then-EOF-or-next-opening-fence-directly", "closing-fence+LF", "closing-fence+CRLF", "closing-fence+blank-line", "unterminated-at-EOF-or-prose-then-next-item"];
const FENCE_POS: [&str; 3] = ["first-item", "middle-item", "last-item"];

#[derive(Clone, Debug, Serialize, Deserialize)]
struct FenceCase {
    pos: u8,
    before: u8,
    after: u8,
    xdg: bool,
    crlf: bool,
    body: u8,
}

fn check_fence_case(c: &FenceCase, rec: &mut Rec) -> CaseResult {
    let prefix = format!("z{}", BIG_COUNTER.fetch_add(1, Ordering::Relaxed));
    let nl = if c.crlf { "\r\n" } else { "\n" };
    let (p, before, after) = (c.pos as usize % 3, c.before as usize % 9, c.after as usize % 5);
    let lenient = before >= 5;
    let sfx = ["one", "two", "three"];
    let (wbody, wsteps) = size_bodies(c.body, nl);
    let others: [(&str, Vec<(Prim, bool)>); 3] = [("helmert x=11", vec![(Prim::Helm(11), false)]), ("helmert x=12 | addone", vec![(Prim::Helm(12), false), (Prim::Add1, false)]), ("helmert x=13", vec![(Prim::Helm(13), false)])];
    let mut text = String::new();
    let mut items = vec![];
    for k in 0..3usize {
        // what precedes the opening fence
        if k == p {
            if k == 0 {
                text.push_str(&["".to_string(), "\n".into(), "\r\n".into(), "\r".into(), format!("# Register {prefix}{nl}{nl}"), "\u{feff}".into(), " ".into(), "\t".into(), "See ".into()][before]);
            } else {
                // (the previous item ended with "```" and no line end)
                text.push_str(nl);
                text.push_str(&["".to_string(), "\n".into(), "\r\n".into(), "\r".into(), format!("Prose line about the next item.{nl}"), "\u{feff}".into(), " ".into(), "\t".into(), "See ".into()][before]);
            }
        } else if k == 0 {
            text.push_str(&format!("# Register {prefix}{nl}{nl}"));
        } else if k - 1 != p {
            text.push_str(nl);
            text.push_str(nl);
        }
        let at = text.len();
        if k == p {
            text.push_str(&format!("```geodesy:{}{nl}{wbody}", sfx[k]));
            let last = k == 2;
            match after {
                0 => text.push_str(&format!("{nl}```{}", if last { "" } else { nl })),
                1 => text.push_str(&format!("{nl}```\n")),
                2 => text.push_str(&format!("{nl}```\r\n")),
                3 => text.push_str(&format!("{nl}```{nl}{nl}")),
                _ if last => {}
                _ => text.push_str(&format!("{nl}```{nl}Prose about the next one, not ending in a line end before the blank line.{nl}{nl}")),
            }
            items.insert(0, ItemModel { suffix: sfx[k].into(), role: if k == 0 { BEFORE_FIRST[before] } else { BEFORE_LATER[before] }, steps: wsteps.clone(), body: lf(&wbody), range: (at, text.len()) });
        } else {
            text.push_str(&format!("```geodesy:{}{nl}{}{nl}```", sfx[k], others[k].0));
            if k + 1 != p {
                text.push_str(nl);
            }
            items.push(ItemModel { suffix: sfx[k].into(), role: "neighbour-of-the-item-with-the-special-neighbourhood", steps: others[k].1.clone(), body: others[k].0.into(), range: (at, text.len()) });
        }
    }
    let what = format!(
        "register {prefix}.md ({}), the whole file is {:?}; item `{}` is the {} of 3, before its opening fence: {}, after it: {}",
        if c.crlf { "CR/LF" } else { "LF" }, text, sfx[p], FENCE_POS[p], if p == 0 { BEFORE_FIRST[before] } else { BEFORE_LATER[before] }, AFTER_FENCE[after]
    );
    rec.class(&format!("fence-before:{}/{}", FENCE_POS[p], if p == 0 { BEFORE_FIRST[before] } else { BEFORE_LATER[before] }));
    rec.class(&format!("fence-after:{}/{}", FENCE_POS[p], AFTER_FENCE[after]));
    rec.class(&format!("fence-neighbourhood:{}/{}", if c.xdg { "user-dir" } else { "cwd" }, if c.crlf { "CR/LF" } else { "LF" }));
    if lenient {
        // Something other than a line end directly in front of the fence: not documented either way. The
        // item may be found or not; if it is found it must be the literal body (checked below)
        let path = big_dir(c.xdg).join(format!("{prefix}.md"));
        std::fs::write(&path, text.as_bytes()).unwrap_or_else(|e| panic!("size/position tree: cannot write {path:?}: {e}"));
        let _file = TmpFile(path);
        let mut ctx = AnyCtx::make(true, true);
        let name = format!("{prefix}:{}", sfx[p]);
        let r = guard(|| ctx.op(&name)).map_err(|pn| Failure { key: format!("panic-op@{}", pn.sig()), msg: format!("op({name:?}) panics: {} at {}:{}; {what}", pn.msg, pn.file, pn.line) })?;
        if r.is_err() {
            items.remove(0);
            rec.count("unspecified_neighbourhood_item_not_found", 1);
        } else {
            rec.count("unspecified_neighbourhood_item_found", 1);
        }
    }
    let absent = vec!["nosuch".to_string(), "on".into(), "tw".into(), "thre".into(), "onex".into(), "hree".into()];
    let b = BuiltFile { file_name: format!("{prefix}.md"), text, items, absent, what };
    check_built_file(&b, &prefix, c.xdg, "fence-neighbourhood", None, rec)?;
    if !lenient {
        rec.nontrivial(&(p, before, after, c.xdg, c.crlf));
    }
    Ok(())
}

fn fence_cases() -> Vec<FenceCase> {
    let mut out = vec![];
    let mut rot = 0u8;
    for pos in 0..3u8 {
        for before in 0..9u8 {
            for after in 0..5u8 {
                for xdg in [false, true] {
                    for crlf in [false, true] {
                        rot = rot.wrapping_add(1);
                        out.push(FenceCase { pos, before, after, xdg, crlf, body: rot % 8 });
                    }
                }
            }
        }
    }
    out
}

// =====================================================================================
// 8. main
// =====================================================================================

fn main() {
    let mut run = Run::init("C18");
    // after init (a relative --replay path has been read); before any work is scheduled
    setup_world();
    run.assume("a user operator registered under a name containing ':' is unspecified (documentation: names with ':' are macros); generated, must not panic, outcome not compared");
    run.assume("search order between ./geodesy and the user data directory, and between a stand-alone .resource file and a register item of the same name, is not documented: either candidate is accepted");
    run.assume("an instantiated grid operator owns its grid (doc comment of Plain::clear_grids): removing the file of a history-private grid and clearing the cache must not change it; instantiating it afterwards may succeed (cached) or fail");
    run.assume("grid files are immutable per name: a written private grid gets a fresh file name, or the name an earlier instantiation asked for in vain (no file of that name ever existed before)");
    run.assume("grid lookup happens at instantiation time (Plain::get_grid: cache of LOADED grids, then the data path): a name not found earlier is found once its file exists; an absent @optional grid is skipped, the operator then behaves as a gridshift without grids does in a pristine reference context");
    run.assume("'$' forwarding on macro invocations, prefix 'inv', omit_fwd/omit_inv are left to C03/C04 and not generated; caller arguments are visible to every step of a macro body (documented), step-local values win");
    run.assume("inverse application of a definition containing a non-invertible user operator is unspecified and only checked for stability");
    run.assume("thread schedules are sampled by the OS, not enumerated");
    run.assume("a user constructor's refusal is handed back unchanged (same Error variant and payload, compared by Debug text) at top level, from a pipeline step and from a macro body: the library propagates construction errors with `?` and documents no wrapping");
    run.assume("registers and stand-alone resource files are read at every look-up (no documented caching; confirmed on the unchanged tree): a rewritten file is seen by the next look-up of every context, a removed one is gone; the search path elements ./geodesy and <data_local_dir>/geodesy need not exist when the context is created");
    run.assume("the documentation (Rumination 009, doc comments of Plain) states no limit on the size of a register or resource file, the number of items, the length of a line, the size of an item or the amount of prose, other fenced blocks and comments around and inside it: an item is found and is exactly the written body wherever it lies in a file of up to 6 MiB (quick) / 128 MiB (thorough); the filler never contains the tag line of the wanted item, three backticks inside a body, or the characters | < > and the word 'proj' inside a comment (tokenizer matters of C03/C16)");
    run.assume("a register item's opening fence starts a line: at byte 0 of the file, after a single LF / CRLF / CR, or on the line after the previous item's closing fence (Rumination 009 shows fenced blocks only; no heading or blank line is required before them) it must be found; a fence with a BOM, a space, a tab or prose without a line end directly in front of it is not documented either way (found or not; if found, exactly the written body)");
    run.assume("per-tuple references: a tuple applied together with others (any order) must come out as when applied alone; all generated definitions are free of stack operators, so this is implied by the property (behaviour independent of anything applied before)");

    let items = file_item_cases();
    let n_items = items.len();
    run.enumerate(
        "file-items",
        "every item of the generated resource tree x 5 fixed histories, plus 6 fixed histories on the nested NTv2 grid files (shipped 5458_with_subgrid.gsb, generated root + 2 children + grandchild) with handles in three Plain contexts; items: (several fenced items per register, prefix-named items, item at end of file, CR/LF, lone CR, missing terminator, stand-alone files, user data directory, both directories, comments) x 5 fixed histories: direct, Plain::default + inv, inside a pipeline, on Minimal, run-time registration after instantiation + cache clear + burst",
        n_items,
        move |i| items[i].clone(),
        run_history,
    );

    // every built-in name x {Minimal, Plain} x {stand-alone, pipeline step, macro body}
    let names: Vec<String> = geodesy::verif_hooks::builtin_operator_names().iter().map(|s| s.to_string()).collect();
    let uncovered: Vec<&String> = names.iter().filter(|n| !BUILTIN_TABLE.iter().any(|t| t.0 == n.as_str())).collect();
    run.note("builtin_names", serde_json::json!(names.len()));
    run.note("builtin_names_without_parameter_table_entry", serde_json::json!(uncovered));
    let nn = names.len();
    run.enumerate(
        "builtin-names",
        "EVERY name of verif_hooks::builtin_operator_names() x {Minimal, Plain} x {stand-alone definition, step of a pipeline, body of a macro}, minimal valid parameters per operator: with no user registration the NAME must be found (any error other than NotFound(name) is a constructor matter and only counted), params().name is that name, noop aliases leave data alone and count every tuple, other operators behave as in a pristine reference context; after register_op(name) later instantiations get the user operator (bitwise, both directions), the earlier handle is unchanged, a fresh context is unaffected",
        nn * 6,
        move |i| BuiltinCase { name: names[i % nn].clone(), plain: (i / nn) % 2 == 1, form: (i / (2 * nn)) as u8 },
        check_builtin,
    );

    // every built-in name x user constructors of every outcome x parameter texts x forms x {Minimal, Plain}
    let names: Vec<String> = geodesy::verif_hooks::builtin_operator_names().iter().map(|s| s.to_string()).collect();
    let nn = names.len();
    run.enumerate(
        "user-constructor-outcomes",
        "EVERY name of verif_hooks::builtin_operator_names() x 34 user constructors registered under that name (accepting; `by` required, so that the library's own parameter parser refuses with MissingParam / BadParam; refusing ALWAYS with each of the 16 public Error variants - MissingParam, BadParam, General, Syntax, NotFound(own name / other), Unsupported, Invalid, Operator, Unknown, NonInvertible, Recursion, InvalidHeader, Unexpected, Io, Utf8Error; refusing with each variant UNLESS the step text gives `by`) x 5 parameter texts (the built-in's own valid parameters - the built-in would accept; none - many built-ins refuse; valid + by=7; valid + by=abc; valid + inv) x {stand-alone, pipeline step, macro body, step of a pipeline that is the body of a macro invoked as a pipeline step} x {Minimal, Plain}. The user constructor logs what it returned for which step text; oracle: the constructor IS called (documented order), op() returns Err exactly when it refused and then with exactly its error (Debug text), Ok exactly when it accepted and then with the user's behaviour (bitwise, both directions, model of the whole pipeline); the same for a second instantiation; after a further register_op under that name (accepting after refusing and vice versa) the constructor registered last decides. Whether the built-in of that name accepts the same text (fresh context) only labels the class",
        nn * OUTCOME_KINDS * OUTCOME_TEXTS * OUTCOME_FORMS * 2,
        move |i| {
            let (a, r) = (i % nn, i / nn);
            let (k, r) = (r % OUTCOME_KINDS, r / OUTCOME_KINDS);
            let (t, r) = (r % OUTCOME_TEXTS, r / OUTCOME_TEXTS);
            let (f, r) = (r % OUTCOME_FORMS, r / OUTCOME_FORMS);
            OutcomeCase { name: names[a].clone(), kind: k as u8, text: t as u8, form: f as u8, plain: r % 2 == 1 }
        },
        check_outcome,
    );

    // unknown names derived from every file item
    let item_names: Vec<String> = world().items.keys().cloned().collect();
    let ni = item_names.len();
    run.enumerate(
        "derived-unknown-names",
        "EVERY item of the generated resource tree (all register layouts) x 6 derivations (item:x, x:item, prefix:x:suffix, prefix::suffix, item:suffix, trailing colon) x {Minimal, Plain} x {stand-alone, pipeline step, macro body: must be an error; registered at run time under exactly that name: must be found}; the trailing colon form is executed but not compared (the tokenizer strips ':' from the ends of a definition)",
        ni * 6 * 2 * 4,
        move |i| DerivedCase { item: item_names[i % ni].clone(), derivation: ((i / ni) % 6) as u8, plain: (i / (6 * ni)) % 2 == 1, form: (i / (12 * ni)) as u8 },
        check_derived,
    );

    // WHEN the tree and the files come into existence, relative to context creation and earlier look-ups
    let lates = late_orderings();
    let n_late = lates.len();
    run.enumerate(
        "late-tree-orderings",
        "a directory tree of its own per case (cwd and XDG_DATA_HOME switched under a lock): {register item a, item b, stand-alone file a, b, grid} x {./geodesy, $XDG_DATA_HOME/geodesy} x {Plain::new, Plain::default} x 10 canonical orderings of context creation / directory creation (geodesy/, then resources/ or geoid/, created empty) / file creation / replacement / removal / look-up: context before the whole tree; look-ups in vain while the tree grows level by level; context after geodesy/ but before the sub-directory; after the empty sub-directory but before the file; tree before context; file replaced between two look-ups plus a younger context; file removed and written again; run-time registration before the file appears (precedence) plus a second context; tree removed and rebuilt; the other search location present at context creation, this one not. Oracle: a look-up finds exactly what the file system holds AT THE TIME OF THE LOOK-UP (bitwise behaviour of the distinguishable constant of that file version, both directions), an absent item is an error, every earlier handle is unchanged after every command; grids are cached by name once loaded (documented), so a grid name keeps its content and a removed grid may or may not be found",
        n_late,
        move |i| lates[i].clone(),
        run_late,
    );
    let n = run.scale(1_000, 12_000) / LATE_BATCH;
    run.section(
        "late-tree-histories",
        "batches of 8 random histories (4..=17 commands) over the same alphabet: new Plain context (2 slots), mkdir of an empty level, write / rewrite / remove register (items a, b present or not; LF, CR/LF, lone CR; terminated or not), stand-alone resource file, grid, remove the whole tree, run-time registration, look-up (stand-alone, pipeline step, through a run-time macro, inverted) in both search locations; oracle as in late-tree-orderings; non-trivial = a file found by a context that was created before the file (or its directory, or the whole tree) existed, or after the file was rewritten",
        n,
        arb_late_batch,
        run_late_batch,
    );

    // the SIZE of the file and the POSITION of the item in it (a tree of their own, in memory if possible)
    enter_big_tree();
    let sizes = size_cases(run.is_thorough());
    let n_sizes = sizes.len();
    run.enumerate(
        "file-size-and-item-position",
        "files padded with filler so that a chosen byte of the wanted item is byte number `mark` of the file, mark = 2^k - 1, 2^k, 2^k + 1 for k = 9..=22 (thorough ..=26, 64 MiB) x {register with the filler BETWEEN its items; register item with a very large body; stand-alone .resource file - filler INSIDE the definition} x {./geodesy, $XDG_DATA_HOME/geodesy} x alignment (register: item wholly before the mark, ends at it, mark at the line end of / inside the closing fence, at the line end of the body, at the last digit of the last number, at the last step separator, inside the first number, at the first byte of the body, at the line end of / inside the name of the tag, inside the opening fence, item starts at the mark, wholly after it; definition: step 2 wholly before / ends at / last digit / inside the operator name / after the separator / starts at / wholly after the mark, step 3 starts at the mark) x filler (register: prose, other fenced geodesy items, one very long line, blank lines, code blocks + multi-byte prose mentioning the name, items with long comment lines; definition: comment lines, one very long comment line, blank lines, one long line of blanks and tabs, multi-byte comments, one very long inline comment) x {LF, CR/LF} x what follows (end of file, item unterminated at end of file, filler of mark/2 bytes and a last item whose fence ends the file, an unterminated last item); everything crossed for k <= 12 (thorough 14), filler crossed and the rest rotating for k <= 18 (20), all rotating above (few large files, at most 3 at a time). Oracle: the wanted item, the first item, the last item, the filler item in front of the wanted one and items whose names extend the wanted name are all found and behave (bitwise, both directions) as the body WRITTEN into the file, with the steps() and params() of that literal body registered at run time on a Minimal context; names not in the file are errors; a run-time registration under the wanted name takes precedence afterwards",
        n_sizes,
        move |i| sizes[i].clone(),
        check_size_case,
    );
    let n = run.scale(400, 6_000);
    let jmax = if run.is_thorough() { 23 } else { 21 };
    run.section(
        "file-size-and-item-position-random",
        "the same generator with random marks: m * 2^j / 8 + d (m = 8..15, d = -2..=2: odd multiples of smaller powers of two, block boundaries) or any offset in [2^j, 2^(j+1)), j = 9..=21 (thorough 23), all other dimensions random; non-trivial = the file extends beyond the mark",
        n,
        move || arb_size_case(jmax),
        check_size_case,
    );
    let manies = many_cases(run.is_thorough());
    let n_many = manies.len();
    run.enumerate(
        "registers-with-very-many-items",
        "registers of 300, 2 000, 10 000, 100 000 (thorough also 1 000, 30 000, 300 000, 1 000 000) items i1..iN x {LF, CR/LF} x {items back to back, blank line between, heading + prose naming the next item between} with the ending of the last item and the search location rotating; every fifth item a two-step pipeline; looked up: EVERY item for N <= 2 000, else the decimal and binary neighbourhoods 10^m - 1, 10^m, 10^m + 1, 2^m - 1, 2^m, 2^m + 1 (names that are prefixes / extensions of each other), both ends and a deterministic scatter (320 names for N <= 20 000, 72 for N <= 100 000, else 28); absent: i0, i<N+1>, i, i01, i<N/2>x, <N/2>; oracle as in file-size-and-item-position",
        n_many,
        move |i| manies[i].clone(),
        check_many,
    );
    let fences = fence_cases();
    let n_fences = fences.len();
    run.enumerate(
        "fence-neighbourhood",
        "registers of three items in which what stands immediately BEFORE the opening fence and AFTER the closing fence of one item is enumerated: item {first, middle, last in the file} x before {first item: NOTHING (the fence is byte 0 of the file), only a single LF / CRLF / CR, heading + blank line; later items: the closing fence of the previous item on the line before (no blank line), one blank line made of LF / CRLF / CR, a prose line directly before; and, not documented either way, so only 'if found then exactly the written body': a BOM, a space, a tab, prose without a line end directly in front of the fence} x after {closing fence then end of file without line end (last item) / the next opening fence on the next line, closing fence + LF, + CRLF, + blank line, unterminated at end of file without line end (last item) / prose before the next item} x {./geodesy, $XDG_DATA_HOME/geodesy} x {LF, CR/LF file} with the body of the item rotating (one line, several lines, one step, three steps). Oracle as in file-size-and-item-position for all three items: found, behaviour (bitwise, both directions), steps() and params() of the literal body; truncated / extended names are errors; run-time registration takes precedence",
        n_fences,
        move |i| fences[i].clone(),
        check_fence_case,
    );
    leave_big_tree();

    let general = Profile { grid_w: 2, w: [4, 12, 14, 10, 24, 8, 5, 4, 3, 2, 3, 14, 2], max_len: if run.is_thorough() { 100 } else { 40 } };
    let n = run.scale(5_000, 45_000);
    run.section(
        "histories",
        "random histories (3..=40 commands, thorough 100) over 3 context slots (Minimal/Plain, new/default) with names from all classes (built-in, plain, with ':', file based); non-trivial = a registration AFTER an instantiation that looked up the same name in the same context, or a cache clear / grid file removal while a grid operator is live, or a concurrent burst with live handles (in every second burst a context is lent to two newly created threads in turn, which instantiate operators in it and in contexts of their own); distinct by command/name signature",
        n,
        move || arb_history(general),
        run_history,
    );

    let gridp = Profile { grid_w: 14, w: [5, 5, 8, 5, 24, 8, 3, 15, 10, 8, 8, 5, 14], max_len: if run.is_thorough() { 80 } else { 30 } };
    let n = run.scale(3_500, 30_000);
    run.section(
        "grid-cache-histories",
        "histories dominated by grid operators (shipped and history-private grid files, both search paths), Plain::clear_grids, grid file removal, new contexts and concurrent bursts with a side thread clearing the process-wide cache; non-trivial as above",
        n,
        move || arb_history(gridp),
        run_history,
    );

    teardown_world();
    run.finish("call histories interpreted against the library and a reference registry model; every live handle re-fingerprinted after every command; see sections");
}
