//! C17 — PROJ strings are translated without changing their meaning.
//!
//! Generated: PROJ pipeline ASTs over the operators PROJ and Geodesy share (cart, helmert,
//! utm, tmerc, merc, webmerc, lcc, laea, somerc, molodensky, axisswap, unitconvert,
//! noop/longlat/..., push/pop), 1..6(8) steps, pipeline-level globals that clash with step
//! locals (ellps, a+rf, k/k_0, x_0, lon_0, zone, ...), `inv` at pipeline and step level,
//! omit_fwd/omit_inv, rendered as PROJ text in arbitrary layout (with/without `+`, `+step`,
//! token order, blanks around `=`, CR/LF/CRLF, tabs, comments).
//!
//! Oracle: an independent translator (`translate`) writes the hand-written Geodesy
//! counterpart from the AST, straight from the property statement. `Plain::op(PROJ text)`
//! and `Plain::op(reference text)` must have the same step count and bit-identical behaviour
//! in both directions on probe tuples (both sides run the same operators, so operator
//! defects cancel). Metamorphic: `op(P with pipeline inv)` forward == `op(P)` inverse and
//! vice versa. `parse_proj` is idempotent; text without `proj` or with `|` passes through
//! verbatim; Geodesy text that merely mentions "proj" keeps its meaning; `init=` and nested
//! pipelines are refused.
//!
//! Statefulness: sequences of near-duplicate PROJ definitions (same words, different line
//! breaks around a '#' comment = different operations) go through ONE long-lived Plain
//! context; each must behave like its counterpart in a fresh context, and earlier handles are
//! re-checked at the end; register_op calls of a trivial user operator under textually
//! colliding names (proj, p, step, utm, ...) are interleaved (section `context-sequences`).
//!
//! Value spellings and special text (section `value-spellings`): every real-valued parameter
//! (step-local, pipeline-global, a, rf, k, k_0, ellps=a,rf) in 11 spellings of the same number
//! (1e3, 1E3, 1e+3, 1.5E+05, 1e-3, +5, .5, 5., ...), and keys / text values holding what the
//! translator treats specially as tokens ('+', ':', step, proj, inv, init, pipeline, omit_*)
//! where that is ordinary text (egm+96.gsb, stepsize, projx). A user defined probe operator
//! whose behaviour is a hash of all its keys and of the meaning of all its values makes every
//! parameter observable; the counterpart is instantiated by Minimal::op (no translator in front)
//! and once more in canonical decimal spelling (f64::from_str of the spelling, Display).
//! Sexagesimal (12d30') and other non-decimal value forms are not claimed and not generated.
//!
//! Known defect classes are excluded by construction in the main section while they are
//! listed as `known` (read from known_findings.json / known_findings.d/C17.json) and
//! counted; a smaller unfiltered section keeps generating them and attributes a failure to
//! a class only if emulating exactly that defect in the reference (or removing exactly that
//! layout trigger) makes library and reference agree bit for bit again.
//!
//! Development aids (no effect on a normal run): `C17_NO_EXCLUSIONS=1` generates every class
//! even if listed as known (e.g. against a patched checkout), `C17_DUMP=1` prints the texts
//! of a replayed case.

use geodesy::authoring::{parse_proj, InnerOp, Op, OpConstructor, OpParameter, RawParameters, Tokenize};
use geodesy::prelude::*;
use proptest::prelude::*;
use serde::{Deserialize, Serialize};
use std::collections::{BTreeMap, BTreeSet};
use vcore::geo::*;
use vcore::guard::guard;
use vcore::*;

// ---- failure keys (defect classes) ------------------------------------------------------

const K_OMIT: &str = "omit-swapped-in-noninverted-pipeline";
const K_GLOB: &str = "pipeline-global-k-a-rf-not-rewritten";
const K_CPLUS: &str = "comment-then-newline-plus-swallows-rest";
const K_TPLUS: &str = "tab-before-plus-not-stripped";
const K_PUSHPOP: &str = "inverted-pipeline-keeps-push-pop";
const K_INIT: &str = "init-after-proj-not-refused";
const K_MENTION: &str = "geodesy-text-mentioning-proj-altered";

// ---- AST --------------------------------------------------------------------------------

#[derive(Clone, Debug, Serialize, Deserialize, PartialEq, Eq, Hash)]
enum Ell {
    No,
    Named(String),
    ARf(String, String),
}

#[derive(Clone, Debug, Serialize, Deserialize, PartialEq, Eq, Hash)]
enum KSpec {
    No,
    K(String),  // spelled k=
    K0(String), // spelled k_0=
}

type Param = (String, Option<String>); // None = flag

#[derive(Clone, Debug, Serialize, Deserialize)]
struct Step {
    name: String,
    params: Vec<Param>,
    ell: Ell,
    k: KSpec,
    inv: bool,
    omit_fwd: bool,
    omit_inv: bool,
}

#[derive(Clone, Debug, Serialize, Deserialize)]
struct Pipe {
    header: bool, // has a `proj=pipeline` clause (globals and pipeline inv need it)
    globals: Vec<Param>,
    g_ell: Ell,
    g_k: KSpec,
    inv: bool,
    steps: Vec<Step>,
}

#[derive(Clone, Debug, Serialize, Deserialize)]
struct Layout {
    seed: u64,
    plus: u8, // 0 none, 1 every token, 2 mixed
    plus_space: bool,
    shuffle: bool,
    spaced_eq: bool,
    newlines: bool,
    tabs: bool,
    comments: bool,
    double_step: bool,
    // known-class switches: false = avoid the trigger by construction
    allow_comment_nl_plus: bool,
    allow_tab_plus: bool,
}

impl Layout {
    fn plain() -> Layout {
        Layout {
            seed: 0,
            plus: 0,
            plus_space: false,
            shuffle: false,
            spaced_eq: false,
            newlines: false,
            tabs: false,
            comments: false,
            double_step: false,
            allow_comment_nl_plus: false,
            allow_tab_plus: false,
        }
    }
}

/// Deterministic choice stream derived from the case (splitmix64): a pure function of the case.
struct Stream(u64);
impl Stream {
    fn next(&mut self) -> u64 {
        self.0 = self.0.wrapping_add(0x9E3779B97F4A7C15);
        let mut z = self.0;
        z = (z ^ (z >> 30)).wrapping_mul(0xBF58476D1CE4E5B9);
        z = (z ^ (z >> 27)).wrapping_mul(0x94D049BB133111EB);
        z ^ (z >> 31)
    }
    fn below(&mut self, n: usize) -> usize {
        (self.next() % n.max(1) as u64) as usize
    }
    fn chance(&mut self, num: u64, den: u64) -> bool {
        self.next() % den < num
    }
}

// ---- rendering as PROJ text ----------------------------------------------------------------

fn ell_tokens(e: &Ell) -> Vec<String> {
    match e {
        Ell::No => vec![],
        Ell::Named(n) => vec![format!("ellps={n}")],
        Ell::ARf(a, rf) => vec![format!("a={a}"), format!("rf={rf}")],
    }
}
fn k_tokens(k: &KSpec) -> Vec<String> {
    match k {
        KSpec::No => vec![],
        KSpec::K(v) => vec![format!("k={v}")],
        KSpec::K0(v) => vec![format!("k_0={v}")],
    }
}
fn param_token(p: &Param) -> String {
    match &p.1 {
        Some(v) => format!("{}={}", p.0, v),
        None => p.0.clone(),
    }
}

/// token groups: the header clause (if any) and one group per step; the `proj=` token first
fn groups(pipe: &Pipe) -> Vec<Vec<String>> {
    let mut gs = vec![];
    if pipe.header {
        let mut g = vec!["proj=pipeline".to_string()];
        g.extend(pipe.globals.iter().map(param_token));
        g.extend(ell_tokens(&pipe.g_ell));
        g.extend(k_tokens(&pipe.g_k));
        if pipe.inv {
            g.push("inv".into());
        }
        gs.push(g);
    }
    for s in &pipe.steps {
        let mut g = vec![format!("proj={}", s.name)];
        g.extend(s.params.iter().map(param_token));
        g.extend(ell_tokens(&s.ell));
        g.extend(k_tokens(&s.k));
        if s.inv {
            g.push("inv".into());
        }
        if s.omit_fwd {
            g.push("omit_fwd".into());
        }
        if s.omit_inv {
            g.push("omit_inv".into());
        }
        gs.push(g);
    }
    gs
}

const COMMENT_WORDS: [&str; 14] = [
    "comment", "step", "proj=utm", "inv", "+zone=33", "omit_fwd", "init=epsg:4326", "the projection", "#", "ellps=intl", "k=2",
    "proj=pipeline", "a=1 rf=2", "ünïcode",
];

fn render_proj(pipe: &Pipe, lay: &Layout) -> String {
    let mut st = Stream(lay.seed ^ 0xC17C17);
    let gs = groups(pipe);
    // flatten into tokens, with `step` keywords
    let mut toks: Vec<String> = vec![];
    for (gi, g) in gs.iter().enumerate() {
        let mut g = g.clone();
        if lay.shuffle {
            for i in (1..g.len()).rev() {
                let j = st.below(i + 1);
                g.swap(i, j);
            }
        }
        let is_step = !(pipe.header && gi == 0);
        let first_of_headerless = !pipe.header && gi == 0;
        if is_step && (!first_of_headerless || (lay.double_step && st.chance(1, 4))) {
            toks.push("step".into());
            if lay.double_step && st.chance(1, 3) {
                toks.push("step".into());
            }
        }
        toks.extend(g);
    }
    // an empty last step (`... step`) is the same noise as a doubled `step`
    if lay.double_step && st.chance(1, 4) {
        toks.push("step".into());
    }
    let mut out = String::new();
    // leading material
    if lay.comments && st.chance(1, 4) {
        out.push_str("# leading comment: step proj=merc +inv\n");
    } else if lay.newlines && st.chance(1, 4) {
        out.push_str(" \n");
    } else if st.chance(1, 8) {
        out.push_str("  ");
    }
    for (i, t) in toks.iter().enumerate() {
        // spelling of the token
        let plus = match lay.plus {
            0 => false,
            1 => true,
            _ => st.chance(1, 2),
        };
        let mut w = String::new();
        if plus {
            w.push('+');
            if lay.plus_space && st.chance(1, 4) {
                w.push(' ');
            }
        }
        match t.split_once('=') {
            Some((k, v)) if lay.spaced_eq => match st.below(5) {
                0 => w.push_str(&format!("{k} = {v}")),
                1 => w.push_str(&format!("{k}= {v}")),
                2 => w.push_str(&format!("{k} ={v}")),
                3 => w.push_str(&format!("{k}   =  {v}")),
                _ => w.push_str(t),
            },
            _ => w.push_str(t),
        }
        // separator in front of the token
        if i > 0 || !out.is_empty() {
            let mut sep = String::new();
            if i > 0 {
                if lay.comments && st.chance(1, 6) {
                    let n = 1 + st.below(3);
                    let words: Vec<&str> = (0..n).map(|_| COMMENT_WORDS[st.below(COMMENT_WORDS.len())]).collect();
                    // inline comment, comment glued to the token, or a comment line of its own
                    sep = format!("{}# {}{}", [" ", "", "   ", "\n", "\r\n  "][st.below(5)], words.join(" "), ["\n", "\n  ", "\r\n", "\n\t", "\r"][st.below(5)]);
                } else if lay.newlines && st.chance(1, 3) {
                    sep = ["\n", "\n    ", "\r\n  ", "\r", " \n", "\n\n", "\r\n"][st.below(7)].to_string();
                } else if lay.tabs && st.chance(1, 3) {
                    sep = ["\t", " \t", "\t\t", "\t "][st.below(4)].to_string();
                } else {
                    sep = [" ", " ", " ", "  ", "    "][st.below(5)].to_string();
                }
            }
            let full = format!("{out}{sep}");
            if w.starts_with('+') {
                // trigger: comment line directly followed by a line that starts with '+'
                let after_comment_line = (full.ends_with('\n') || full.ends_with('\r')) && last_line_has_comment(&full);
                if after_comment_line && !lay.allow_comment_nl_plus {
                    sep.push(' ');
                }
                if full.ends_with('\t') && !lay.allow_tab_plus {
                    sep.push(' ');
                }
            }
            out.push_str(&sep);
        }
        out.push_str(&w);
    }
    // trailing material
    if lay.comments && st.chance(1, 4) {
        out.push_str([" # trailing step proj=noop", "   # bye\n", " #glued +proj=utm"][st.below(3)]);
    } else if lay.newlines && st.chance(1, 3) {
        out.push_str(["\n", " \r\n", "\n\n"][st.below(3)]);
    } else if st.chance(1, 8) {
        out.push(' ');
    }
    out
}

/// does the line before the final line terminator contain a '#'
fn last_line_has_comment(s: &str) -> bool {
    let t = s.trim_end_matches(['\n', '\r']);
    let line = t.rsplit(['\n', '\r']).next().unwrap_or("");
    line.contains('#')
}

fn has_comment_nl_plus(text: &str) -> bool {
    // a line holding a '#' whose successor line starts with '+' in column 0
    let norm = text.replace("\r\n", "\n").replace('\r', "\n");
    let lines: Vec<&str> = norm.split('\n').collect();
    lines.windows(2).any(|w| w[0].contains('#') && w[1].starts_with('+'))
}
fn has_tab_plus(text: &str) -> bool {
    text.contains("\t+")
}

// ---- the reference translator ----------------------------------------------------------------

#[derive(Clone, Copy, Debug, Default, PartialEq, Eq)]
struct Bugs {
    omit_swap_always: bool, // omit_fwd <-> omit_inv also when the pipeline is not inverted
    pushpop_inv_flag: bool, // an inverted push/pop step is written `push inv` / `pop inv`
}

/// The hand-written Geodesy counterpart of a PROJ pipeline, from the property statement:
/// step order kept; globals reach every step, step locals win; pipeline inv = reverse the
/// order, toggle every step's inv, swap omit_fwd/omit_inv; a+rf -> ellps=a,rf; k -> k_0.
fn translate(pipe: &Pipe, bugs: Bugs) -> String {
    let (g_ell, g_k) = (pipe.g_ell.clone(), pipe.g_k.clone());
    let mut out = vec![];
    for s in &pipe.steps {
        let mut w = vec![s.name.clone()];
        if s.inv != pipe.inv {
            // push and pop "do not accept the inv flag ... If you want to invert a push, then
            // use a pop (and vice versa)" (src/inner_op/pushpop.rs)
            if (s.name == "push" || s.name == "pop") && !bugs.pushpop_inv_flag {
                w[0] = if s.name == "push" { "pop".to_string() } else { "push".to_string() };
            } else {
                w.push("inv".into());
            }
        }
        let swap = pipe.inv || bugs.omit_swap_always;
        let (of, oi) = if swap { (s.omit_inv, s.omit_fwd) } else { (s.omit_fwd, s.omit_inv) };
        if of {
            w.push("omit_fwd".into());
        }
        if oi {
            w.push("omit_inv".into());
        }
        for g in &pipe.globals {
            if !s.params.iter().any(|p| p.0 == g.0) {
                w.push(param_token(g));
            }
        }
        for p in &s.params {
            w.push(param_token(p));
        }
        let ell = if s.ell != Ell::No { &s.ell } else { &g_ell };
        match ell {
            Ell::No => {}
            Ell::Named(n) => w.push(format!("ellps={n}")),
            Ell::ARf(a, rf) => w.push(format!("ellps={a},{rf}")),
        }
        let k = if s.k != KSpec::No { &s.k } else { &g_k };
        match k {
            KSpec::No => {}
            KSpec::K(v) | KSpec::K0(v) => w.push(format!("k_0={v}")),
        }
        out.push(w.join(" "));
    }
    if pipe.inv {
        out.reverse();
    }
    out.join(" | ")
}

fn has_pushpop(pipe: &Pipe) -> bool {
    pipe.steps.iter().any(|s| s.name == "push" || s.name == "pop")
}

fn step_maps(text: &str) -> Vec<BTreeMap<String, String>> {
    text.split_into_steps().iter().map(|s| s.split_into_parameters()).collect()
}

fn mkstep(name: &str, params: &[(&str, Option<&str>)]) -> Step {
    Step {
        name: name.into(),
        params: params.iter().map(|(k, v)| (k.to_string(), v.map(|x| x.to_string()))).collect(),
        ell: Ell::No,
        k: KSpec::No,
        inv: false,
        omit_fwd: false,
        omit_inv: false,
    }
}

/// The translator is first checked against the documented pairs (Rumination 000/008 and the
/// examples in the doc/tests of parse_proj that the repository itself presents as correct).
fn selftest_translator() {
    let eq = |p: &Pipe, geodesy: &str| {
        let t = translate(p, Bugs::default());
        assert!(step_maps(&t) == step_maps(geodesy), "reference translator disagrees with documented pair: {t:?} vs {geodesy:?}");
    };
    // Rumination 000: proj=pipeline step proj=cart ellps=intl step proj=helmert x=-87 y=-96 z=-120 step proj=cart inv ellps=GRS80
    let mut c1 = mkstep("cart", &[]);
    c1.ell = Ell::Named("intl".into());
    let h = mkstep("helmert", &[("x", Some("-87")), ("y", Some("-96")), ("z", Some("-120"))]);
    let mut c2 = mkstep("cart", &[]);
    c2.ell = Ell::Named("GRS80".into());
    c2.inv = true;
    let p = Pipe { header: true, globals: vec![], g_ell: Ell::No, g_k: KSpec::No, inv: false, steps: vec![c1, h, c2] };
    eq(&p, "cart ellps=intl | helmert x=-87 y=-96 z=-120 | cart inv ellps=GRS80");
    // inverted pipeline with a global and a step inv (parse_proj test)
    let mut u1 = mkstep("utm", &[("zone", Some("32"))]);
    u1.inv = true;
    let u2 = mkstep("utm", &[("zone", Some("33"))]);
    let p = Pipe {
        header: true,
        globals: vec![("ugly".into(), Some("syntax".into()))],
        g_ell: Ell::Named("intl".into()),
        g_k: KSpec::No,
        inv: true,
        steps: vec![u1.clone(), u2.clone()],
    };
    eq(&p, "utm inv ellps=intl ugly=syntax zone=33 | utm ellps=intl ugly=syntax zone=32");
    // omit_* under inversion (parse_proj test)
    let mut a = u1.clone();
    a.omit_fwd = true;
    let mut b = u2.clone();
    b.omit_inv = true;
    let p = Pipe { header: true, globals: vec![], g_ell: Ell::No, g_k: KSpec::No, inv: true, steps: vec![a, b] };
    eq(&p, "utm inv omit_fwd zone=33 | utm omit_inv zone=32");
    // a + rf and k (tidy_proj test)
    let mut t = mkstep("tmerc", &[]);
    t.inv = true;
    t.ell = Ell::ARf("6378249.145".into(), "293.465".into());
    t.k = KSpec::K("1.5".into());
    let p = Pipe { header: true, globals: vec![], g_ell: Ell::No, g_k: KSpec::No, inv: false, steps: vec![t, mkstep("noop", &[])] };
    eq(&p, "tmerc inv ellps=6378249.145,293.465 k_0=1.5 | noop");
    // push/pop: a step-level inv is kept (pop inv = push), a pipeline-level inv reverses and inverts
    // every step, so the two cancel on a step carrying its own inv (pushpop.rs: "If you want to
    // invert a push, then use a pop (and vice versa)")
    let mut o = mkstep("pop", &[("v_3", None)]);
    o.inv = true;
    let mut c = mkstep("push", &[("v_3", None)]);
    c.inv = true;
    let h = mkstep("helmert", &[("x", Some("1"))]);
    let mut p = Pipe { header: true, globals: vec![], g_ell: Ell::No, g_k: KSpec::No, inv: false, steps: vec![o.clone(), h.clone(), c.clone()] };
    eq(&p, "push v_3 | helmert x=1 | pop v_3");
    p.inv = true;
    eq(&p, "push v_3 | helmert inv x=1 | pop v_3"); // reversed: (push inv)' = push, helmert inv, (pop inv)' = pop
    p.steps = vec![mkstep("push", &[("v_3", None)]), h, c];
    eq(&p, "push v_3 | helmert inv x=1 | pop v_3"); // reversed: (push inv)' = push ... (push)' = pop
    // global ellps overridden locally (parse_proj test, "cart foo=bar ellps=GRS80 ellps=intl": last wins)
    let mut c = mkstep("cart", &[]);
    c.ell = Ell::Named("intl".into());
    let p = Pipe {
        header: true,
        globals: vec![("foo".into(), Some("bar".into()))],
        g_ell: Ell::Named("GRS80".into()),
        g_k: KSpec::No,
        inv: false,
        steps: vec![mkstep("cart", &[]), mkstep("helmert", &[("s", Some("3"))]), c],
    };
    eq(&p, "cart foo=bar ellps=GRS80 | helmert foo=bar ellps=GRS80 s=3 | cart foo=bar ellps=intl");
}

// ---- observing behaviour ---------------------------------------------------------------------

#[derive(Clone, Debug)]
struct Beh {
    steps: usize,
    fwd_n: usize,
    fwd: Vec<Coor4D>,
    inv_n: usize,
    inv: Vec<Coor4D>,
}

#[derive(Clone, Debug)]
enum Inst {
    Refused(String),
    Works(Beh),
}

/// A step made only of modifiers makes `Op::new` spin forever (token/mod.rs: the rotate loop of
/// split_into_parameters) - a robustness defect outside this property (reported to C09/C16).
/// Such a definition is treated as refused here so that this check cannot hang.
fn would_hang(def: &str) -> bool {
    let degenerate = |d: &str| {
        d.split_into_steps().iter().any(|s| {
            let e: Vec<&str> = s.split_whitespace().collect();
            !e.is_empty() && e.iter().all(|w| ["inv", "omit_fwd", "omit_inv"].contains(w))
        })
    };
    degenerate(def) || matches!(guard(|| parse_proj(def)), Ok(Ok(t)) if degenerate(&t))
}

/// Ok(Err(text of the error)) = refused
fn instantiate<C: Context>(ctx: &mut C, text: &str) -> Result<Result<OpHandle, String>, Failure> {
    if would_hang(text) {
        return Ok(Err("degenerate definition: a step made of modifiers only (instantiation would not return)".into()));
    }
    match try_op(ctx, text) {
        Err(p) => vfail!(format!("panic-instantiate@{}", p.sig()), "instantiating {text:?} panics: {} at {}:{}", p.msg, p.file, p.line),
        Ok(Err(e)) => Ok(Err(format!("{e:?}"))),
        Ok(Ok(op)) => Ok(Ok(op)),
    }
}

fn behave<C: Context>(ctx: &C, op: OpHandle, text: &str, probes: &[Coor4D]) -> Result<Beh, Failure> {
    let steps = match ctx.steps(op) {
        Ok(s) => s.len(),
        Err(e) => vfail!("steps-error", "ctx.steps() on the handle of {text:?} fails: {e:?}"),
    };
    let mut res: Vec<(usize, Vec<Coor4D>)> = vec![];
    for fwd in [true, false] {
        let dir = if fwd { "Fwd" } else { "Inv" };
        let mut data = probes.to_vec();
        let n = match try_apply(ctx, op, dir_of(fwd), &mut data) {
            Err(p) => vfail!(format!("panic-apply@{}", p.sig()), "applying {text:?} ({dir}) panics: {} at {}:{}", p.msg, p.file, p.line),
            Ok(Err(e)) => vfail!("apply-error", "applying {text:?} ({dir}) returns an error: {e:?}"),
            Ok(Ok(n)) => n,
        };
        res.push((n, data));
    }
    let (inv_n, inv) = res.pop().unwrap();
    let (fwd_n, fwd) = res.pop().unwrap();
    Ok(Beh { steps, fwd_n, fwd, inv_n, inv })
}

fn observe<C: Context>(ctx: &mut C, text: &str, probes: &[Coor4D]) -> Result<Inst, Failure> {
    Ok(match instantiate(ctx, text)? {
        Err(e) => Inst::Refused(e),
        Ok(op) => Inst::Works(behave(ctx, op, text, probes)?),
    })
}

fn diff_dir(what: &str, an: usize, a: &[Coor4D], bn: usize, b: &[Coor4D], probes: &[Coor4D]) -> Option<String> {
    if let Some(i) = first_bits_diff(a, b) {
        return Some(format!("{what}: probe #{i} {} -> library {} but expected {} (bitwise comparison, tolerance 0)", fmt_c4(&probes[i]), fmt_c4(&a[i]), fmt_c4(&b[i])));
    }
    if an != bn {
        return Some(format!("{what}: success count {an} but expected {bn}"));
    }
    None
}

/// None = same operation as far as observable
fn differs(lib: &Inst, reference: &Inst, probes: &[Coor4D]) -> Option<String> {
    match (lib, reference) {
        (Inst::Refused(_), Inst::Refused(_)) => None,
        (Inst::Refused(e), Inst::Works(_)) => Some(format!("library refuses ({e}) what the reference text instantiates")),
        (Inst::Works(_), Inst::Refused(e)) => Some(format!("library instantiates what the reference text cannot ({e})")),
        (Inst::Works(a), Inst::Works(b)) => {
            if a.steps != b.steps {
                return Some(format!("step count {} but expected {}", a.steps, b.steps));
            }
            diff_dir("forward", a.fwd_n, &a.fwd, b.fwd_n, &b.fwd, probes).or_else(|| diff_dir("inverse", a.inv_n, &a.inv, b.inv_n, &b.inv, probes))
        }
    }
}

/// `a` must be exactly the inverse of `b`: a.fwd == b.inv, a.inv == b.fwd
fn not_mirrored(a: &Inst, b: &Inst, probes: &[Coor4D]) -> Option<String> {
    match (a, b) {
        (Inst::Refused(_), Inst::Refused(_)) => None,
        (Inst::Refused(e), Inst::Works(_)) | (Inst::Works(_), Inst::Refused(e)) => Some(format!("one of the two is refused ({e}), the other is not")),
        (Inst::Works(a), Inst::Works(b)) => {
            if a.steps != b.steps {
                return Some(format!("step count {} vs {}", a.steps, b.steps));
            }
            diff_dir("forward of inverted vs inverse of plain", a.fwd_n, &a.fwd, b.inv_n, &b.inv, probes)
                .or_else(|| diff_dir("inverse of inverted vs forward of plain", a.inv_n, &a.inv, b.fwd_n, &b.fwd, probes))
        }
    }
}

// ---- the main case ---------------------------------------------------------------------------

#[derive(Clone, Debug, Serialize, Deserialize)]
struct Case {
    pipe: Pipe,
    layout: Layout,
    probes: Vec<P4>,
    skip_twin: bool,
    excluded: Vec<String>,
}

fn esc(s: &str) -> String {
    format!("{s:?}")
}

/// Everything the property demands of one PROJ text: accepted by parse_proj, translation
/// idempotent, same operation as the reference text. Ok(None) = holds; Some((generic key, what)).
fn evaluate(pipe: &Pipe, lay: &Layout, bugs: Bugs, probes: &[Coor4D]) -> Result<Option<(String, String)>, Failure> {
    let text = render_proj(pipe, lay);
    let reft = translate(pipe, bugs);
    let out = match guard(|| parse_proj(&text)) {
        Err(p) => return Ok(Some((format!("panic-parse_proj@{}", p.sig()), format!("parse_proj panics on a well-formed PROJ definition: {} at {}:{}", p.msg, p.file, p.line)))),
        Ok(Err(e)) => return Ok(Some(("valid-proj-refused".into(), format!("a well-formed PROJ definition is refused by parse_proj: {e:?}")))),
        Ok(Ok(o)) => o,
    };
    match guard(|| parse_proj(&out)) {
        Err(p) => return Ok(Some((format!("panic-parse_proj@{}", p.sig()), format!("parse_proj panics on its own output {}: {} at {}:{}", esc(&out), p.msg, p.file, p.line)))),
        Ok(Ok(again)) if again == out => {}
        Ok(other) => return Ok(Some(("not-idempotent".into(), format!("parse_proj is not idempotent: once {} twice {:?}", esc(&out), other)))),
    }
    let mut ctx = Plain::new();
    let lib = observe(&mut ctx, &text, probes)?;
    let rf = observe(&mut ctx, &reft, probes)?;
    Ok(differs(&lib, &rf, probes).map(|d| ("translation-changes-meaning".to_string(), d)))
}

/// Attribute a mismatch to defect classes: the smallest set of {layout trigger removed,
/// omit defect emulated in the reference, pipeline-level a+rf/k respelled as ellps=a,rf/k_0}
/// under which everything the property demands holds exactly.
fn diagnose(pipe: &Pipe, lay: &Layout, probes: &[Coor4D]) -> Result<Vec<&'static str>, Failure> {
    let text = render_proj(pipe, lay);
    let mut cands: Vec<&'static str> = vec![];
    if has_comment_nl_plus(&text) {
        cands.push(K_CPLUS);
    }
    if has_tab_plus(&text) {
        cands.push(K_TPLUS);
    }
    let plain = translate(pipe, Bugs::default());
    if translate(pipe, Bugs { omit_swap_always: true, ..Default::default() }) != plain {
        cands.push(K_OMIT);
    }
    if matches!(pipe.g_ell, Ell::ARf(_, _)) || matches!(pipe.g_k, KSpec::K(_)) {
        cands.push(K_GLOB);
    }
    if translate(pipe, Bugs { pushpop_inv_flag: true, ..Default::default() }) != plain {
        cands.push(K_PUSHPOP);
    }
    let n = cands.len();
    let mut subsets: Vec<u32> = (1..(1u32 << n)).collect();
    subsets.sort_by_key(|m| (m.count_ones(), *m));
    for m in subsets {
        let set: Vec<&'static str> = (0..n).filter(|i| m & (1 << i) != 0).map(|i| cands[i]).collect();
        // a trigger that the text does not hold must not appear in a re-rendering either
        let mut l = lay.clone();
        if set.contains(&K_CPLUS) || !cands.contains(&K_CPLUS) {
            l.allow_comment_nl_plus = false;
        }
        if set.contains(&K_TPLUS) || !cands.contains(&K_TPLUS) {
            l.allow_tab_plus = false;
        }
        let bugs = Bugs { omit_swap_always: set.contains(&K_OMIT), pushpop_inv_flag: set.contains(&K_PUSHPOP) };
        let mut q = pipe.clone();
        if set.contains(&K_GLOB) {
            // the same globals in the spelling that needs no rewriting: ellps=a,rf and k_0
            if let Ell::ARf(a, rf) = &pipe.g_ell {
                q.g_ell = Ell::Named(format!("{a},{rf}"));
            }
            if let KSpec::K(val) = &pipe.g_k {
                q.g_k = KSpec::K0(val.clone());
            }
        }
        if evaluate(&q, &l, bugs, probes)?.is_none() {
            return Ok(set);
        }
    }
    Ok(vec![])
}

fn features(pipe: &Pipe) -> (Vec<&'static str>, bool) {
    let mut f = vec![];
    let mut clash = false;
    for s in &pipe.steps {
        if s.params.iter().any(|p| pipe.globals.iter().any(|g| g.0 == p.0)) {
            clash = true;
        }
        if s.ell != Ell::No && pipe.g_ell != Ell::No {
            clash = true;
        }
        if s.k != KSpec::No && pipe.g_k != KSpec::No {
            clash = true;
        }
    }
    if clash {
        f.push("global-local-clash");
    }
    if pipe.inv {
        f.push("pipeline-inv");
    }
    if pipe.steps.iter().any(|s| s.inv) {
        f.push("step-inv");
    }
    if pipe.steps.iter().any(|s| s.omit_fwd || s.omit_inv) {
        f.push(if pipe.inv { "omit-in-inverted" } else { "omit-in-plain" });
    }
    let nt = !f.is_empty() && pipe.steps.len() >= 2;
    if !pipe.globals.is_empty() || pipe.g_ell != Ell::No || pipe.g_k != KSpec::No {
        f.push("globals");
    }
    if matches!(pipe.g_ell, Ell::ARf(_, _)) {
        f.push("global-a-rf");
    }
    if matches!(pipe.g_k, KSpec::K(_)) {
        f.push("global-k");
    }
    if pipe.steps.iter().any(|s| matches!(s.ell, Ell::ARf(_, _))) {
        f.push("local-a-rf");
    }
    if pipe.steps.iter().any(|s| matches!(s.k, KSpec::K(_))) {
        f.push("local-k");
    }
    if !pipe.header {
        f.push("header-less");
    }
    if has_pushpop(pipe) {
        f.push("push-pop");
        if pipe.steps.iter().any(|s| (s.name == "push" || s.name == "pop") && s.inv) {
            f.push(if pipe.inv { "push-pop-step-inv-in-inverted" } else { "push-pop-step-inv-in-plain" });
        }
    }
    (f, nt)
}

fn check_pipe(case: &Case, rec: &mut Rec) -> CaseResult {
    let pipe = &case.pipe;
    let lay = &case.layout;
    let probes = c4s(&case.probes);
    let text = render_proj(pipe, lay);
    let reft = translate(pipe, Bugs::default());
    for e in &case.excluded {
        rec.count("excluded_known", 1);
        rec.count(&format!("excluded_known:{e}"), 1);
    }

    if std::env::var("C17_DUMP").is_ok() {
        eprintln!("PROJ text: {}\nparse_proj: {:?}\nreference: {}", esc(&text), guard(|| parse_proj(&text)).map_err(|p| p.msg), esc(&reft));
    }
    // 1.+2. accepted, idempotent, same operation as the reference text
    let report = |pipe: &Pipe, generic: String, what: String| -> CaseResult {
        let text = render_proj(pipe, lay);
        let classes = diagnose(pipe, lay, &probes)?;
        let key = classes.first().map(|c| c.to_string()).unwrap_or(generic);
        Err(Failure {
            key: key.to_string(),
            msg: format!(
                "PROJ text     : {}\nparse_proj    : {:?}\nreference text: {}\n{what}\nattributed to : {:?} (classes whose emulation in the reference / removal from the layout restores exact agreement; empty = unexplained)",
                esc(&text),
                guard(|| parse_proj(&text)).map_err(|p| p.msg),
                esc(&translate(pipe, Bugs::default())),
                classes
            ),
        })
    };
    if let Some((generic, what)) = evaluate(pipe, lay, Bugs::default(), &probes)? {
        return report(pipe, generic, what);
    }
    let mut ctx = Plain::new();
    let lib = observe(&mut ctx, &text, &probes)?;
    if let Inst::Works(b) = &lib {
        vensure!(b.steps == pipe.steps.len(), "step-count", "PROJ text {} has {} steps, the library makes {} of them", esc(&text), pipe.steps.len(), b.steps);
    }

    // 3. pipeline-level inv: exactly the inverse of the non-inverted pipeline
    let mut twin_done = false;
    if pipe.header && !case.skip_twin {
        let mut twin = pipe.clone();
        twin.inv = !pipe.inv;
        if let Some((generic, what)) = evaluate(&twin, lay, Bugs::default(), &probes)? {
            return report(&twin, generic, what);
        }
        let ttext = render_proj(&twin, lay);
        let tlib = observe(&mut ctx, &ttext, &probes)?;
        if let Some(d) = not_mirrored(&tlib, &lib, &probes) {
            let key = if has_pushpop(pipe) { K_PUSHPOP } else { "pipeline-inv-not-exact-inverse" };
            let (inv_t, plain_t) = if twin.inv { (&ttext, &text) } else { (&text, &ttext) };
            vfail!(
                key,
                "with pipeline inv : {}\n  -> {:?}\nwithout           : {}\n  -> {:?}\n{d}",
                esc(inv_t),
                guard(|| parse_proj(inv_t)).map_err(|p| p.msg),
                esc(plain_t),
                guard(|| parse_proj(plain_t)).map_err(|p| p.msg)
            );
        }
        twin_done = true;
    }

    // bookkeeping
    let (feats, nt) = features(pipe);
    rec.class(&format!("steps={}", pipe.steps.len()));
    for f in &feats {
        rec.class(f);
    }
    rec.class(match lay.plus {
        0 => "layout:no-plus",
        1 => "layout:plus-everywhere",
        _ => "layout:plus-mixed",
    });
    for (on, name) in [
        (lay.comments && text.contains('#'), "layout:comments"),
        (lay.newlines && text.trim().contains(['\n', '\r']), "layout:multi-line"),
        (text.trim().contains('\t'), "layout:tabs"),
        (lay.shuffle, "layout:shuffled-tokens"),
        (lay.spaced_eq, "layout:blanks-around-equals"),
        (has_comment_nl_plus(&text), "layout:comment-newline-plus"),
        (has_tab_plus(&text), "layout:tab-plus"),
        (twin_done, "twin-checked"),
    ] {
        if on {
            rec.class(name);
        }
    }
    for s in &pipe.steps {
        rec.count(&format!("op:{}", s.name), 1);
    }
    match &lib {
        Inst::Refused(_) => rec.class("both-refused"),
        Inst::Works(b) => {
            let moved = b.fwd.iter().zip(&probes).any(|(o, i)| (0..4).all(|k| o[k].is_finite()) && !c4_bits_eq(o, i));
            let moved_inv = b.inv.iter().zip(&probes).any(|(o, i)| (0..4).all(|k| o[k].is_finite()) && !c4_bits_eq(o, i));
            if !moved && !moved_inv {
                rec.class("no-finite-effect");
            }
            let finite = b.fwd.iter().chain(&b.inv).filter(|o| (0..4).all(|k| o[k].is_finite())).count();
            rec.count("finite_outputs", finite as u64);
            rec.count("outputs", (b.fwd.len() + b.inv.len()) as u64);
            if nt && (moved || moved_inv) {
                rec.nontrivial(&(reft.clone(), text.len(), pipe.inv));
            }
        }
    }
    Ok(())
}

// ---- generators ----------------------------------------------------------------------------

#[derive(Clone, Copy, Debug, PartialEq, Eq)]
enum Kind {
    Geo,
    Cart,
    Proj,
    Any,
}

struct OpT {
    name: &'static str,
    inp: Kind,
    out: Kind,
    uses_k: bool,
    uses_ell: bool,
}

const OPS: [OpT; 14] = [
    OpT { name: "cart", inp: Kind::Geo, out: Kind::Cart, uses_k: false, uses_ell: true },
    OpT { name: "helmert", inp: Kind::Cart, out: Kind::Cart, uses_k: false, uses_ell: false },
    OpT { name: "utm", inp: Kind::Geo, out: Kind::Proj, uses_k: false, uses_ell: true },
    OpT { name: "tmerc", inp: Kind::Geo, out: Kind::Proj, uses_k: true, uses_ell: true },
    OpT { name: "merc", inp: Kind::Geo, out: Kind::Proj, uses_k: true, uses_ell: true },
    OpT { name: "webmerc", inp: Kind::Geo, out: Kind::Proj, uses_k: false, uses_ell: true },
    OpT { name: "lcc", inp: Kind::Geo, out: Kind::Proj, uses_k: true, uses_ell: true },
    OpT { name: "laea", inp: Kind::Geo, out: Kind::Proj, uses_k: false, uses_ell: true },
    OpT { name: "somerc", inp: Kind::Geo, out: Kind::Proj, uses_k: true, uses_ell: true },
    OpT { name: "molodensky", inp: Kind::Geo, out: Kind::Geo, uses_k: false, uses_ell: true },
    OpT { name: "axisswap", inp: Kind::Any, out: Kind::Any, uses_k: false, uses_ell: false },
    OpT { name: "unitconvert", inp: Kind::Any, out: Kind::Any, uses_k: false, uses_ell: false },
    OpT { name: "noop", inp: Kind::Any, out: Kind::Any, uses_k: false, uses_ell: false },
    OpT { name: "helmert", inp: Kind::Any, out: Kind::Any, uses_k: false, uses_ell: false },
];

const NOOPS: [&str; 5] = ["noop", "longlat", "latlong", "lonlat", "latlon"];
const ELLPS: [&str; 8] = ["intl", "GRS80", "WGS84", "bessel", "clrk66", "krass", "airy", "sphere"];
const ARF: [(&str, &str); 5] = [
    ("6378249.145", "293.465"),
    ("6377397.155", "299.1528128"),
    ("6378137", "298.257223563"),
    ("6378388.0", "297"),
    ("6400000", "150.5"),
];
const KVALS: [&str; 6] = ["0.9996", "0.9", "1.5", "0.99984", "1", "2"];
const NOTES: [&str; 8] = ["bar", "stepwise", "step", "reprojected", "inverse", "invx", "proj", "omit_fwd"];

fn v(s: &str) -> Option<String> {
    Some(s.to_string())
}
fn p(k: &str, val: &str) -> Param {
    (k.to_string(), v(val))
}

#[derive(Clone, Debug)]
struct RawStep {
    op: u16,
    typed: bool,
    inv: bool,
    omit: u8,
    ell: (u8, u16),
    k: (u8, u16),
    sel: Vec<u16>,
}

fn raw_step() -> impl Strategy<Value = RawStep> {
    (
        any::<u16>(),
        prop::bool::weighted(0.7),
        prop::bool::weighted(0.35),
        prop_oneof![12 => Just(0u8), 4 => Just(1u8), 4 => Just(2u8), 1 => Just(3u8)],
        (prop_oneof![11 => Just(0u8), 5 => Just(1u8), 4 => Just(2u8)], any::<u16>()),
        (prop_oneof![10 => Just(0u8), 7 => Just(1u8), 3 => Just(2u8)], any::<u16>()),
        prop::collection::vec(any::<u16>(), 12),
    )
        .prop_map(|(op, typed, inv, omit, ell, k, sel)| RawStep { op, typed, inv, omit, ell, k, sel })
}

fn pick_s<'a>(i: u16, pool: &[&'a str]) -> &'a str {
    pool[pick(i, pool.len())]
}
fn opt(i: u16, percent: u32) -> bool {
    ((i as u32 * 100) >> 16) < percent
}

/// op-specific, always valid parameters
fn op_params(name: &str, sel: &[u16]) -> Vec<Param> {
    let mut ps: Vec<Param> = vec![];
    let lon0 = ["9", "-2", "117.25", "0", "-71.5"];
    let x0 = ["500000", "400000.5", "0", "-1000", "4321000"];
    let y0 = ["-100000", "0", "10000000", "3210000", "250.25"];
    match name {
        "utm" => {
            ps.push(p("zone", &format!("{}", 1 + pick(sel[0], 60))));
            if opt(sel[1], 30) {
                ps.push(("south".into(), None));
            }
        }
        "tmerc" | "somerc" | "merc" => {
            if opt(sel[0], 50) {
                ps.push(p("lat_0", pick_s(sel[1], if name == "somerc" { &["46.95", "47", "-40", "10"] } else { &["0", "49", "-30.5", "10"] })));
            }
            if opt(sel[2], 70) {
                ps.push(p("lon_0", pick_s(sel[3], &lon0)));
            }
            if opt(sel[4], 50) {
                ps.push(p("x_0", pick_s(sel[5], &x0)));
            }
            if opt(sel[6], 50) {
                ps.push(p("y_0", pick_s(sel[7], &y0)));
            }
            if name == "merc" && opt(sel[8], 30) {
                ps.push(p("lat_ts", pick_s(sel[9], &["56", "-20", "0", "33.5"])));
            }
        }
        "lcc" => {
            ps.push(p("lat_1", pick_s(sel[0], &["30", "45.5", "60", "33"])));
            if opt(sel[1], 60) {
                ps.push(p("lat_2", pick_s(sel[2], &["35", "50", "65", "45.5"])));
            }
            if opt(sel[3], 50) {
                ps.push(p("lat_0", pick_s(sel[4], &["40", "0", "52", "23"])));
            }
            if opt(sel[5], 60) {
                ps.push(p("lon_0", pick_s(sel[6], &lon0)));
            }
            if opt(sel[7], 40) {
                ps.push(p("x_0", pick_s(sel[8], &x0)));
            }
            if opt(sel[9], 40) {
                ps.push(p("y_0", pick_s(sel[10], &y0)));
            }
        }
        "laea" => {
            if opt(sel[0], 80) {
                ps.push(p("lat_0", pick_s(sel[1], &["52", "90", "-90", "0", "-33.5"])));
            }
            if opt(sel[2], 70) {
                ps.push(p("lon_0", pick_s(sel[3], &lon0)));
            }
            if opt(sel[4], 50) {
                ps.push(p("x_0", pick_s(sel[5], &x0)));
            }
            if opt(sel[6], 50) {
                ps.push(p("y_0", pick_s(sel[7], &y0)));
            }
        }
        "helmert" => {
            let t = ["-87", "96.5", "120", "0.0521", "-0.4", "1000"];
            ps.push(p("x", pick_s(sel[0], &t)));
            if opt(sel[1], 70) {
                ps.push(p("y", pick_s(sel[2], &t)));
            }
            if opt(sel[3], 70) {
                ps.push(p("z", pick_s(sel[4], &t)));
            }
            if opt(sel[5], 35) {
                ps.push(p("rx", pick_s(sel[6], &["0.15", "-1.2", "3"])));
                ps.push(p("rz", pick_s(sel[7], &["-0.3", "0.81", "2"])));
                ps.push(p("convention", pick_s(sel[8], &["position_vector", "coordinate_frame"])));
                if opt(sel[9], 30) {
                    ps.push(("exact".into(), None));
                }
            }
            if opt(sel[10], 40) {
                ps.push(p("s", pick_s(sel[11], &["1.2", "-3.5", "20"])));
            }
        }
        "molodensky" => {
            ps.push(p("dx", pick_s(sel[0], &["-87", "84.87", "10"])));
            ps.push(p("dy", pick_s(sel[1], &["-96", "96.49", "-5"])));
            ps.push(p("dz", pick_s(sel[2], &["-120", "116.95", "33"])));
            ps.push(p("da", pick_s(sel[3], &["251", "-251", "0"])));
            ps.push(p("df", pick_s(sel[4], &["1.41927e-05", "-1.41927e-05", "0"])));
            if opt(sel[5], 30) {
                ps.push(("abridged".into(), None));
            }
        }
        "axisswap" => ps.push(p("order", pick_s(sel[0], &["2,1", "2,1,3,4", "1,-2", "-2,1,3", "3,2,1", "2,-1,4,3", "1,2,3,4", "4,3,2,1"]))),
        "unitconvert" => {
            if opt(sel[0], 50) {
                ps.push(p("xy_in", pick_s(sel[1], &["deg", "rad", "grad"])));
                ps.push(p("xy_out", pick_s(sel[2], &["rad", "deg", "grad"])));
            } else {
                ps.push(p("xy_in", pick_s(sel[1], &["m", "km", "ft", "us-ft"])));
                ps.push(p("xy_out", pick_s(sel[2], &["km", "m", "us-ft", "yd"])));
            }
            if opt(sel[3], 40) {
                ps.push(p("z_in", pick_s(sel[4], &["m", "ft", "km"])));
                ps.push(p("z_out", pick_s(sel[5], &["ft", "m", "cm"])));
            }
        }
        _ => {}
    }
    ps
}

fn out_kind(o: &OpT, inv: bool, cur: Kind) -> Kind {
    let k = if inv { o.inp } else { o.out };
    if k == Kind::Any {
        cur
    } else {
        k
    }
}

fn build_step(r: &RawStep, cur: Kind) -> (Step, Kind) {
    let (oi, inv) = if r.typed {
        let cands: Vec<(usize, bool)> = (0..OPS.len())
            .flat_map(|i| [(i, false), (i, true)])
            .filter(|(i, inv)| {
                let need = if *inv { OPS[*i].out } else { OPS[*i].inp };
                need == Kind::Any || need == cur
            })
            .collect();
        cands[pick(r.op, cands.len())]
    } else {
        (pick(r.op, OPS.len()), r.inv)
    };
    let o = &OPS[oi];
    let name = if o.name == "noop" { pick_s(r.sel[0], &NOOPS) } else { o.name };
    let mut params = op_params(o.name, &r.sel);
    if opt(r.sel[11], 12) && o.name != "helmert" {
        params.push(p("note", pick_s(r.sel[10], &NOTES)));
    }
    // ellipsoid: mostly where it matters, sometimes where it is ignored
    let ell = if o.uses_ell || opt(r.ell.1, 15) {
        match r.ell.0 {
            0 => Ell::No,
            1 => Ell::Named(pick_s(r.ell.1, &ELLPS).to_string()),
            _ => {
                let (a, rf) = ARF[pick(r.ell.1, ARF.len())];
                Ell::ARf(a.into(), rf.into())
            }
        }
    } else {
        Ell::No
    };
    let has_lat_ts = params.iter().any(|q| q.0 == "lat_ts");
    let k = if (o.uses_k && !has_lat_ts) || opt(r.k.1, 10) {
        match r.k.0 {
            0 => KSpec::No,
            1 => KSpec::K(pick_s(r.k.1, &KVALS).to_string()),
            _ => KSpec::K0(pick_s(r.k.1, &KVALS).to_string()),
        }
    } else {
        KSpec::No
    };
    let step = Step { name: name.to_string(), params, ell, k, inv, omit_fwd: r.omit & 1 != 0, omit_inv: r.omit & 2 != 0 };
    (step, out_kind(o, inv, cur))
}

#[derive(Clone, Debug)]
struct RawPipe {
    header: bool,
    inv: bool,
    g_ell: (u8, u16),
    g_k: (u8, u16),
    globals: Vec<(u16, u16)>,
    steps: Vec<RawStep>,
    start: u8,
    wrap: Option<(u16, u16, u8)>,
}

fn raw_pipe(max_steps: usize) -> impl Strategy<Value = RawPipe> {
    (
        prop::bool::weighted(0.88),
        prop::bool::weighted(0.4),
        (prop_oneof![8 => Just(0u8), 7 => Just(1u8), 5 => Just(2u8)], any::<u16>()),
        (prop_oneof![11 => Just(0u8), 6 => Just(1u8), 3 => Just(2u8)], any::<u16>()),
        prop::collection::vec((any::<u16>(), any::<u16>()), 0..=3),
        prop::collection::vec(raw_step(), 1..=max_steps),
        0u8..3,
        prop::option::weighted(0.1, (any::<u16>(), any::<u16>(), 1u8..16)),
    )
        .prop_map(|(header, inv, g_ell, g_k, globals, steps, start, wrap)| RawPipe { header, inv, g_ell, g_k, globals, steps, start, wrap })
}

const GLOBAL_POOL: [(&str, &[&str]); 14] = [
    ("x_0", &["500000", "123.5", "-2000"]),
    ("y_0", &["10000000", "-77", "0.5"]),
    ("lon_0", &["9", "-100", "21.5"]),
    ("lat_0", &["0", "10", "45.5", "-30"]),
    ("lat_1", &["30", "45.5", "60"]),
    ("zone", &["32", "33", "1", "60"]),
    ("x", &["-87", "5"]),
    ("y", &["-96", "0.25"]),
    ("z", &["-120"]),
    ("xy_out", &["m", "km"]),
    ("order", &["2,1", "1,2,3,4", "-1,2"]),
    ("note", &["global", "step", "reproj", "inv"]),
    ("convention", &["position_vector", "coordinate_frame"]),
    ("south", &[]),
];

#[derive(Clone, Copy, Debug, Default)]
struct Excl {
    omit_noninv: bool,
    glob_tidy: bool,
    comment_plus: bool,
    tab_plus: bool,
    pushpop: bool,
    init_after_proj: bool,
    mention: bool,
}

fn build_pipe(r: &RawPipe, excl: &Excl) -> (Pipe, bool, Vec<String>) {
    let mut excluded = vec![];
    let mut cur = [Kind::Geo, Kind::Cart, Kind::Proj][r.start as usize % 3];
    let mut steps = vec![];
    for rs in &r.steps {
        let (s, k) = build_step(rs, cur);
        cur = k;
        steps.push(s);
    }
    // push/pop bracket around a sub-range (both exist in PROJ: proj=push v_1 ... proj=pop v_1)
    if let Some((a, b, mask)) = r.wrap {
        if excl.pushpop {
            excluded.push(K_PUSHPOP.to_string());
        } else {
            let i = pick(a, steps.len());
            let j = i + pick(b, steps.len() - i);
            let flags: Vec<Param> = (0..4).filter(|k| mask & (1 << k) != 0).map(|k| (format!("v_{}", k + 1), None)).collect();
            let mk = |name: &str, inv: bool| Step { name: name.into(), params: flags.clone(), ell: Ell::No, k: KSpec::No, inv, omit_fwd: false, omit_inv: false };
            // a step-level inv is kept: `pop inv` acts as a push and `push inv` as a pop, so the
            // bracket is opened by `push` or `pop inv` and closed by `pop` or `push inv`
            // (spelling taken from the low bits of the draws; the stack stays balanced)
            let closer = if b & 1 == 1 { mk("push", true) } else { mk("pop", false) };
            let opener = if a & 1 == 1 { mk("pop", true) } else { mk("push", false) };
            steps.insert(j + 1, closer);
            steps.insert(i, opener);
        }
    }
    let header = r.header;
    let mut globals: Vec<Param> = vec![];
    let mut g_ell = Ell::No;
    let mut g_k = KSpec::No;
    let mut inv = false;
    if header {
        inv = r.inv;
        for (ki, vi) in &r.globals {
            let (key, vals) = GLOBAL_POOL[pick(*ki, GLOBAL_POOL.len())];
            if globals.iter().any(|g| g.0 == key) {
                continue;
            }
            globals.push((key.to_string(), if vals.is_empty() { None } else { v(pick_s(*vi, vals)) }));
        }
        g_ell = match r.g_ell.0 {
            0 => Ell::No,
            1 => Ell::Named(pick_s(r.g_ell.1, &ELLPS).to_string()),
            _ => {
                let (a, rf) = ARF[pick(r.g_ell.1, ARF.len())];
                Ell::ARf(a.into(), rf.into())
            }
        };
        g_k = match r.g_k.0 {
            0 => KSpec::No,
            1 => KSpec::K(pick_s(r.g_k.1, &KVALS).to_string()),
            _ => KSpec::K0(pick_s(r.g_k.1, &KVALS).to_string()),
        };
        if excl.glob_tidy {
            if let Ell::ARf(_, _) = g_ell {
                g_ell = Ell::Named("intl".into());
                excluded.push(K_GLOB.to_string());
            }
            if let KSpec::K(val) = &g_k {
                g_k = KSpec::K0(val.clone());
                excluded.push(K_GLOB.to_string());
            }
        }
    }
    // omit_* only means something in a pipeline of at least two steps
    if steps.len() < 2 {
        for s in steps.iter_mut() {
            s.omit_fwd = false;
            s.omit_inv = false;
        }
    }
    let mut skip_twin = false;
    let any_omit = steps.iter().any(|s| s.omit_fwd || s.omit_inv);
    if excl.omit_noninv && any_omit {
        if !inv {
            for s in steps.iter_mut() {
                s.omit_fwd = false;
                s.omit_inv = false;
            }
            excluded.push(K_OMIT.to_string());
        } else {
            // the non-inverted twin would fall into the known class
            skip_twin = true;
            excluded.push(format!("{K_OMIT}/twin"));
        }
    }
    (Pipe { header, globals, g_ell, g_k, inv, steps }, skip_twin, excluded)
}

fn layout_strategy(excl: Excl) -> impl Strategy<Value = Layout> {
    (
        any::<u64>(),
        prop_oneof![3 => Just(0u8), 3 => Just(1u8), 3 => Just(2u8)],
        prop::bool::weighted(0.15),
        prop::bool::weighted(0.5),
        prop::bool::weighted(0.3),
        prop::bool::weighted(0.4),
        prop::bool::weighted(0.2),
        prop::bool::weighted(0.3),
        prop::bool::weighted(0.1),
    )
        .prop_map(move |(seed, plus, plus_space, shuffle, spaced_eq, newlines, tabs, comments, double_step)| Layout {
            seed,
            plus,
            plus_space,
            shuffle,
            spaced_eq,
            newlines,
            tabs,
            comments,
            double_step,
            allow_comment_nl_plus: !excl.comment_plus,
            allow_tab_plus: !excl.tab_plus,
        })
}

fn probes_strategy() -> impl Strategy<Value = Vec<P4>> {
    (
        geo_rad(85.0, 179.0),
        geo_rad(60.0, 30.0),
        (-3.0e5f64..1.2e6, -9.0e6f64..9.0e6, -100.0f64..3000.0),
        (-6.0e6f64..6.0e6, -6.0e6f64..6.0e6, -6.0e6f64..6.0e6),
        (-80.0f64..80.0, -170.0f64..170.0),
    )
        .prop_map(|(g1, g2, pr, ca, deg)| {
            vec![
                g1,
                g2,
                p4(pr.0, pr.1, pr.2, 2020.5),
                p4(ca.0, ca.1, ca.2, 2000.0),
                p4(deg.1, deg.0, 12.5, 1999.0),
                p4(0.2, 0.96, 100.0, 0.0),
                p4(691875.6, 6098907.8, 100.0, 0.0),
            ]
        })
}

fn case_strategy(max_steps: usize, excl: Excl) -> impl Strategy<Value = Case> {
    (raw_pipe(max_steps), layout_strategy(excl), probes_strategy()).prop_map(move |(rp, layout, probes)| {
        let (pipe, skip_twin, excluded) = build_pipe(&rp, &excl);
        Case { pipe, layout, probes, skip_twin, excluded }
    })
}

// ---- refusal: init= and nested pipelines ---------------------------------------------------------

#[derive(Clone, Debug, Serialize, Deserialize)]
enum Offence {
    /// an `init=` clause: group index (0 = header if any), before/after the group's proj= token
    Init { group: u16, after_proj: bool, own_step: bool, value: String },
    /// a second `proj=pipeline` clause as step number `at` (>= 1), with some content
    Nested { at: u16, inv: bool, with_steps: bool },
    /// an init clause alone, no `proj` anywhere
    InitOnly { value: String, extra: bool },
}

#[derive(Clone, Debug, Serialize, Deserialize)]
struct RefuseCase {
    pipe: Pipe,
    offence: Offence,
    plus: bool,
    excluded: Vec<String>,
}

fn render_refused(c: &RefuseCase) -> String {
    let mut gs = groups(&c.pipe);
    let pl = |t: &str| if c.plus { format!("+{t}") } else { t.to_string() };
    let header = c.pipe.header;
    match &c.offence {
        Offence::InitOnly { value, extra } => {
            let mut s = pl(&format!("init={value}"));
            if *extra {
                s.push(' ');
                s.push_str(&pl("zone=32"));
            }
            return s;
        }
        Offence::Init { group, after_proj, own_step, value } => {
            let tok = format!("init={value}");
            if *own_step {
                let at = 1 + pick(*group, gs.len()); // never in front of the header
                gs.insert(at.max(if header { 1 } else { 0 }), vec![tok]);
            } else {
                let g = pick(*group, gs.len());
                // the proj= token anywhere in its clause, the init clause somewhere before / after it
                let r = pick(group.wrapping_mul(7919), gs[g].len());
                gs[g].swap(0, r);
                let pos = if *after_proj { r + 1 + pick(group.wrapping_mul(31), gs[g].len() - r) } else { pick(group.wrapping_mul(31), r + 1) };
                gs[g].insert(pos, tok);
            }
        }
        Offence::Nested { at, inv, with_steps } => {
            let lo = 1; // group index >= 1: never the first clause
            let pos = lo + pick(*at, gs.len() + 1 - lo).min(gs.len() - lo);
            let mut inner = vec![vec!["proj=pipeline".to_string()]];
            if *inv {
                inner[0].push("inv".into());
            }
            if *with_steps {
                inner.push(vec!["proj=utm".into(), "zone=32".into()]);
                inner.push(vec!["proj=noop".into()]);
            }
            for (k, g) in inner.into_iter().enumerate() {
                gs.insert(pos + k, g);
            }
        }
    }
    let mut out = String::new();
    for (gi, g) in gs.iter().enumerate() {
        let is_first = gi == 0;
        if !is_first {
            out.push(' ');
            out.push_str(&pl("step"));
            out.push(' ');
        }
        out.push_str(&g.iter().map(|t| pl(t)).collect::<Vec<_>>().join(" "));
    }
    out
}

fn check_refused(c: &RefuseCase, rec: &mut Rec) -> CaseResult {
    let text = render_refused(c);
    for e in &c.excluded {
        rec.count("excluded_known", 1);
        rec.count(&format!("excluded_known:{e}"), 1);
    }
    let r = match guard(|| parse_proj(&text)) {
        Err(p) => vfail!(format!("panic-parse_proj@{}", p.sig()), "parse_proj({}) panics: {} at {}:{}", esc(&text), p.msg, p.file, p.line),
        Ok(r) => r,
    };
    let mut ctx = Plain::new();
    let inst = match try_op(&mut ctx, &text) {
        Err(p) => vfail!(format!("panic-instantiate@{}", p.sig()), "Plain::op({}) panics: {} at {}:{}", esc(&text), p.msg, p.file, p.line),
        Ok(r) => r,
    };
    match &c.offence {
        Offence::InitOnly { .. } => {
            // no "proj" in the text: it passes through parse_proj verbatim, the refusal comes from op()
            vensure!(inst.is_err(), "init-only-accepted", "Plain::op({}) instantiates an init clause (parse_proj -> {:?})", esc(&text), r);
            rec.class("init-only");
        }
        Offence::Init { after_proj, own_step, .. } => {
            let key = if *after_proj && !*own_step { K_INIT } else { "init-not-refused" };
            vensure!(matches!(r, Err(Error::Unsupported(_))), key, "parse_proj({}) = {:?}: an init clause must be refused with Error::Unsupported", esc(&text), r);
            vensure!(inst.is_err(), key, "Plain::op({}) instantiates a definition holding an init clause", esc(&text));
            rec.class(if *own_step { "init-own-step" } else if *after_proj { "init-after-proj" } else { "init-before-proj" });
        }
        Offence::Nested { .. } => {
            vensure!(matches!(r, Err(Error::Unsupported(_))), "nested-pipeline-not-refused", "parse_proj({}) = {:?}: a nested pipeline must be refused with Error::Unsupported", esc(&text), r);
            vensure!(inst.is_err(), "nested-pipeline-not-refused", "Plain::op({}) instantiates a nested pipeline", esc(&text));
            rec.class("nested");
        }
    }
    rec.nontrivial(&text);
    Ok(())
}

fn refuse_strategy(excl: Excl) -> impl Strategy<Value = RefuseCase> {
    let values = ["epsg:4326", "another_pipeline", "ITRF2014:ITRF2008", "foo"];
    let offence = prop_oneof![
        5 => (any::<u16>(), any::<bool>(), prop::bool::weighted(0.3), 0usize..4).prop_map(move |(group, after_proj, own_step, vi)| Offence::Init {
            group,
            after_proj,
            own_step,
            value: values[vi].to_string()
        }),
        4 => (any::<u16>(), any::<bool>(), any::<bool>()).prop_map(|(at, inv, with_steps)| Offence::Nested { at, inv, with_steps }),
        1 => (0usize..4, any::<bool>()).prop_map(move |(vi, extra)| Offence::InitOnly { value: values[vi].to_string(), extra }),
    ];
    (raw_pipe(4), offence, any::<bool>()).prop_map(move |(rp, mut offence, plus)| {
        let no = Excl::default();
        let (mut pipe, _, _) = build_pipe(&rp, &no);
        // keep the rest of the definition free of anything else that could be refused
        pipe.steps.retain(|s| s.name != "push" && s.name != "pop");
        if pipe.steps.is_empty() {
            pipe.steps.push(mkstep("noop", &[]));
        }
        let mut excluded = vec![];
        if excl.init_after_proj {
            if let Offence::Init { after_proj, own_step, .. } = &mut offence {
                if *after_proj && !*own_step {
                    *after_proj = false;
                    excluded.push(K_INIT.to_string());
                }
            }
        }
        RefuseCase { pipe, offence, plus, excluded }
    })
}

// ---- pass-through of text that is not PROJ ------------------------------------------------------

#[derive(Clone, Debug, Serialize, Deserialize)]
struct PassCase {
    text: String,
    class: String,
}

/// Geodesy rendering of a pipeline AST (the reference text) in a free layout with '|'
fn render_geodesy(pipe: &Pipe, seed: u64, comments: bool) -> String {
    let mut st = Stream(seed);
    let t = translate(pipe, Bugs::default());
    let steps: Vec<&str> = t.split(" | ").collect();
    let mut out = String::new();
    for (i, s) in steps.iter().enumerate() {
        if i > 0 {
            out.push_str(["|", " | ", "\n| ", " |\n   ", "\r\n|"][st.below(5)]);
        }
        let words: Vec<&str> = s.split(' ').collect();
        for (j, w) in words.iter().enumerate() {
            if j > 0 {
                out.push_str([" ", "  ", "\n   ", " "][st.below(4)]);
            }
            out.push_str(w);
        }
        if comments && st.chance(1, 3) {
            out.push_str(" # a projection step, proj=foo +step\n");
        }
    }
    out
}

fn pass_strategy() -> impl Strategy<Value = PassCase> {
    let unicode = "[ -~\\n\\tæøåÆØÅ₀₁₂→|]{0,60}";
    prop_oneof![
        // Geodesy pipelines (contain '|'), possibly mentioning proj in comments and values
        4 => (raw_pipe(5), any::<u64>(), any::<bool>()).prop_map(|(rp, seed, comments)| {
            let (mut pipe, _, _) = build_pipe(&rp, &Excl::default());
            if pipe.steps.len() < 2 {
                pipe.steps.push(mkstep("noop", &[("note", Some("proj"))]));
            }
            PassCase { text: render_geodesy(&pipe, seed, comments), class: "geodesy-pipeline-with-bar".into() }
        }),
        // a PROJ step glued to something by '|'
        1 => (raw_pipe(2), any::<u64>()).prop_map(|(rp, seed)| {
            let (pipe, _, _) = build_pipe(&rp, &Excl::default());
            let mut l = Layout::plain();
            l.seed = seed;
            l.plus = (seed % 3) as u8;
            PassCase { text: format!("{} | noop", render_proj(&pipe, &l)), class: "proj-text-with-bar".into() }
        }),
        // single Geodesy steps without the letters "proj"
        3 => (raw_pipe(1), any::<u64>()).prop_map(|(rp, seed)| {
            let (mut pipe, _, _) = build_pipe(&rp, &Excl::default());
            pipe.steps.truncate(1);
            pipe.steps.retain(|s| s.name != "push" && s.name != "pop");
            if pipe.steps.is_empty() {
                pipe.steps.push(mkstep("noop", &[]));
            }
            let text = render_geodesy(&pipe, seed, false).replace("proj", "prj");
            PassCase { text, class: "geodesy-single-step-no-proj".into() }
        }),
        // arbitrary text without "proj" ...
        3 => unicode.prop_map(|s| PassCase { text: s.replace("proj", "p-roj"), class: "arbitrary-no-proj".into() }),
        // ... and arbitrary text with "proj" and a '|'
        2 => (unicode, unicode).prop_map(|(a, b)| PassCase { text: format!("{a}proj={b}|{a}"), class: "arbitrary-with-bar".into() }),
    ]
}

fn check_pass(c: &PassCase, rec: &mut Rec) -> CaseResult {
    let r = match guard(|| parse_proj(&c.text)) {
        Err(p) => vfail!(format!("panic-parse_proj@{}", p.sig()), "parse_proj({}) panics: {} at {}:{}", esc(&c.text), p.msg, p.file, p.line),
        Ok(r) => r,
    };
    let in_scope = c.text.contains('|') || !c.text.contains("proj");
    vensure!(in_scope, "harness-pass-case-out-of-scope", "generator produced {} which is outside the pass-through domain", esc(&c.text));
    match r {
        Ok(out) => {
            vensure!(out == c.text, "non-proj-text-not-verbatim", "text that is not PROJ syntax was altered\ninput : {}\noutput: {}", esc(&c.text), esc(&out));
            // idempotence is then immediate, but assert it through the function anyway
            let again = guard(|| parse_proj(&out));
            vensure!(matches!(&again, Ok(Ok(a)) if *a == out), "not-idempotent", "second application differs: {} -> {:?}", esc(&out), again.map_err(|p| p.msg));
        }
        Err(e) => vfail!("non-proj-text-refused", "parse_proj({}) = Err({e:?}) for text that is not PROJ syntax", esc(&c.text)),
    }
    rec.class(&c.class);
    if c.text.contains("proj") {
        rec.class("mentions-proj");
    }
    rec.nontrivial(&c.text);
    Ok(())
}

// ---- Geodesy text that merely mentions "proj" (no '|') ----------------------------------------

#[derive(Clone, Debug, Serialize, Deserialize)]
struct MentionCase {
    text: String,
    class: String,
    probes: Vec<P4>,
}

/// Geodesy definitions without '|' (single step with the modifier in prefix/infix/suffix
/// position, or `<` / `>` separated steps) that contain the letters "proj" only in a comment
/// or a value.
fn mention_strategy(excl: Excl) -> impl Strategy<Value = MentionCase> {
    (raw_pipe(3), any::<u64>(), 0u8..3, any::<bool>(), probes_strategy()).prop_map(move |(rp, seed, form, arrows, probes)| {
        let mut st = Stream(seed);
        let (mut pipe, _, _) = build_pipe(&rp, &Excl::default());
        pipe.steps.retain(|s| s.name != "push" && s.name != "pop");
        if pipe.steps.is_empty() {
            pipe.steps.push(mkstep("noop", &[]));
        }
        pipe.inv = false;
        for s in pipe.steps.iter_mut() {
            s.omit_fwd = false;
            s.omit_inv = false;
        }
        let multi = arrows && pipe.steps.len() >= 2 && !excl.mention;
        if !multi {
            pipe.steps.truncate(1);
        }
        let t = translate(&pipe, Bugs::default());
        let mut parts = vec![];
        for s in t.split(" | ") {
            let mut words: Vec<&str> = s.split(' ').collect();
            // modifier position: infix (as written), prefix, suffix
            if let Some(i) = words.iter().position(|w| *w == "inv") {
                words.remove(i);
                match form {
                    0 => words.insert(1, "inv"),
                    1 => words.insert(0, "inv"),
                    _ => words.push("inv"),
                }
            }
            parts.push(words.join(" "));
        }
        let mut text = String::new();
        for (i, part) in parts.iter().enumerate() {
            if i > 0 {
                text.push_str([" > ", " < ", ">", "\n< "][st.below(4)]);
            }
            text.push_str(part);
        }
        let class = if multi { "arrow-pipeline" } else { "single-step" };
        // comments only in the pipeline form: a single Geodesy step does not take comments
        match (multi, st.below(3)) {
            (true, 0) => text.push_str(" # a projection"),
            (true, 1) => text = format!("# reprojected\n{text}"),
            _ => text.push_str(" desc=proj"),
        }
        MentionCase { text, class: class.into(), probes }
    })
}

fn check_mention(c: &MentionCase, rec: &mut Rec) -> CaseResult {
    vensure!(!c.text.contains('|') && c.text.contains("proj") && !c.text.contains("proj="), "harness-mention-case-out-of-scope", "generator produced {}", esc(&c.text));
    let probes = c4s(&c.probes);
    let mut plain = Plain::new();
    let mut minimal = Minimal::new();
    let lib = observe(&mut plain, &c.text, &probes)?;
    let rf = observe(&mut minimal, &c.text, &probes)?;
    if let Some(d) = differs(&lib, &rf, &probes) {
        vfail!(
            K_MENTION,
            "Geodesy text (not PROJ syntax): {}\nparse_proj -> {:?}\nPlain::op (filters through parse_proj) differs from the unfiltered definition (Minimal::op): {d}",
            esc(&c.text),
            parse_proj(&c.text)
        );
    }
    rec.class(&c.class);
    if matches!(lib, Inst::Works(_)) {
        rec.nontrivial(&c.text);
    } else {
        rec.class("both-refused");
    }
    Ok(())
}

// ---- one long-lived context, a sequence of near-duplicate definitions ---------------------------
//
// A family = one token list (PROJ pipeline AST + '+' placement + one '#' comment in front of
// the optional tail of a clause). Its variants consist of exactly the same words in the same
// order and differ only in whitespace: where the line break that ends the comment falls, hence
// how many of the words following the comment are commented out (tail parameters of the clause,
// then whole following steps). Every variant is a different, well-formed PROJ definition with
// its own hand-written counterpart. All of them go through ONE Plain context; each must behave
// as its counterpart does in a FRESH context, whatever was instantiated before, and the earlier
// handles must still behave the same at the end.

#[derive(Clone, Debug, Serialize, Deserialize)]
struct Family {
    pipe: Pipe,
    plus: u8,
    pseed: u64,
    group: u16,
    comment: Vec<String>, // empty = no comment: the variants differ in layout only
}

#[derive(Clone, Debug, Serialize, Deserialize)]
struct Variant {
    a: u16,  // how many tail tokens are dead
    b: u16,  // how many following steps are dead (only if the whole tail is)
    ws: u64, // whitespace choices
}

#[derive(Clone, Debug, Serialize, Deserialize)]
struct SeqCase {
    fams: Vec<Family>,
    items: Vec<(u16, Variant)>,
    probes: Vec<P4>,
    /// register_op calls: (in front of which item, which name)
    #[serde(default)]
    regs: Vec<(u16, u16)>,
}

// A trivial user defined operator (a cousin of the library's `addone`), registered under
// names chosen to collide textually with the definitions that follow
fn add42_fwd(_op: &Op, _ctx: &dyn Context, operands: &mut dyn CoordinateSet) -> usize {
    let n = operands.len();
    for i in 0..n {
        let mut o = operands.get_coord(i);
        o[0] += 42.;
        operands.set_coord(i, &o);
    }
    n
}
fn add42_inv(_op: &Op, _ctx: &dyn Context, operands: &mut dyn CoordinateSet) -> usize {
    let n = operands.len();
    for i in 0..n {
        let mut o = operands.get_coord(i);
        o[0] -= 42.;
        operands.set_coord(i, &o);
    }
    n
}
const ADD42_GAMUT: [OpParameter; 1] = [OpParameter::Flag { key: "inv" }];
fn add42_new(parameters: &RawParameters, ctx: &dyn Context) -> Result<Op, geodesy::Error> {
    Op::plain(parameters, InnerOp(add42_fwd), Some(InnerOp(add42_inv)), &ADD42_GAMUT, ctx)
}

/// names of the operators a Geodesy definition invokes
fn invoked_names(def: &str) -> Vec<String> {
    def.split_into_steps().iter().map(|s| s.operator_name()).collect()
}

/// A fresh Plain context for a counterpart. It knows the user defined operators registered so
/// far only if the counterpart names one of them (a user operator legitimately shadows the
/// built-in of the same name, for the PROJ text and for its counterpart alike).
fn fresh_for(reft: &str, registered: &[String]) -> (Plain, bool) {
    let mut ctx = Plain::new();
    let shadowed = invoked_names(reft).iter().any(|n| registered.contains(n));
    if shadowed {
        for r in registered {
            ctx.register_op(r, OpConstructor(add42_new));
        }
    }
    (ctx, shadowed)
}

#[derive(Clone, Debug, PartialEq)]
enum Tail {
    Global(String),
    Ell,
    K,
    Inv,
    OmitFwd,
    OmitInv,
}

/// (tokens of clause `g` that stay in front of the comment, its removable tail)
fn clause_parts(pipe: &Pipe, g: usize) -> (Vec<String>, Vec<(Tail, String)>) {
    let mut head = vec![];
    let mut tail = vec![];
    if pipe.header && g == 0 {
        head.push("proj=pipeline".to_string());
        for gl in &pipe.globals {
            tail.push((Tail::Global(gl.0.clone()), param_token(gl)));
        }
        match &pipe.g_ell {
            Ell::No => {}
            Ell::Named(n) => tail.push((Tail::Ell, format!("ellps={n}"))),
            e => head.extend(ell_tokens(e)),
        }
        if let Some(t) = k_tokens(&pipe.g_k).pop() {
            tail.push((Tail::K, t));
        }
        if pipe.inv {
            tail.push((Tail::Inv, "inv".into()));
        }
    } else {
        let st = &pipe.steps[g - pipe.header as usize];
        head.push(format!("proj={}", st.name));
        head.extend(st.params.iter().map(param_token));
        match &st.ell {
            Ell::No => {}
            Ell::Named(n) => tail.push((Tail::Ell, format!("ellps={n}"))),
            e => head.extend(ell_tokens(e)),
        }
        if let Some(t) = k_tokens(&st.k).pop() {
            tail.push((Tail::K, t));
        }
        if st.inv {
            tail.push((Tail::Inv, "inv".into()));
        }
        if st.omit_fwd {
            tail.push((Tail::OmitFwd, "omit_fwd".into()));
        }
        if st.omit_inv {
            tail.push((Tail::OmitInv, "omit_inv".into()));
        }
    }
    (head, tail)
}

/// The text of one variant and the pipeline it denotes (dead words removed from the AST)
fn render_variant(f: &Family, var: &Variant) -> (String, Pipe) {
    let pipe = &f.pipe;
    let gs = groups(pipe);
    let ng = gs.len();
    let g = pick(f.group, ng);
    let is_step = |gi: usize| !(pipe.header && gi == 0);
    let (head, tail) = clause_parts(pipe, g);
    let has_comment = !f.comment.is_empty();
    // what is dead
    let (d_tail, d_steps) = if has_comment {
        let d_tail = pick(var.a, tail.len() + 1);
        let following = ng - 1 - g;
        let max_steps = if is_step(g) { following } else { following.saturating_sub(1) };
        let d_steps = if d_tail == tail.len() { pick(var.b, max_steps + 1) } else { 0 };
        (d_tail, d_steps)
    } else {
        (0, 0)
    };
    // words in text order: (word, region) with region 0 = before the comment, 1 = dead, 2 = live rest
    let mut words: Vec<(String, u8)> = vec![];
    let push_group = |words: &mut Vec<(String, u8)>, gi: usize, toks: &[String], region: u8| {
        if is_step(gi) && !(gi == 0 && !pipe.header) {
            words.push(("step".into(), region));
        }
        for t in toks {
            words.push((t.clone(), region));
        }
    };
    for gi in 0..g {
        push_group(&mut words, gi, &gs[gi], 0);
    }
    push_group(&mut words, g, &head, 0);
    for (k, (_, t)) in tail.iter().enumerate() {
        words.push((t.clone(), if k < d_tail { 1 } else { 2 }));
    }
    for gi in g + 1..ng {
        push_group(&mut words, gi, &gs[gi], if gi - g - 1 < d_steps { 1 } else { 2 });
    }
    // the text
    let mut st = Stream(var.ws ^ 0x5E9);
    let mut fam = Stream(f.pseed ^ 0xFA);
    let glued = fam.chance(1, 4);
    let mut out = String::new();
    let mut comment_open = false; // we are on the comment's line
    let mut comment_done = !has_comment;
    for (i, (w, region)) in words.iter().enumerate() {
        let plus = match f.plus {
            0 => false,
            1 => true,
            _ => fam.chance(1, 2),
        };
        if !comment_done && *region != 0 {
            // the comment goes here: in front of the first word that is not in region 0
            out.push_str(if glued { "#" } else { [" #", "  #", "\t #"][st.below(3)] });
            for c in &f.comment {
                out.push_str([" ", "  ", " \t "][st.below(3)]);
                out.push_str(c);
            }
            comment_open = true;
            comment_done = true;
        }
        if comment_open && *region == 2 {
            out.push_str(["\n ", "\r\n   ", " \n  ", "\r "][st.below(4)]);
            comment_open = false;
        } else if i > 0 {
            if comment_open {
                out.push_str([" ", "  ", "\t ", " \t "][st.below(4)]);
            } else {
                out.push_str([" ", " ", "  ", "\t ", "\n ", "\r\n    ", "\n\n  ", " \t "][st.below(8)]);
            }
        }
        if plus {
            out.push('+');
        }
        out.push_str(w);
    }
    if !comment_done {
        // nothing follows the clause: a trailing comment
        out.push_str(if glued { "#" } else { " #" });
        for c in &f.comment {
            out.push(' ');
            out.push_str(c);
        }
    }
    if st.chance(1, 4) {
        out.push_str(["\n", " ", "\r\n"][st.below(3)]);
    }
    // the pipeline that is left
    let mut eff = pipe.clone();
    for (t, _) in tail.iter().take(d_tail) {
        if pipe.header && g == 0 {
            match t {
                Tail::Global(k) => eff.globals.retain(|gl| &gl.0 != k),
                Tail::Ell => eff.g_ell = Ell::No,
                Tail::K => eff.g_k = KSpec::No,
                Tail::Inv => eff.inv = false,
                _ => {}
            }
        } else {
            let sx = &mut eff.steps[g - pipe.header as usize];
            match t {
                Tail::Ell => sx.ell = Ell::No,
                Tail::K => sx.k = KSpec::No,
                Tail::Inv => sx.inv = false,
                Tail::OmitFwd => sx.omit_fwd = false,
                Tail::OmitInv => sx.omit_inv = false,
                Tail::Global(_) => {}
            }
        }
    }
    let first_dead_step = g + 1 - pipe.header as usize;
    eff.steps.drain(first_dead_step..first_dead_step + d_steps);
    (out, eff)
}

fn collapse(s: &str) -> String {
    s.split_whitespace().collect::<Vec<_>>().join(" ")
}

const K_CTX: &str = "context-history-changes-proj-translation";

fn check_seq(c: &SeqCase, rec: &mut Rec) -> CaseResult {
    let probes = c4s(&c.probes);
    let mut long = Plain::new();
    let mut long_min = Minimal::new();
    // (text, reference text, handle in the long-lived context, reference outcome, family)
    let mut history: Vec<(String, String, Option<OpHandle>, Inst, usize)> = vec![];
    let told = |history: &[(String, String, Option<OpHandle>, Inst, usize)]| -> String {
        history.iter().enumerate().map(|(i, h)| format!("  #{i}: {}  (counterpart {})", esc(&h.0), esc(&h.1))).collect::<Vec<_>>().join("\n")
    };
    let mut registered: Vec<String> = vec![];
    let (mut n_prefix, mut n_shadow, mut n_regs) = (0u64, 0u64, 0u64);
    for (idx, (fi, var)) in c.items.iter().enumerate() {
        let fx = pick(*fi, c.fams.len());
        let f = &c.fams[fx];
        let (text, eff) = render_variant(f, var);
        let reft = translate(&eff, Bugs::default());
        // user defined operators registered in front of this definition
        for (pos, name) in &c.regs {
            if pick(*pos, c.items.len()) != idx {
                continue;
            }
            let first_word = text.split_whitespace().next().unwrap_or("x").to_string();
            let first_op = invoked_names(&reft).first().cloned().unwrap_or_default();
            let pool: [&str; 12] = ["proj", "pro", "p", "step", "inv", "utm", "pipeline", "add42", "zz", "+proj", &first_word, &first_op];
            let name = pool[pick(*name, pool.len())].to_string();
            if name.is_empty() || name.contains(':') {
                continue;
            }
            long.register_op(&name, OpConstructor(add42_new));
            long_min.register_op(&name, OpConstructor(add42_new));
            if !registered.contains(&name) {
                registered.push(name);
            }
            n_regs += 1;
        }
        if registered.iter().any(|r| text.trim_start().starts_with(r.as_str())) {
            n_prefix += 1;
        }
        // the counterpart in a fresh context
        let (mut fresh, shadowed) = fresh_for(&reft, &registered);
        if shadowed {
            n_shadow += 1;
        }
        let rf = observe(&mut fresh, &reft, &probes)?;
        // the PROJ text in the long-lived context
        let (handle, lib) = match instantiate(&mut long, &text)? {
            Err(e) => (None, Inst::Refused(e)),
            Ok(h) => (Some(h), Inst::Works(behave(&long, h, &text, &probes)?)),
        };
        if let Some(d) = differs(&lib, &rf, &probes) {
            // is it the history, or the text itself?
            let (mut alone, _) = fresh_for(&reft, &registered);
            let solo = observe(&mut alone, &text, &probes)?;
            let key = if differs(&solo, &rf, &probes).is_none() { K_CTX } else { "translation-changes-meaning" };
            vfail!(
                key,
                "PROJ text      : {}\nparse_proj     : {:?}\ncounterpart    : {}\nin a Plain context that has instantiated {} definition(s) and registered the user operators {:?} (all the same trivial add-42 operator) before: {d}\nin a fresh Plain context{} the same text {}\nearlier in this context:\n{}",
                esc(&text),
                guard(|| parse_proj(&text)).map_err(|p| p.msg),
                esc(&reft),
                history.len(),
                registered,
                if shadowed { " (knowing the same user operators, one of which the counterpart names)" } else { " (no user operators)" },
                if key == K_CTX { "behaves as its counterpart" } else { "differs from its counterpart as well" },
                told(&history)
            );
        }
        // the Geodesy side through a long-lived Minimal context
        let m = observe(&mut long_min, &reft, &probes)?;
        if let Some(d) = differs(&m, &rf, &probes) {
            vfail!("minimal-context-history-changes-definition", "Geodesy text {} in a Minimal context with {} earlier definitions vs a fresh Plain context: {d}", esc(&reft), history.len());
        }
        history.push((text, reft, handle, rf, fx));
    }
    // earlier handles must still be what they were
    for (i, (text, reft, handle, rf, _)) in history.iter().enumerate() {
        if let (Some(h), Inst::Works(_)) = (handle, rf) {
            let again = Inst::Works(behave(&long, *h, text, &probes)?);
            if let Some(d) = differs(&again, rf, &probes) {
                vfail!("earlier-handle-changed", "handle #{i} of {} (counterpart {}) no longer behaves as it did, after {} more definitions: {d}\n{}", esc(text), esc(reft), history.len() - 1 - i, told(&history));
            }
        }
    }
    // bookkeeping: near-duplicates = same words, different operation
    let mut dup_differ = false;
    let mut dup_same = false;
    for i in 0..history.len() {
        for j in 0..i {
            if history[i].4 == history[j].4 && collapse(&history[i].0) == collapse(&history[j].0) && history[i].0 != history[j].0 {
                if history[i].1 != history[j].1 {
                    dup_differ = true;
                } else {
                    dup_same = true;
                }
            }
        }
    }
    rec.class(&format!("items={}", history.len()));
    rec.count("definitions", history.len() as u64);
    rec.count("register_op_calls", n_regs);
    rec.count("definitions_with_a_registered_name_as_text_prefix", n_prefix);
    rec.count("definitions_resolving_to_a_user_operator", n_shadow);
    if n_regs > 0 {
        rec.class("with-register_op");
    }
    if n_prefix > 0 {
        rec.class("registered-name-is-prefix-of-a-later-text");
    }
    if n_shadow > 0 {
        rec.class("user-operator-shadows-builtin");
    }
    if dup_differ {
        rec.class("same-words-different-operation");
    }
    if dup_same {
        rec.class("same-words-same-operation");
    }
    if c.fams.iter().any(|f| f.comment.is_empty()) {
        rec.class("family-without-comment");
    }
    if history.iter().any(|h| matches!(h.3, Inst::Refused(_))) {
        rec.class("some-refused");
    }
    let distinct_effects = {
        let mut v: Vec<&Inst> = vec![];
        for h in &history {
            if !v.iter().any(|x| differs(x, &h.3, &probes).is_none()) {
                v.push(&h.3);
            }
        }
        v.len()
    };
    if dup_differ && distinct_effects >= 2 {
        rec.nontrivial(&history.iter().map(|h| h.0.clone()).collect::<Vec<_>>());
    }
    Ok(())
}

fn seq_strategy() -> impl Strategy<Value = SeqCase> {
    let words = ["uses", "the", "ED50", "flavour", "back", "to", "geographical:", "step", "proj=noop", "+inv", "ellps=bessel", "note", "k=3", "##"];
    let family = (raw_pipe(4), 0u8..3, any::<u64>(), any::<u16>(), prop::collection::vec(0usize..words.len(), 0..=3), prop::bool::weighted(0.9)).prop_map(
        move |(rp, plus, pseed, group, cw, commented)| {
            // no push/pop brackets here: removing a step must not unbalance the stack
            let no_brackets = Excl { pushpop: true, ..Default::default() };
            let (pipe, _, _) = build_pipe(&rp, &no_brackets);
            let mut comment: Vec<String> = cw.iter().map(|i| words[*i].to_string()).collect();
            if commented && comment.is_empty() {
                comment.push("uses".into());
            }
            if !commented {
                comment.clear();
            }
            Family { pipe, plus, pseed, group, comment }
        },
    );
    let variant = (any::<u16>(), any::<u16>(), any::<u64>()).prop_map(|(a, b, ws)| Variant { a, b, ws });
    (
        prop::collection::vec(family, 1..=3),
        prop::collection::vec((any::<u16>(), variant), 2..=8),
        probes_strategy(),
        prop::collection::vec((any::<u16>(), any::<u16>()), 0..=3),
    )
        .prop_map(|(fams, items, probes, regs)| SeqCase { fams, items, probes, regs })
}

// ---- value spellings; special characters and keywords inside keys and values -------------------
//
// PROJ definitions carry numbers in every spelling C's strtod accepts (printf %g/%e output:
// 1e+06, 6.378137e+06, 1.5E+05; hand-written: 1e3, .5, 5., +5) and free text (grid and file
// names such as egm+96.gsb, keys such as stepsize, values such as projx). The translator treats
// '+', 'step', 'proj=', 'inv', 'init=', 'pipeline', 'omit_*', 'a=', 'rf=', 'k=' specially - as
// TOKENS. Inside a key or a value they are ordinary text and must reach the operator untouched.
//
// Two kinds of step make that observable:
// * the shared operators with their real-valued parameters respelled (same number, other
//   spelling), step-local, pipeline-global, and in the a/rf/k rewrites;
// * a user defined operator (`vprobe`, registered under several names in both contexts)
//   whose behaviour is a function of EVERY key and of the MEANING of every value it is given
//   (a value element that f64::from_str accepts counts as that number, anything else as its
//   text): an affine map whose coefficients are a hash of the parameter set. It is not
//   commutative, so step order stays observable too.
//
// Oracle: Plain::op(PROJ text) against Minimal::op(hand-written counterpart) - Minimal does not
// filter through parse_proj, so nothing the translator does can cancel. Then the counterpart is
// written once more with every number in its canonical decimal spelling (Display of
// f64::from_str of the spelling): if Geodesy's own parameter parser reads the spelling as that
// number (it does, for all classes generated here - counted as numeric-meaning-confirmed) the
// PROJ text equals that text as well; if it did not, only the same-text comparison is asserted.

const REAL_KEYS: [&str; 18] = ["x_0", "y_0", "lon_0", "lat_0", "lat_1", "lat_2", "lat_ts", "x", "y", "z", "rx", "rz", "s", "dx", "dy", "dz", "da", "df"];
const KEYWORDS: [&str; 7] = ["omit_fwd", "omit_inv", "pipeline", "step", "proj", "init", "inv"];
const PROBE_NAMES: [&str; 6] = ["vprobe", "stepper", "reproj", "xinv", "initial", "pipeliner"];
const PROBE_KEYS: [&str; 26] = [
    "tag", "size", "grids", "file", "stepsize", "step_x", "xstep", "projx", "proj_id", "reproj", "invert", "inv_x", "xinv", "initial", "init_x", "xinit", "pipeline_id",
    "xpipeline", "omit_fwd_x", "xomit_inv", "stepwise", "inverse", "projected", "a_x", "rfx", "kx",
];
const PROBE_NUMS: [&str; 12] = ["1000", "500000", "0.9996", "-87", "117.25", "0.0521", "6378137", "0", "1.41927e-05", "-0.4", "10000000", "2.5"];
const PROBE_TEXTS: [&str; 28] = [
    "ed50",
    "step",
    "stepwise",
    "quickstep",
    "nostep.gsb",
    "a+b",
    "foo+bar.gsb",
    "dir/egm+96.gsb",
    "@opt+1.gsb",
    "c++",
    "utm+zone",
    "proj",
    "projx",
    "reproj",
    "pipeline",
    "pipeline2",
    "inv",
    "invx",
    "xinv",
    "init",
    "epsg:4326",
    "ITRF2014:ITRF2008",
    "omit_fwd",
    "omit_inv",
    "x,y+z",
    "1e+3,2.5E+05",
    "6.378137e+06,298.257",
    "step+proj+inv",
];

/// a decimal literal as sign, significant digits and the position of the decimal point:
/// value = 0.DIGITS x 10^point
struct Dec {
    neg: bool,
    digits: String,
    point: i32,
}

fn parse_dec(s: &str) -> Option<Dec> {
    let (neg, body) = match s.strip_prefix('-') {
        Some(r) => (true, r),
        None => (false, s.strip_prefix('+').unwrap_or(s)),
    };
    let (mant, exp) = match body.split_once(['e', 'E']) {
        Some((m, e)) => (m, e.parse::<i32>().ok()?),
        None => (body, 0),
    };
    let (int, frac) = mant.split_once('.').unwrap_or((mant, ""));
    if int.len() + frac.len() == 0 || !int.bytes().chain(frac.bytes()).all(|b| b.is_ascii_digit()) {
        return None;
    }
    let mut digits = format!("{int}{frac}");
    let mut point = int.len() as i32 + exp;
    while digits.len() > 1 && digits.starts_with('0') {
        digits.remove(0);
        point -= 1;
    }
    while digits.len() > 1 && digits.ends_with('0') {
        digits.pop();
    }
    if digits == "0" {
        point = 1;
    }
    Some(Dec { neg, digits, point })
}

/// the digits with the decimal point after `pos` of them; `lead`: write the 0 of "0.5";
/// `trail`: what follows an integer mantissa ("", "." or ".0")
fn place_point(digits: &str, pos: i32, lead: bool, trail: &str) -> String {
    let n = digits.len() as i32;
    if pos <= 0 {
        format!("{}.{}{}", if lead { "0" } else { "" }, "0".repeat((-pos) as usize), digits)
    } else if pos >= n {
        format!("{}{}{}", digits, "0".repeat((pos - n) as usize), trail)
    } else {
        format!("{}.{}", &digits[..pos as usize], &digits[pos as usize..])
    }
}

const SPELLINGS: [&str; 11] = ["plain", "exp-bare", "exp-upper", "exp-plus", "exp-upper-plus-padded", "exp-minus", "lead-plus", "lead-plus-exp-plus", "lead-dot", "trail-dot", "decimal-zeros"];

/// The same number in another spelling. `class` indexes SPELLINGS, `var` picks among the
/// variants of a class. Falls back to the base text where a class does not apply.
fn spell(base: &str, class: usize, var: u16) -> String {
    let Some(d) = parse_dec(base) else { return base.to_string() };
    let sign = if d.neg { "-" } else { "" };
    let e1 = d.point - 1; // exponent of the form D.DDD x 10^e1
    let up = if e1 >= 1 { e1 } else { 1 + (var % 3) as i32 }; // a non-negative exponent
    let down = if e1 <= -1 { e1 } else { -(1 + (var % 3) as i32) }; // a negative exponent
    let sci = |e: i32, echar: &str, esign: &str, pad: bool, trail: &str| {
        let digits = if pad { format!("{:02}", e.abs()) } else { format!("{}", e.abs()) };
        format!("{sign}{}{echar}{}{digits}", place_point(&d.digits, d.point - e, true, trail), if e < 0 { "-" } else { esign })
    };
    let out = match class {
        1 => sci(up, "e", "", false, ""),
        2 => sci(up, "E", "", false, ""),
        3 => sci(up, "e", "+", var & 4 != 0, ""),
        4 => sci(up, "E", "+", true, if var & 4 != 0 { ".0" } else { "" }),
        5 => sci(down, if var & 8 != 0 { "E" } else { "e" }, "", var & 4 != 0, ""),
        6 if !d.neg => format!("+{}", base.trim_start_matches('+')),
        7 if !d.neg => format!("+{}", sci(up, "e", "+", var & 4 != 0, "")),
        7 => sci(up, "e", "+", var & 4 != 0, ""),
        8 => {
            let e = d.point;
            let m = format!("{sign}{}", place_point(&d.digits, 0, false, ""));
            match e {
                0 => m,
                e if e > 0 => format!("{m}e{}{e}", if var & 4 != 0 { "+" } else { "" }),
                e => format!("{m}e{e}"),
            }
        }
        9 => {
            let n = d.digits.len() as i32;
            if d.point >= n && var & 4 != 0 {
                format!("{sign}{}", place_point(&d.digits, d.point, true, ".")) // 500000.
            } else if n == 1 && e1 != 0 && var & 8 != 0 {
                format!("{sign}{}.e{e1}", d.digits) // 5.e5
            } else {
                let e = d.point - n;
                let m = format!("{sign}{}.", d.digits);
                if e == 0 {
                    m
                } else {
                    format!("{m}e{e}") // 9996.e-4
                }
            }
        }
        10 if !base.contains(['e', 'E']) => {
            let b = base.to_string();
            if b.contains('.') {
                format!("{b}0")
            } else {
                format!("{b}.{}", if var & 4 != 0 { "00" } else { "0" })
            }
        }
        _ => base.to_string(),
    };
    // a harness invariant, from IEEE/correct rounding: equal decimal reals parse to the same f64
    let (a, b) = (out.parse::<f64>(), base.parse::<f64>());
    assert!(matches!((&a, &b), (Ok(x), Ok(y)) if x.to_bits() == y.to_bits()), "harness: spelling {out:?} of {base:?} is not the same number");
    out
}

/// the number a value element spells, as f64::from_str reads it (decimal literals only)
fn num(e: &str) -> Option<f64> {
    if e.is_empty() || !e.bytes().all(|b| b.is_ascii_digit() || b"+-.eE".contains(&b)) {
        return None;
    }
    e.parse::<f64>().ok().filter(|x| x.is_finite())
}

/// the canonical decimal spelling of every element of a value that f64::from_str reads as a
/// finite number (the independent statement of what a spelling means); other text is kept
fn canonical_value(v: &str) -> String {
    v.split(',').map(|e| num(e).map(|x| format!("{x}")).unwrap_or_else(|| e.to_string())).collect::<Vec<_>>().join(",")
}

fn is_number(e: &str) -> bool {
    num(e).is_some()
}

/// what is special about a value: the spelling classes of its numeric elements and the
/// special characters / keywords inside its textual elements
fn value_classes(v: &str) -> Vec<&'static str> {
    let mut c = vec![];
    for e in v.split(',') {
        if is_number(e) {
            let t = e.trim_start_matches(['+', '-']);
            if e.contains("e+") || e.contains("E+") {
                c.push("exp-plus");
            } else if e.contains("e-") || e.contains("E-") {
                c.push("exp-minus");
            } else if e.contains(['e', 'E']) {
                c.push("exp-bare");
            }
            if e.contains('E') {
                c.push("exp-upper");
            }
            if e.starts_with('+') {
                c.push("lead-plus");
            }
            if e.starts_with('-') {
                c.push("negative");
            }
            if t.starts_with('.') {
                c.push("lead-dot");
            }
            if t.ends_with('.') || t.contains(".e") || t.contains(".E") {
                c.push("trail-dot");
            }
            if !e.contains(['e', 'E']) && e.contains('.') && e.ends_with('0') {
                c.push("decimal-zeros");
            }
        } else {
            if e.contains('+') {
                c.push("text-plus");
            }
            if e.contains(':') {
                c.push("text-colon");
            }
            if KEYWORDS.iter().any(|k| e.contains(k)) {
                c.push("text-keyword");
            }
        }
    }
    if v.contains(',') {
        c.push("list");
    }
    c.sort();
    c.dedup();
    c
}

fn key_classes(k: &str) -> Vec<&'static str> {
    if KEYWORDS.iter().any(|w| k.contains(w)) {
        vec!["key-keyword"]
    } else {
        vec![]
    }
}

/// the same value with what makes it a member of `class` removed (None = every class)
fn neutral_value(v: &str, class: Option<&str>) -> String {
    let hit = |c: &str| class.map(|x| x == c).unwrap_or(true);
    let cs = value_classes(v);
    let mut out = v.to_string();
    if cs.iter().any(|c| !c.starts_with("text-") && *c != "list" && *c != "negative" && hit(c)) {
        out = canonical_value(&out);
    }
    if cs.contains(&"text-plus") && hit("text-plus") {
        out = out.split(',').map(|e| if is_number(e) { e.to_string() } else { e.replace('+', "x") }).collect::<Vec<_>>().join(",");
    }
    if cs.contains(&"text-colon") && hit("text-colon") {
        out = out.replace(':', "_");
    }
    if cs.contains(&"text-keyword") && hit("text-keyword") {
        for k in KEYWORDS {
            out = out.replace(k, "zz");
        }
    }
    out
}

fn neutral_key(k: &str, class: Option<&str>) -> String {
    let mut out = k.to_string();
    if class.map(|c| c == "key-keyword").unwrap_or(true) {
        for w in KEYWORDS {
            out = out.replace(w, "zz");
        }
    }
    out
}

fn is_probe(name: &str) -> bool {
    PROBE_NAMES.contains(&name)
}

/// every value site of a pipeline: (site label, key, value)
fn value_sites(pipe: &Pipe) -> Vec<(&'static str, String, String)> {
    let mut out = vec![];
    let ell = |out: &mut Vec<(&'static str, String, String)>, e: &Ell, arf: &'static str, named: &'static str| match e {
        Ell::No => {}
        Ell::Named(n) => out.push((named, "ellps".to_string(), n.clone())),
        Ell::ARf(a, rf) => {
            out.push((arf, "a".to_string(), a.clone()));
            out.push((arf, "rf".to_string(), rf.clone()));
        }
    };
    for g in &pipe.globals {
        out.push(("global", g.0.clone(), g.1.clone().unwrap_or_default()));
    }
    ell(&mut out, &pipe.g_ell, "a-rf-global", "ellps-global");
    if let KSpec::K(v) | KSpec::K0(v) = &pipe.g_k {
        out.push((if matches!(pipe.g_k, KSpec::K(_)) { "k-global" } else { "k_0-global" }, "k".into(), v.clone()));
    }
    for s in &pipe.steps {
        let site = if is_probe(&s.name) { "probe-local" } else { "local" };
        for p in &s.params {
            out.push((site, p.0.clone(), p.1.clone().unwrap_or_default()));
        }
        ell(&mut out, &s.ell, "a-rf-local", "ellps-local");
        if let KSpec::K(v) | KSpec::K0(v) = &s.k {
            out.push((if matches!(s.k, KSpec::K(_)) { "k-local" } else { "k_0-local" }, "k".into(), v.clone()));
        }
    }
    out
}

/// the pipeline with every value / key mapped
fn map_pipe(pipe: &Pipe, fv: &dyn Fn(&str) -> String, fk: &dyn Fn(&str) -> String) -> Pipe {
    let ell = |e: &Ell| match e {
        Ell::No => Ell::No,
        Ell::Named(n) => Ell::Named(fv(n)),
        Ell::ARf(a, rf) => Ell::ARf(fv(a), fv(rf)),
    };
    let k = |k: &KSpec| match k {
        KSpec::No => KSpec::No,
        KSpec::K(v) => KSpec::K(fv(v)),
        KSpec::K0(v) => KSpec::K0(fv(v)),
    };
    let par = |p: &Param| (fk(&p.0), p.1.as_ref().map(|v| fv(v)));
    let mut q = pipe.clone();
    q.globals = pipe.globals.iter().map(par).collect();
    q.g_ell = ell(&pipe.g_ell);
    q.g_k = k(&pipe.g_k);
    for (s, o) in q.steps.iter_mut().zip(&pipe.steps) {
        s.params = o.params.iter().map(par).collect();
        s.ell = ell(&o.ell);
        s.k = k(&o.k);
    }
    q
}

// The probe operator: x' = x * m + o per coordinate, with (m, o) a hash of the parameter set
fn vprobe_coefficients(op: &Op) -> [(f64, f64); 4] {
    let mut h: u64 = 0xcbf29ce484222325;
    let mut fold = |bytes: &[u8]| {
        for b in bytes {
            h = (h ^ *b as u64).wrapping_mul(0x100000001b3);
        }
    };
    for (k, v) in &op.params.given {
        if ["_name", "inv", "omit_fwd", "omit_inv"].contains(&k.as_str()) {
            continue;
        }
        fold(k.as_bytes());
        fold(&[0xFF]);
        for e in v.split(',') {
            match e.trim().parse::<f64>() {
                Ok(x) => {
                    fold(b"n");
                    fold(&x.to_bits().to_le_bytes());
                }
                Err(_) => {
                    fold(b"t");
                    fold(e.as_bytes());
                }
            }
            fold(&[0xFE]);
        }
    }
    let mut st = Stream(h);
    let mut out = [(1.0, 0.0); 4];
    for o in out.iter_mut() {
        let z = st.next();
        // small enough to keep angles angles and metres metres, exact in binary
        *o = (1.0 + (z & 7) as f64 / 4096.0, (((z >> 8) & 0xFFFF) as f64 - 32768.0) / 4194304.0);
    }
    out
}
fn vprobe_fwd(op: &Op, _ctx: &dyn Context, operands: &mut dyn CoordinateSet) -> usize {
    let c = vprobe_coefficients(op);
    let n = operands.len();
    for i in 0..n {
        let mut o = operands.get_coord(i);
        for k in 0..4 {
            o[k] = o[k] * c[k].0 + c[k].1;
        }
        operands.set_coord(i, &o);
    }
    n
}
fn vprobe_inv(op: &Op, _ctx: &dyn Context, operands: &mut dyn CoordinateSet) -> usize {
    let c = vprobe_coefficients(op);
    let n = operands.len();
    for i in 0..n {
        let mut o = operands.get_coord(i);
        for k in 0..4 {
            o[k] = (o[k] - c[k].1) / c[k].0;
        }
        operands.set_coord(i, &o);
    }
    n
}
fn vprobe_new(parameters: &RawParameters, ctx: &dyn Context) -> Result<Op, geodesy::Error> {
    Op::plain(parameters, InnerOp(vprobe_fwd), Some(InnerOp(vprobe_inv)), &ADD42_GAMUT, ctx)
}
fn plain_probe() -> Plain {
    let mut c = Plain::new();
    for n in PROBE_NAMES {
        c.register_op(n, OpConstructor(vprobe_new));
    }
    c
}
fn minimal_probe() -> Minimal {
    let mut c = Minimal::new();
    for n in PROBE_NAMES {
        c.register_op(n, OpConstructor(vprobe_new));
    }
    c
}

#[derive(Clone, Debug, Serialize, Deserialize)]
struct SpellCase {
    pipe: Pipe,
    layout: Layout,
    probes: Vec<P4>,
}

/// as `evaluate`, with the probe operator known to both sides and the counterpart instantiated
/// WITHOUT the translator in front (Minimal::op)
fn evaluate_spell(pipe: &Pipe, lay: &Layout, probes: &[Coor4D]) -> Result<(Inst, Option<(String, String)>), Failure> {
    let text = render_proj(pipe, lay);
    let reft = translate(pipe, Bugs::default());
    let mut ctx = plain_probe();
    let lib = observe(&mut ctx, &text, probes)?;
    let out = match guard(|| parse_proj(&text)) {
        Err(p) => return Ok((lib, Some((format!("panic-parse_proj@{}", p.sig()), format!("parse_proj panics on a well-formed PROJ definition: {} at {}:{}", p.msg, p.file, p.line))))),
        Ok(Err(e)) => return Ok((lib, Some(("valid-proj-refused".into(), format!("a well-formed PROJ definition is refused by parse_proj: {e:?}"))))),
        Ok(Ok(o)) => o,
    };
    match guard(|| parse_proj(&out)) {
        Err(p) => return Ok((lib, Some((format!("panic-parse_proj@{}", p.sig()), format!("parse_proj panics on its own output {}: {} at {}:{}", esc(&out), p.msg, p.file, p.line))))),
        Ok(Ok(again)) if again == out => {}
        Ok(other) => return Ok((lib, Some(("not-idempotent".into(), format!("parse_proj is not idempotent: once {} twice {:?}", esc(&out), other))))),
    }
    let mut min = minimal_probe();
    let rf = observe(&mut min, &reft, probes)?;
    let d = differs(&lib, &rf, probes).map(|d| ("translation-changes-meaning".to_string(), d));
    Ok((lib, d))
}

fn check_spell(case: &SpellCase, rec: &mut Rec) -> CaseResult {
    let pipe = &case.pipe;
    let lay = &case.layout;
    let probes = c4s(&case.probes);
    let text = render_proj(pipe, lay);
    let reft = translate(pipe, Bugs::default());
    if std::env::var("C17_DUMP").is_ok() {
        eprintln!("PROJ text: {}\nparse_proj: {:?}\nreference: {}", esc(&text), guard(|| parse_proj(&text)).map_err(|p| p.msg), esc(&reft));
    }
    let sites = value_sites(pipe);
    // which classes are present, in a fixed order
    let mut present: Vec<&'static str> = sites.iter().flat_map(|(_, k, v)| value_classes(v).into_iter().chain(key_classes(k))).filter(|c| *c != "list" && *c != "negative").collect();
    present.sort();
    present.dedup();

    let report = |pipe: &Pipe, generic: String, what: String| -> CaseResult {
        // attribute: the first class whose removal from the definition (same number in canonical
        // decimal spelling / the text without the special character or keyword) restores agreement
        let mut culprit = None;
        for c in &present {
            let q = map_pipe(pipe, &|v| neutral_value(v, Some(c)), &|k| neutral_key(k, Some(c)));
            if evaluate_spell(&q, lay, &probes)?.1.is_none() {
                culprit = Some(*c);
                break;
            }
        }
        let key = match culprit {
            Some(c) => format!("value-or-key-not-kept:{c}"),
            None => generic,
        };
        let text = render_proj(pipe, lay);
        Err(Failure {
            key,
            msg: format!(
                "PROJ text     : {}\nparse_proj    : {:?}\nreference text: {} (instantiated by Minimal::op, i.e. not filtered through parse_proj; the operators {:?} are one user defined operator whose behaviour is a hash of all its keys and of the meaning of all its values)\n{what}\nattributed to : {:?} (the class of value spelling / special text whose replacement by a neutral spelling of the same meaning restores exact agreement; None = unexplained)",
                esc(&text),
                guard(|| parse_proj(&text)).map_err(|p| p.msg),
                esc(&translate(pipe, Bugs::default())),
                PROBE_NAMES,
                culprit
            ),
        })
    };

    // 1. the PROJ text against its counterpart, value texts identical
    let (lib, d) = evaluate_spell(pipe, lay, &probes)?;
    if let Some((generic, what)) = d {
        return report(pipe, generic, what);
    }
    if let Inst::Works(b) = &lib {
        vensure!(b.steps == pipe.steps.len(), "step-count", "PROJ text {} has {} steps, the library makes {} of them", esc(&text), pipe.steps.len(), b.steps);
    }
    let mut min = minimal_probe();
    let rf = observe(&mut min, &reft, &probes)?;

    // 2. the numeric meaning of the spellings: the counterpart in canonical decimal spelling
    let canon = map_pipe(pipe, &|v| canonical_value(v), &|k| k.to_string());
    let canont = translate(&canon, Bugs::default());
    let cn = observe(&mut min, &canont, &probes)?;
    let confirmed = differs(&rf, &cn, &probes).is_none();
    if confirmed {
        // Geodesy reads every spelling as the number f64::from_str reads: then so must the PROJ route
        if let Some(d) = differs(&lib, &cn, &probes) {
            return report(pipe, "value-spelling-changes-number".into(), format!("against the counterpart in canonical decimal spelling {}: {d}", esc(&canont)));
        }
        rec.class("numeric-meaning-confirmed");
    } else {
        // Geodesy's own parser reads some spelling differently (not this property's business):
        // only the same-text comparison above is asserted
        rec.class("numeric-meaning-not-confirmed-by-geodesy");
    }

    // 3. pipeline-level inv
    if pipe.header {
        let mut twin = pipe.clone();
        twin.inv = !pipe.inv;
        let (tlib, d) = evaluate_spell(&twin, lay, &probes)?;
        if let Some((generic, what)) = d {
            return report(&twin, generic, what);
        }
        if let Some(d) = not_mirrored(&tlib, &lib, &probes) {
            vfail!("pipeline-inv-not-exact-inverse", "with pipeline inv toggled: {}\nvs {}\n{d}", esc(&render_proj(&twin, lay)), esc(&text));
        }
        rec.class("twin-checked");
    }

    // bookkeeping
    for (site, k, v) in &sites {
        let vc = value_classes(v);
        if !v.is_empty() && is_number(v) && vc.iter().all(|c| *c == "negative") {
            rec.class(&format!("plain@{site}"));
        }
        for c in vc.iter().chain(key_classes(k).iter()) {
            rec.class(c);
            rec.class(&format!("{c}@{site}"));
        }
    }
    rec.class(&format!("steps={}", pipe.steps.len()));
    rec.class(match lay.plus {
        0 => "layout:no-plus",
        1 => "layout:plus-everywhere",
        _ => "layout:plus-mixed",
    });
    if lay.spaced_eq {
        rec.class("layout:blanks-around-equals");
    }
    if lay.comments && text.contains('#') {
        rec.class("layout:comments");
    }
    if pipe.steps.iter().any(|s| is_probe(&s.name)) {
        rec.class("with-probe-operator");
    }
    for s in &pipe.steps {
        rec.count(&format!("op:{}", s.name), 1);
    }
    match &lib {
        Inst::Refused(_) => rec.class("both-refused"),
        Inst::Works(b) => {
            // non-trivial: the special values matter - without the parameters that carry them the
            // operation is observably another one
            let special = |k: &str, v: &str| !key_classes(k).is_empty() || value_classes(v).iter().any(|c| *c != "negative" && *c != "list");
            let mut bare = pipe.clone();
            bare.globals.retain(|g| !special(&g.0, g.1.as_deref().unwrap_or("")));
            let strip_ell = |e: &mut Ell| {
                let sp = match &*e {
                    Ell::No => false,
                    Ell::Named(n) => special("ellps", n),
                    Ell::ARf(a, rf) => special("a", a) || special("rf", rf),
                };
                if sp {
                    *e = Ell::No;
                }
            };
            let strip_k = |k: &mut KSpec| {
                if let KSpec::K(v) | KSpec::K0(v) = &*k {
                    if special("k", v) {
                        *k = KSpec::No;
                    }
                }
            };
            strip_ell(&mut bare.g_ell);
            strip_k(&mut bare.g_k);
            for s in bare.steps.iter_mut() {
                s.params.retain(|p| !special(&p.0, p.1.as_deref().unwrap_or("")));
                strip_ell(&mut s.ell);
                strip_k(&mut s.k);
            }
            let baret = translate(&bare, Bugs::default());
            let finite = b.fwd.iter().chain(&b.inv).filter(|o| (0..4).all(|k| o[k].is_finite())).count();
            rec.count("finite_outputs", finite as u64);
            rec.count("outputs", (b.fwd.len() + b.inv.len()) as u64);
            if baret != reft {
                let bo = observe(&mut min, &baret, &probes)?;
                if differs(&bo, &rf, &probes).is_some() {
                    rec.class("special-values-observable");
                    rec.nontrivial(&(reft.clone(), text.len()));
                } else {
                    rec.class("special-values-without-effect");
                }
            } else {
                rec.class("no-special-value");
            }
        }
    }
    Ok(())
}

#[derive(Clone, Debug)]
struct RawSpell {
    rp: RawPipe,
    draws: Vec<(u16, u16, u16)>,
    probes: Vec<(u16, u16, bool, Vec<(u16, u16, u16, u16, u16)>)>,
    gextra: Vec<(u16, u16, u16, u16, u16)>,
}

/// (key, value) of one probe parameter: 45% number in some spelling, 40% text, 15% flag
fn probe_param(d: &(u16, u16, u16, u16, u16)) -> Param {
    let key = pick_s(d.0, &PROBE_KEYS).to_string();
    if opt(d.1, 45) {
        let class = if opt(d.3, 15) { 0 } else { 1 + pick(d.3, SPELLINGS.len() - 1) };
        (key, Some(spell(pick_s(d.2, &PROBE_NUMS), class, d.4)))
    } else if opt(d.1, 85) {
        (key, Some(pick_s(d.2, &PROBE_TEXTS).to_string()))
    } else {
        (key, None)
    }
}

struct Draws<'a> {
    v: &'a [(u16, u16, u16)],
    i: usize,
}
impl Draws<'_> {
    fn next(&mut self) -> (u16, u16, u16) {
        let d = self.v[self.i % self.v.len()];
        self.i += 1;
        d
    }
}
/// some spelling of the same number (30% as it is)
fn respell(v: &mut String, dr: &mut Draws) {
    let d = dr.next();
    let class = if opt(d.0, 30) { 0 } else { 1 + pick(d.1, SPELLINGS.len() - 1) };
    *v = spell(v, class, d.2);
}
fn respell_ell(e: &mut Ell, dr: &mut Draws) {
    match e {
        Ell::No => {}
        Ell::ARf(a, rf) => {
            respell(a, dr);
            respell(rf, dr);
        }
        Ell::Named(n) => {
            // sometimes the ellipsoid as the text a,rf (Geodesy syntax, legal in a PROJ text as well)
            let d = dr.next();
            if opt(d.0, 35) {
                let (a, rf) = ARF[pick(d.1, ARF.len())];
                let (mut a, mut rf) = (a.to_string(), rf.to_string());
                respell(&mut a, dr);
                respell(&mut rf, dr);
                *n = format!("{a},{rf}");
            }
        }
    }
}

fn build_spell(r: &RawSpell, excl: &Excl) -> Pipe {
    let (mut pipe, _, _) = build_pipe(&r.rp, excl);
    let mut dr = Draws { v: &r.draws, i: 0 };
    // every real-valued parameter of the shared operators in some spelling of the same number
    for g in pipe.globals.iter_mut() {
        if let (true, Some(v)) = (REAL_KEYS.contains(&g.0.as_str()), g.1.as_mut()) {
            respell(v, &mut dr);
        }
    }
    respell_ell(&mut pipe.g_ell, &mut dr);
    if let KSpec::K(v) | KSpec::K0(v) = &mut pipe.g_k {
        respell(v, &mut dr);
    }
    for s in pipe.steps.iter_mut() {
        for p in s.params.iter_mut() {
            if let (true, Some(v)) = (REAL_KEYS.contains(&p.0.as_str()), p.1.as_mut()) {
                respell(v, &mut dr);
            }
        }
        respell_ell(&mut s.ell, &mut dr);
        if let KSpec::K(v) | KSpec::K0(v) = &mut s.k {
            respell(v, &mut dr);
        }
    }
    // keys and values with special text: on the shared operators (ignored there, but the text
    // must not derail the translation), as pipeline globals, and on probe steps (observable)
    for (si, d) in r.gextra.iter().enumerate() {
        let p = probe_param(d);
        if si % 2 == 0 && pipe.header {
            if !pipe.globals.iter().any(|g| g.0 == p.0) {
                pipe.globals.push(p);
            }
        } else {
            let at = pick(d.4, pipe.steps.len());
            let s = &mut pipe.steps[at];
            if !s.params.iter().any(|q| q.0 == p.0) && s.name != "push" && s.name != "pop" {
                s.params.push(p);
            }
        }
    }
    for (pos, name, inv, ps) in &r.probes {
        let mut params: Vec<Param> = vec![];
        for d in ps {
            let p = probe_param(d);
            if !params.iter().any(|q| q.0 == p.0) {
                params.push(p);
            }
        }
        let step = Step { name: pick_s(*name, &PROBE_NAMES).to_string(), params, ell: Ell::No, k: KSpec::No, inv: *inv, omit_fwd: false, omit_inv: false };
        let at = pick(*pos, pipe.steps.len() + 1);
        pipe.steps.insert(at, step);
    }
    pipe
}

fn spell_strategy(excl: Excl) -> impl Strategy<Value = SpellCase> {
    let five = || (any::<u16>(), any::<u16>(), any::<u16>(), any::<u16>(), any::<u16>());
    let raw = (
        raw_pipe(4),
        prop::collection::vec((any::<u16>(), any::<u16>(), any::<u16>()), 16),
        prop::collection::vec((any::<u16>(), any::<u16>(), prop::bool::weighted(0.3), prop::collection::vec(five(), 1..=4)), 0..=2),
        prop::collection::vec(five(), 0..=3),
    )
        .prop_map(|(rp, draws, probes, gextra)| RawSpell { rp, draws, probes, gextra });
    (raw, layout_strategy(excl), probes_strategy()).prop_map(move |(r, layout, probes)| {
        // no omit_* here (their known classes have their own sections); brackets are kept
        let mut pipe = build_spell(&r, &excl);
        for s in pipe.steps.iter_mut() {
            s.omit_fwd = false;
            s.omit_inv = false;
        }
        SpellCase { pipe, layout, probes }
    })
}

/// the spelling generator against hand-written expectations, and the probe operator's notion
/// of a value (number = meaning, text = text)
fn selftest_spellings() {
    for (base, class, var, want) in [
        ("1000", 1, 0, "1e3"),
        ("1000", 2, 0, "1E3"),
        ("1000", 3, 0, "1e+3"),
        ("150000", 4, 4, "1.5E+05"),
        ("6378137", 3, 4, "6.378137e+06"),
        ("0.001", 5, 0, "1e-3"),
        ("500000", 5, 0, "5000000e-1"),
        ("5", 6, 0, "+5"),
        ("500000", 7, 0, "+5e+5"),
        ("0.5", 8, 0, ".5"),
        ("-0.4", 8, 0, "-.4"),
        ("5", 9, 4, "5."),
        ("500000", 9, 8, "5.e5"),
        ("0.9996", 9, 0, "9996.e-4"),
        ("297", 10, 0, "297.0"),
        ("0.9996", 3, 0, "0.09996e+1"),
        ("-87", 3, 0, "-8.7e+1"),
        ("1.41927e-05", 5, 0, "1.41927e-5"),
        ("0", 3, 0, "0.0e+1"),
    ] {
        let got = spell(base, class, var);
        assert!(got == want, "harness: spell({base:?}, {}, {var}) = {got:?}, expected {want:?}", SPELLINGS[class]);
    }
    assert!(canonical_value("6.378137e+06,298.257") == "6378137,298.257" && canonical_value("+5") == "5" && canonical_value("a+b") == "a+b" && canonical_value("inf") == "inf");
    assert!(value_classes("1.5E+05") == vec!["exp-plus", "exp-upper"] && value_classes("foo+bar.gsb") == vec!["text-plus"] && value_classes("step") == vec!["text-keyword"]);
}

// ---- main --------------------------------------------------------------------------------------

fn known_keys(root: &std::path::Path) -> BTreeSet<String> {
    let mut out = BTreeSet::new();
    for p in [root.join("known_findings.json"), root.join("known_findings.d").join("C17.json")] {
        let Ok(t) = std::fs::read_to_string(&p) else { continue };
        let Ok(val) = serde_json::from_str::<serde_json::Value>(&t) else { continue };
        let Some(list) = val.get("findings").and_then(|l| l.as_array()) else { continue };
        for f in list {
            if f.get("property").and_then(|x| x.as_str()) == Some("C17") && f.get("status").and_then(|x| x.as_str()) == Some("known") {
                if let Some(k) = f.get("key").and_then(|x| x.as_str()) {
                    out.insert(k.to_string());
                }
            }
        }
    }
    out
}

fn main() {
    let mut run = Run::init("C17");
    selftest_translator();
    selftest_spellings();
    let mut known = known_keys(&run.root);
    if std::env::var("C17_NO_EXCLUSIONS").is_ok() {
        known.clear(); // development aid: generate every class, e.g. against a patched checkout
    }
    let excl = Excl {
        omit_noninv: known.contains(K_OMIT),
        glob_tidy: known.contains(K_GLOB),
        comment_plus: known.contains(K_CPLUS),
        tab_plus: known.contains(K_TPLUS),
        pushpop: known.contains(K_PUSHPOP),
        init_after_proj: known.contains(K_INIT),
        mention: known.contains(K_MENTION),
    };
    run.note("excluded_known_classes", serde_json::json!(known.iter().collect::<Vec<_>>()));
    run.assume("the hand-written Geodesy counterpart lists every pipeline global on every step (unknown keys are ignored by Geodesy operators), step-local values win per semantic slot: ellipsoid (ellps | a+rf), scale (k | k_0), every other key by name");
    run.assume("both sides run the library's own operators: operator defects cancel, only the translation is judged; comparison is bitwise (NaN == NaN) on 7 probe tuples of mixed kinds, both directions, plus success counts and step counts");
    run.assume("not generated: PROJ ellipsoid forms other than ellps / a+rf (R, b, f, es), a or rf alone, ellps together with a/rf in the same clause, k together with k_0 in the same clause, empty steps other than a doubled `step` keyword, omit_* on single-step definitions");
    run.assume("a text holding an init clause but not the letters 'proj' passes through parse_proj verbatim (it is 'not PROJ syntax' for the detector); there only the refusal by Plain::op is asserted");

    run.assume("value-spellings: the numeric meaning of a decimal spelling is f64::from_str of it (correctly rounded, so equal decimal reals are the same f64 - asserted in the generator); the comparison with the canonically spelled counterpart is asserted only where Geodesy's own parser, on the hand-written text, agrees with that reading (counted: numeric-meaning-confirmed); '=' '#' '|' '<' '>' '$' and blanks inside values, values starting with a non-numeric '+', sexagesimal and d/m/s forms are not legal or not claimed and not generated; the probe operator reads a value element that f64::from_str accepts as that number and anything else as text, so a translator that respells a number without changing it (dropping a redundant '+') is not flagged");

    let max_steps = if run.is_thorough() { 8 } else { 6 };

    let n = run.scale(30_000, 400_000);
    run.section(
        "pipelines",
        "PROJ pipeline ASTs (typed chains 70% / arbitrary 30%) over 19 shared operator names, header/globals/ellps/a+rf/k clashes, pipeline and step inv, omit_*, push/pop brackets, rendered in random layout; compared with the independent translation (bitwise, both directions, step count), with the inverted twin, idempotence of parse_proj; classes listed as known are excluded by construction (counters excluded_known:*); non-trivial = >= 2 steps and one of {global/local clash, inv, omit_*} and a finite effect on a probe",
        n,
        move || case_strategy(max_steps, excl),
        check_pipe,
    );

    let n = run.scale(6_000, 100_000);
    run.section(
        "pipelines-unfiltered",
        "same generator with no class excluded: a failure is attributed to a known class only if emulating exactly that defect in the reference translator (or removing exactly that layout trigger) restores bit-identical agreement; anything else is reported",
        n,
        move || case_strategy(max_steps, Excl::default()),
        check_pipe,
    );

    let n = run.scale(8_000, 120_000);
    run.section(
        "refused",
        "valid PROJ definitions made refusable: an init= clause (own step / before / after the proj= token of a step or of the header) or a second proj=pipeline clause at step >= 1: parse_proj must return Error::Unsupported and Plain::op must fail; an init clause without 'proj' anywhere must fail in Plain::op",
        n,
        move || refuse_strategy(excl),
        check_refused,
    );

    let n = run.scale(12_000, 250_000);
    run.section(
        "passthrough",
        "text that is not PROJ syntax (Geodesy pipelines with '|' incl. comments/values mentioning proj, PROJ text glued with '|', single Geodesy steps, arbitrary unicode text without 'proj' or with '|'): parse_proj returns it verbatim and is idempotent",
        n,
        pass_strategy,
        check_pass,
    );

    let n = run.scale(6_000, 100_000);
    run.section(
        "geodesy-mentioning-proj",
        "Geodesy definitions without '|' (single steps with inv as prefix/infix/suffix; '<' '>' separated steps) that mention 'proj' only in a comment or value: Plain::op (which filters through parse_proj) must behave bit-identically to the unfiltered definition (Minimal::op)",
        n,
        move || mention_strategy(excl),
        check_mention,
    );

    let n = run.scale(2_500, 60_000);
    run.section(
        "context-sequences",
        "sequences of 2..8 PROJ definitions from 1..3 families through ONE Plain context, interleaved with 0..3 register_op calls of a trivial user operator under names that collide textually with what follows (proj, pro, p, step, inv, utm, pipeline, the first word of the next text, the first operator of its counterpart, unrelated names; a counterpart naming a registered operator is instantiated in a fresh context knowing the same operators, otherwise in one without any); the variants of a family are the same words in the same order and differ only in whitespace, i.e. in where the line break ending a '#' comment falls and hence which tail parameters / following steps are commented out; each is compared (bitwise behaviour, counts, ctx.steps()) with its hand-written counterpart in a FRESH context, the counterparts also go through one long-lived Minimal context, and all earlier handles are re-checked at the end; non-trivial = holds two texts of equal words denoting different operations",
        n,
        seq_strategy,
        check_seq,
    );

    let n = run.scale(8_000, 120_000);
    run.section(
        "value-spellings",
        "PROJ pipelines of 1..4 shared-operator steps plus 0..2 steps of a user defined probe operator (registered as vprobe, stepper, reproj, xinv, initial, pipeliner; an affine map whose coefficients are a hash of all its keys and of the meaning of all its values), every real-valued parameter - step-local, pipeline-global, a and rf, k and k_0, ellps=a,rf - written in one of 11 spellings of the same number (plain, 1e3, 1E3, 1e+3, 1.5E+05, 1e-3, +5, +5e+5, .5, 5., 5.0; negative values too), and keys / text values that contain what the translator treats specially as tokens ('+' inside file names and lists, ':' , step, proj, inv, init, pipeline, omit_fwd, omit_inv as substrings or whole values, keys like stepsize, projx, init_x, a_x, kx) on probe steps (observable), on shared operators (ignored there) and as globals; all layouts of the pipelines section. Plain::op(PROJ text) must behave bit for bit (both directions, counts, step count) as Minimal::op(counterpart) - not filtered through parse_proj - and, where Geodesy's parameter parser reads each spelling as f64::from_str does (class numeric-meaning-confirmed), as the counterpart in canonical decimal spelling; inverted twin; idempotence. A failure is attributed to the class whose neutral respelling restores agreement. non-trivial = removing the parameters with a non-plain spelling / special text changes the behaviour observably",
        n,
        move || spell_strategy(excl),
        check_spell,
    );

    run.finish("generated PROJ pipeline ASTs x layouts checked against an independent translator (bitwise behaviour of Plain::op(PROJ) vs Plain::op(reference), inverted twins, idempotence), plus refusal and pass-through domains; see sections");
}
