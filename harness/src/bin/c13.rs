//! C13 — projection parameters follow the common conventions; derived operators match theirs.
//!
//! Oracle: metamorphic relations between two differently parameterised instances of the
//! same projection (or of a derived operator and the operator it derives from), observed
//! through `Context::apply(Fwd)` and, mirrored, through `Context::apply(Inv)`:
//!
//!   false origin      P(x_0=a, y_0=b)(p)        = P(0,0)(p) + (a, b)
//!   central meridian  P(lon_0=L)(lam, phi)      = P(lon_0=0)(lam - L deg, phi)
//!   scale factor      P(k_0=k)(p) - FO          = k * (P(k_0=1)(p) - FO)
//!   ellipsoid scale   P(ellps=c*a,rf)(p) - FO   = c * (P(ellps=a,rf)(p) - FO)
//!   utm/butm          utm zone=Z [south]        = tmerc lon_0=6Z-183 k_0=0.9996 x_0=500000 y_0=0|1e7
//!   merc on a sphere  merc ellps=S              = webmerc ellps=S
//!   lat_ts            merc lat_ts=t             = merc k_0=cos t / sqrt(1 - e^2 sin^2 t)
//!   lcc 1SP           lcc lat_1=p               = lcc lat_1=p lat_2=p
//!   noop aliases      leave all four elements bit-identical, both directions
//!
//! Inverse direction: the plane input of the right hand instance is the forward image of a
//! generated geographic point, the plane input of the left hand instance is that image mapped
//! by the relation; the two geographic results must agree (compared as ground metres).
//!
//! Longitude presentation: every relation whose two instances are fed the SAME raw longitude (all but
//! the central-meridian ones) is also evaluated on raw longitudes outside of the nominal [-180, 180]
//! degrees: an in-domain point moved by +-1 and +-2 full turns, written 0..360 (or -360..0) style, the
//! exact raw values +-180, +-360, +-540, +-720 and free raw values out to +-720 degrees (where they name
//! a point of the domain). Both instances get the bit-identical raw value, so the relation must hold
//! within the same tolerance whether or not an operator wraps its input; periodicity itself is NOT
//! asserted (C01/C05/C14), and the lon_0 relation stays literal (no wrapping demanded).
//!
//! Only parameters listed in the gamut of the projection are used (transcribed from
//! src/inner_op/*.rs): omerc has no lon_0 (its `lonc` is checked as an extra under its own key),
//! laea has no k_0, webmerc/utm/butm take only the ellipsoid (and zone/south).

use geodesy::prelude::*;
use proptest::prelude::*;
use serde::{Deserialize, Serialize};
use std::sync::OnceLock;
use vcore::geo::*;
use vcore::*;

const EPS: f64 = f64::EPSILON;
/// plane comparison: tolerance = CP * eps * (largest magnitude taking part in the computation)
const CP: f64 = 16.0;
/// ground comparison of inverse results: tolerance = CG * eps * (plane magnitude / scale + 8a)
const CG: f64 = 64.0;
/// identical code path with identical parameter values (utm vs tmerc, lcc 1SP vs 2SP)
const TOL_IDENTICAL: f64 = 1e-9;

// ---- projections -------------------------------------------------------------------

#[derive(Clone, Copy, Debug, PartialEq, Eq, Hash, Serialize, Deserialize)]
enum Proj {
    Merc,
    Webmerc,
    Tmerc,
    Utm,
    Btmerc,
    Butm,
    Lcc,
    Laea,
    Omerc,
    Somerc,
}
use Proj::*;

impl Proj {
    fn name(self) -> &'static str {
        match self {
            Merc => "merc",
            Webmerc => "webmerc",
            Tmerc => "tmerc",
            Utm => "utm",
            Btmerc => "btmerc",
            Butm => "butm",
            Lcc => "lcc",
            Laea => "laea",
            Omerc => "omerc",
            Somerc => "somerc",
        }
    }
}

/// Parameters of one instance (besides the ellipsoid). `None` = not written in the definition.
#[derive(Clone, Debug, Default, Serialize, Deserialize)]
struct Bg {
    lat_0: Option<F>,
    lat_1: Option<F>,
    lat_2: Option<F>,
    lon_0: Option<F>,
    k_0: Option<F>,
    x_0: Option<F>,
    y_0: Option<F>,
    lat_ts: Option<F>,
    latc: Option<F>,
    lonc: Option<F>,
    alpha: Option<F>,
    gamma_c: Option<F>,
    variant: bool,
    zone: Option<u8>,
    south: bool,
}

#[derive(Clone, Debug, Serialize, Deserialize)]
enum Rel {
    FalseOrigin { x_0: F, y_0: F },
    CentralMeridian { lon_0: F, wrap: bool, explicit_zero: bool },
    /// extra: omerc's `lonc` plays the role lon_0 has elsewhere
    Lonc { lonc: F, explicit_zero: bool },
    ScaleFactor { k_0: F },
    /// left hand ellipsoid text and its semi-major axis; same flattening as the right hand one
    EllpsScale { ellps: String, a: F },
    LatTs { lat_ts: F },
    Lcc1sp,
    UtmZone { explicit_y0: bool },
    SphereWebmerc,
}

impl Rel {
    fn name(&self) -> &'static str {
        match self {
            Rel::FalseOrigin { .. } => "false-origin",
            Rel::CentralMeridian { .. } => "central-meridian",
            Rel::Lonc { .. } => "lonc-central-meridian",
            Rel::ScaleFactor { .. } => "scale-factor",
            Rel::EllpsScale { .. } => "ellps-scale",
            Rel::LatTs { .. } => "lat_ts",
            Rel::Lcc1sp => "lcc-1sp-2sp",
            Rel::UtmZone { .. } => "utm-zone",
            Rel::SphereWebmerc => "merc-sphere-webmerc",
        }
    }
}

#[derive(Clone, Debug, Serialize, Deserialize)]
struct Case {
    proj: Proj,
    /// text after `ellps=` of the right hand (reference) instance, its semi-major axis and
    /// reciprocal flattening (0 = sphere)
    ellps: String,
    a: F,
    rf: F,
    bg: Bg,
    rel: Rel,
    fwd: bool,
    /// (longitude offset from the central meridian, latitude), degrees
    pts: Vec<[F; 2]>,
    /// tuples outside of the domain (or NaN/inf) woven into the operand set of both instances; the
    /// relations are asserted on the domain points only, whatever else is in the set and wherever
    #[serde(default)]
    intruders: Vec<Intruder>,
    /// longitude presentation of point i (parallel to `pts`, missing = nominal): the raw input longitude
    /// fed, bit-identically, to both instances. Ignored by the central-meridian relations.
    #[serde(default)]
    pres: Vec<Pres>,
}

/// kind 0 = nominal (central meridian + offset; `lon` unused), otherwise `lon` is the raw longitude in degrees
#[derive(Clone, Debug, Serialize, Deserialize)]
struct Pres {
    kind: u8,
    lon: F,
}

const PRES_NAMES: [&str; 9] = ["nominal", "+1turn", "-1turn", "+2turns", "-2turns", "0..360", "exact-multiple-of-180", "free-raw-to-720", "-360..0"];
/// presented points appended to the points of every case of a same-raw-longitude relation
const NPRES: usize = 8;

fn wrap180(x: f64) -> f64 {
    x - 360.0 * (x / 360.0).round()
}

fn centre_of(proj: Proj, bg: &Bg) -> f64 {
    match proj {
        Omerc => bg.lonc.map(|f| f.0).unwrap_or(0.0),
        Utm | Butm => 6.0 * bg.zone.unwrap_or(31) as f64 - 183.0,
        _ => bg.lon_0.map(|f| f.0).unwrap_or(0.0),
    }
}

/// is (longitude offset d from the central meridian, latitude), degrees, a point of the domain the
/// generator draws from (see `point`)? The latitude is that of a generated point, i.e. in range already.
fn in_lon_domain(proj: Proj, bg: &Bg, d: f64, lat: f64) -> bool {
    let dist = |lat0: f64| -> f64 {
        vcore::refmath::great_circle(1.0, 0.0, lat0.to_radians(), d.to_radians(), lat.to_radians()).0.to_degrees()
    };
    match proj {
        Merc | Webmerc | Lcc => true,
        Tmerc | Utm => d.abs() <= 30.0,
        Btmerc | Butm => d.abs() <= 3.0,
        Laea => dist(bg.lat_0.map(|f| f.0).unwrap_or(0.0)) <= 150.0,
        Omerc => dist(bg.latc.map(|f| f.0).unwrap_or(0.0)) <= 10.0,
        Somerc => dist(bg.lat_0.map(|f| f.0).unwrap_or(0.0)) <= 10.0,
    }
}

/// Present the domain point (offset d from the central meridian, lat) with a raw longitude outside of the
/// nominal range. Returns (effective kind, offset of the presented point, raw longitude); kinds 6 and 7
/// choose the raw value first and keep it if it names a point of the domain (else: a full turn).
fn present(proj: Proj, bg: &Bg, d: f64, lat: f64, kind: u8, u: f64) -> (u8, f64, f64) {
    let centre = centre_of(proj, bg);
    let nominal = centre + d;
    let turn = |k: u8| -> (u8, f64, f64) {
        let t = [360.0, -360.0, 720.0, -720.0][(k - 1) as usize];
        (k, d, nominal + t)
    };
    let fallback = || turn(1 + (((u + 1.0) * 2.0) as u8).min(3));
    match kind {
        1..=4 => turn(kind),
        5 => {
            let w = wrap180(nominal);
            if w < 0.0 {
                (5, d, w + 360.0)
            } else {
                (8, d, w - 360.0)
            }
        }
        6 | 7 => {
            let raw = if kind == 6 {
                [180.0, -180.0, 360.0, -360.0, 540.0, -540.0, 720.0, -720.0][(((u + 1.0) * 4.0) as usize).min(7)]
            } else if (u * 1e6).round() as i64 % 2 == 0 {
                (u * 720.0).round()
            } else {
                u * 720.0
            };
            let dd = wrap180(raw - centre);
            if in_lon_domain(proj, bg, dd, lat) && (raw.abs() > 180.0 || kind == 6) {
                (kind, dd, raw)
            } else {
                fallback()
            }
        }
        _ => fallback(),
    }
}

#[derive(Clone, Debug, Serialize, Deserialize)]
struct Intruder {
    /// 0 NaN tuple, 1 infinite, 2/3 outside of the projection's domain (see `intruder_geo`, `intruder_plane`)
    kind: u8,
    /// insertion position, scaled to the length of the set at that moment (0 = first)
    pos: u16,
    u: F,
    v: F,
}

fn laea_aspect(lat_0: f64) -> &'static str {
    let t = lat_0.to_radians();
    if (t.abs() - std::f64::consts::FRAC_PI_2).abs() < 1e-10 {
        if t > 0.0 {
            "north-polar"
        } else {
            "south-polar"
        }
    } else if t.abs() < 1e-10 {
        "equatorial"
    } else {
        "oblique"
    }
}

impl Case {
    fn label(&self) -> String {
        match self.proj {
            Laea => format!("laea-{}", laea_aspect(self.bg.lat_0.map(|f| f.0).unwrap_or(0.0))),
            p => p.name().to_string(),
        }
    }
}

fn def_text(proj: Proj, ellps: &str, b: &Bg) -> String {
    let mut s = format!("{} ellps={}", proj.name(), ellps);
    let kv = |s: &mut String, k: &str, v: &Option<F>| {
        if let Some(F(v)) = v {
            s.push_str(&format!(" {k}={}", num(*v)));
        }
    };
    kv(&mut s, "lat_0", &b.lat_0);
    kv(&mut s, "lat_1", &b.lat_1);
    kv(&mut s, "lat_2", &b.lat_2);
    kv(&mut s, "latc", &b.latc);
    kv(&mut s, "lonc", &b.lonc);
    kv(&mut s, "alpha", &b.alpha);
    kv(&mut s, "gamma_c", &b.gamma_c);
    kv(&mut s, "lon_0", &b.lon_0);
    kv(&mut s, "k_0", &b.k_0);
    kv(&mut s, "lat_ts", &b.lat_ts);
    kv(&mut s, "x_0", &b.x_0);
    kv(&mut s, "y_0", &b.y_0);
    if let Some(z) = b.zone {
        s.push_str(&format!(" zone={z}"));
    }
    if b.south {
        s.push_str(" south");
    }
    if b.variant {
        s.push_str(" variant");
    }
    s
}

fn flattening(rf: f64) -> f64 {
    if rf == 0.0 {
        0.0
    } else {
        1.0 / rf
    }
}

/// k_0 equivalent of a latitude of true scale (Snyder 7-?; stated in the property)
fn k_of_lat_ts(lat_ts_deg: f64, rf: f64) -> f64 {
    let f = flattening(rf);
    let es = f * (2.0 - f);
    let (s, c) = lat_ts_deg.to_radians().sin_cos();
    c / (1.0 - es * s * s).sqrt()
}

/// the effective scale factor of an instance (for tolerances only)
fn k_eff(proj: Proj, b: &Bg, rf: f64) -> f64 {
    if matches!(proj, Utm | Butm) {
        return 0.9996;
    }
    if let Some(F(t)) = b.lat_ts {
        if t != 0.0 {
            return k_of_lat_ts(t, rf);
        }
    }
    b.k_0.map(|f| f.0).unwrap_or(1.0)
}

// ---- the plan: two definitions and the maps between their inputs and outputs -----------------

#[derive(Clone, Copy, PartialEq)]
enum Tol {
    General,
    Identical,
    /// merc vs webmerc: two different closed forms of the isometric latitude, conditioned as sec(phi)
    SphereSec,
}

struct Plan {
    def_l: String,
    def_r: String,
    /// central meridian of the left hand instance, degrees (points are offsets from it)
    centre_l: f64,
    wrap: bool,
    /// geo_r.lon = geo_l.lon - shift; inverse: lon_l = lon_r + shift (mod 2 pi)
    shift: f64,
    /// plane_l = fo_l + s * (plane_r - fo_r)
    fo_l: (f64, f64),
    fo_r: (f64, f64),
    s: f64,
    a_l: f64,
    a_r: f64,
    k_l: f64,
    k_r: f64,
    tol: Tol,
    /// the relation parameter differs from its default
    param_nontrivial: bool,
    param_print: String,
}

fn utm_false_origin(b: &Bg) -> (f64, f64) {
    (500_000.0, if b.south { 10_000_000.0 } else { 0.0 })
}

fn plan(c: &Case) -> Plan {
    let bg = &c.bg;
    let (a, rf) = (c.a.0, c.rf.0);
    let bg_fo = if matches!(c.proj, Utm | Butm) {
        utm_false_origin(bg)
    } else {
        (bg.x_0.map(|f| f.0).unwrap_or(0.0), bg.y_0.map(|f| f.0).unwrap_or(0.0))
    };
    let bg_centre = centre_of(c.proj, bg);
    let k_bg = k_eff(c.proj, bg, rf);
    let mut p = Plan {
        def_l: String::new(),
        def_r: String::new(),
        centre_l: bg_centre,
        wrap: false,
        shift: 0.0,
        fo_l: (0.0, 0.0),
        fo_r: (0.0, 0.0),
        s: 1.0,
        a_l: a,
        a_r: a,
        k_l: k_bg,
        k_r: k_bg,
        tol: Tol::General,
        param_nontrivial: true,
        param_print: String::new(),
    };
    match &c.rel {
        Rel::FalseOrigin { x_0, y_0 } => {
            let mut l = bg.clone();
            l.x_0 = Some(*x_0);
            l.y_0 = Some(*y_0);
            let mut r = bg.clone();
            r.x_0 = None;
            r.y_0 = None;
            p.def_l = def_text(c.proj, &c.ellps, &l);
            p.def_r = def_text(c.proj, &c.ellps, &r);
            p.fo_l = (x_0.0, y_0.0);
            p.param_nontrivial = x_0.0 != 0.0 || y_0.0 != 0.0;
            p.param_print = format!("{:.6e},{:.6e}", x_0.0, y_0.0);
        }
        Rel::CentralMeridian { lon_0, wrap, explicit_zero } => {
            let mut l = bg.clone();
            l.lon_0 = Some(*lon_0);
            let mut r = bg.clone();
            r.lon_0 = if *explicit_zero { Some(F(0.0)) } else { None };
            p.def_l = def_text(c.proj, &c.ellps, &l);
            p.def_r = def_text(c.proj, &c.ellps, &r);
            p.centre_l = lon_0.0;
            p.wrap = *wrap;
            p.shift = lon_0.0.to_radians();
            p.fo_l = bg_fo;
            p.fo_r = bg_fo;
            p.param_nontrivial = lon_0.0 != 0.0;
            p.param_print = format!("{:.6e}", lon_0.0);
        }
        Rel::Lonc { lonc, explicit_zero } => {
            let mut l = bg.clone();
            l.lonc = Some(*lonc);
            let mut r = bg.clone();
            r.lonc = if *explicit_zero { Some(F(0.0)) } else { None };
            p.def_l = def_text(c.proj, &c.ellps, &l);
            p.def_r = def_text(c.proj, &c.ellps, &r);
            p.centre_l = lonc.0;
            p.shift = lonc.0.to_radians();
            p.fo_l = bg_fo;
            p.fo_r = bg_fo;
            p.param_nontrivial = lonc.0 != 0.0;
            p.param_print = format!("{:.6e}", lonc.0);
        }
        Rel::ScaleFactor { k_0 } => {
            let mut l = bg.clone();
            l.k_0 = Some(*k_0);
            l.lat_ts = None;
            let mut r = bg.clone();
            r.k_0 = None;
            r.lat_ts = None;
            p.def_l = def_text(c.proj, &c.ellps, &l);
            p.def_r = def_text(c.proj, &c.ellps, &r);
            p.fo_l = bg_fo;
            p.fo_r = bg_fo;
            p.s = k_0.0;
            p.k_l = k_0.0;
            p.k_r = 1.0;
            p.param_nontrivial = k_0.0 != 1.0;
            p.param_print = format!("{:.6e}", k_0.0);
        }
        Rel::EllpsScale { ellps, a: a_l } => {
            p.def_l = def_text(c.proj, ellps, bg);
            p.def_r = def_text(c.proj, &c.ellps, bg);
            p.fo_l = bg_fo;
            p.fo_r = bg_fo;
            p.s = a_l.0 / a;
            p.a_l = a_l.0;
            p.param_nontrivial = a_l.0 != a;
            p.param_print = format!("{:.6e}", p.s);
        }
        Rel::LatTs { lat_ts } => {
            let mut l = bg.clone();
            l.k_0 = None;
            l.lat_ts = Some(*lat_ts);
            let mut r = bg.clone();
            r.lat_ts = None;
            let k = k_of_lat_ts(lat_ts.0, rf);
            r.k_0 = Some(F(k));
            p.def_l = def_text(c.proj, &c.ellps, &l);
            p.def_r = def_text(c.proj, &c.ellps, &r);
            p.fo_l = bg_fo;
            p.fo_r = bg_fo;
            p.k_l = k;
            p.k_r = k;
            p.param_nontrivial = lat_ts.0 != 0.0;
            p.param_print = format!("{:.6e}", lat_ts.0);
        }
        Rel::Lcc1sp => {
            let mut l = bg.clone();
            l.lat_2 = None;
            let mut r = bg.clone();
            r.lat_2 = bg.lat_1;
            p.def_l = def_text(c.proj, &c.ellps, &l);
            p.def_r = def_text(c.proj, &c.ellps, &r);
            p.fo_l = bg_fo;
            p.fo_r = bg_fo;
            p.tol = Tol::Identical;
            p.param_print = format!("{:.6e}", bg.lat_1.map(|f| f.0).unwrap_or(0.0));
        }
        Rel::UtmZone { explicit_y0 } => {
            let zone = bg.zone.unwrap_or(31);
            let l = Bg { zone: Some(zone), south: bg.south, ..Default::default() };
            let fo = utm_false_origin(bg);
            let r = Bg {
                lon_0: Some(F(6.0 * zone as f64 - 183.0)),
                k_0: Some(F(0.9996)),
                x_0: Some(F(500_000.0)),
                y_0: if bg.south || *explicit_y0 { Some(F(fo.1)) } else { None },
                ..Default::default()
            };
            let base = if c.proj == Utm { Tmerc } else { Btmerc };
            p.def_l = def_text(c.proj, &c.ellps, &l);
            p.def_r = def_text(base, &c.ellps, &r);
            p.fo_l = fo;
            p.fo_r = fo;
            p.tol = Tol::Identical;
            p.param_print = format!("{zone}{}", if bg.south { "S" } else { "N" });
        }
        Rel::SphereWebmerc => {
            p.def_l = def_text(Merc, &c.ellps, bg);
            p.def_r = def_text(Webmerc, &c.ellps, &Bg::default());
            p.tol = Tol::SphereSec;
            p.param_print = c.ellps.clone();
        }
    }
    p
}

// ---- registered (known) defect classes, excluded by construction while present ----------------

#[derive(Clone, Copy, Debug, Default)]
struct Reg {
    /// merc: x_0/y_0 subtracted instead of added
    merc_fo: bool,
    /// merc: lon_0 not converted to radians / subtracted in the inverse
    merc_cm: bool,
    /// laea equatorial aspect: result does not scale with the semi-major axis
    laea_eq_scale: bool,
}

impl Reg {
    fn excluded(&self, c: &Case) -> bool {
        match (&c.rel, c.proj) {
            (Rel::FalseOrigin { .. }, Merc) => self.merc_fo,
            (Rel::CentralMeridian { .. }, Merc) => self.merc_cm,
            (Rel::EllpsScale { .. }, Laea) => self.laea_eq_scale && c.label() == "laea-equatorial",
            (Rel::FalseOrigin { .. }, Laea) => self.laea_eq_scale && !c.fwd && c.label() == "laea-equatorial",
            _ => false,
        }
    }
}

// ---- the oracle -----------------------------------------------------------------------------

fn wrap_pi(d: f64) -> f64 {
    vcore::refmath::wrap_pi(d)
}

fn inst(ctx: &mut Minimal, def: &str) -> Result<Option<OpHandle>, Failure> {
    match try_op(ctx, def) {
        Err(p) => Err(Failure {
            key: format!("panic-instantiate@{}", p.sig()),
            msg: format!("instantiating '{def}' panics: {} at {}:{}", p.msg, p.file, p.line),
        }),
        Ok(Err(_)) => Ok(None),
        Ok(Ok(h)) => Ok(Some(h)),
    }
}

fn run_op(ctx: &Minimal, op: OpHandle, def: &str, fwd: bool, data: &mut Vec<Coor4D>) -> Result<usize, Failure> {
    match try_apply(ctx, op, dir_of(fwd), data) {
        Err(p) => Err(Failure {
            key: format!("panic-apply@{}", p.sig()),
            msg: format!("applying '{def}' ({}) panics: {} at {}:{}", if fwd { "fwd" } else { "inv" }, p.msg, p.file, p.line),
        }),
        Ok(Err(e)) => Err(Failure { key: "apply-error".into(), msg: format!("apply of '{def}' returned an error: {e:?}") }),
        Ok(Ok(n)) => Ok(n),
    }
}

fn xy_nan(c: &Coor4D) -> bool {
    c[0].is_nan() || c[1].is_nan()
}

/// geographic intruder as (longitude offset from the central meridian, latitude) in degrees
fn intruder_geo(case: &Case, it: &Intruder) -> (f64, f64) {
    let (u, v) = (it.u.0, it.v.0);
    match it.kind % 4 {
        0 => (f64::NAN, f64::NAN),
        1 => (if u < 0.0 { f64::NEG_INFINITY } else { f64::INFINITY }, v * 60.0),
        _ => match case.proj {
            // near the equator, 84..96 degrees from the central meridian: refused by tmerc
            Tmerc | Utm | Btmerc | Butm => (sgn(u) * (84.0 + u.abs() * 12.0), v * 3.0),
            // the pole opposite to the apex
            Lcc => (u * 170.0, -90.0 * sgn(case.bg.lat_1.map(|f| f.0).unwrap_or(1.0))),
            Merc | Webmerc => (u * 180.0, 90.0 * sgn(v)),
            // the antipode of the centre
            Laea => (180.0, -case.bg.lat_0.map(|f| f.0).unwrap_or(0.0)),
            Omerc => (sgn(u) * (100.0 + u.abs() * 70.0), case.bg.latc.map(|f| f.0).unwrap_or(0.0)),
            Somerc => (sgn(u) * (100.0 + u.abs() * 70.0), case.bg.lat_0.map(|f| f.0).unwrap_or(0.0)),
        },
    }
}

/// plane intruder for the right hand instance (the left hand one gets its image under the relation)
fn intruder_plane(p: &Plan, it: &Intruder) -> Coor4D {
    let (u, v) = (it.u.0, it.v.0);
    let r = p.a_r * p.k_r;
    match it.kind % 4 {
        0 => Coor4D([f64::NAN, f64::NAN, 0.0, 0.0]),
        1 => Coor4D([if u < 0.0 { f64::NEG_INFINITY } else { f64::INFINITY }, v * r, 0.0, 0.0]),
        // 3..4 radii east or west of the false origin: beyond the tmerc strip limit and the laea disc
        2 => Coor4D([p.fo_r.0 + sgn(u) * (3.0 + u.abs()) * r, p.fo_r.1 + v * r, 0.0, 0.0]),
        _ => Coor4D([1e30 * sgn(u), 1e30 * sgn(v), 0.0, 0.0]),
    }
}

/// Apply `op` to `data` with the intruders woven in at their positions; on return `data` holds the
/// results of its own tuples only (same order), the results of the intruders are returned.
fn apply_woven(ctx: &Minimal, op: OpHandle, def: &str, fwd: bool, data: &mut Vec<Coor4D>, intr: &[(u16, Coor4D)]) -> Result<Vec<Coor4D>, Failure> {
    if intr.is_empty() {
        run_op(ctx, op, def, fwd, data)?;
        return Ok(vec![]);
    }
    // tag: Ok(i) = own tuple i, Err(k) = intruder k
    let mut tags: Vec<Result<usize, usize>> = (0..data.len()).map(Ok).collect();
    for (k, (pos, _)) in intr.iter().enumerate() {
        let at = pick(*pos, tags.len() + 1);
        tags.insert(at, Err(k));
    }
    let mut woven: Vec<Coor4D> = tags
        .iter()
        .map(|t| match t {
            Ok(i) => data[*i],
            Err(k) => intr[*k].1,
        })
        .collect();
    run_op(ctx, op, def, fwd, &mut woven)?;
    let mut out = vec![Coor4D([f64::NAN; 4]); intr.len()];
    for (t, c) in tags.iter().zip(&woven) {
        match t {
            Ok(i) => data[*i] = *c,
            Err(k) => out[*k] = *c,
        }
    }
    Ok(out)
}

fn check_rel(case: &Case, rec: &mut Rec, reg: Reg, strict: bool) -> CaseResult {
    if !strict && reg.excluded(case) {
        rec.count("excluded_known", 1);
        return Ok(());
    }
    let p = plan(case);
    let label = case.label();
    let dirs = if case.fwd { "fwd" } else { "inv" };
    let rel = case.rel.name();
    let key = format!("{rel}@{label}/{dirs}");

    let mut ctx = Minimal::new();
    let (hl, hr) = (inst(&mut ctx, &p.def_l)?, inst(&mut ctx, &p.def_r)?);
    let (op_l, op_r) = match (hl, hr) {
        (Some(l), Some(r)) => (l, r),
        (None, None) => {
            rec.count("both_rejected", 1);
            rec.class("both-rejected");
            return Ok(());
        }
        (l, _) => vfail!(
            format!("instantiate-mismatch@{label}"),
            "'{}' {} while '{}' {}: the two spellings of the same projection must both be accepted",
            p.def_l,
            if l.is_some() { "instantiates" } else { "is rejected" },
            p.def_r,
            if l.is_some() { "is rejected" } else { "instantiates" }
        ),
    };

    // geographic inputs
    let mut geo_l: Vec<Coor4D> = Vec::with_capacity(case.pts.len());
    let mut geo_r: Vec<Coor4D> = Vec::with_capacity(case.pts.len());
    // the raw-longitude presentation applies to the relations that feed both instances the same longitude
    let same_raw = !matches!(case.rel, Rel::CentralMeridian { .. } | Rel::Lonc { .. });
    let pres_of = |i: usize| -> Option<&Pres> { case.pres.get(i).filter(|q| same_raw && q.kind != 0) };
    let pres_note = |i: usize| -> String {
        match pres_of(i) {
            Some(q) => format!(
                " [longitude presentation '{}': the raw longitude {:?} deg is fed bit-identically to both instances (nominal point: {:?} deg from the central meridian {:?})]",
                PRES_NAMES[(q.kind as usize).min(PRES_NAMES.len() - 1)], q.lon.0, case.pts[i][0].0, p.centre_l
            ),
            None => String::new(),
        }
    };
    for (i, pt) in case.pts.iter().enumerate() {
        let mut lon_deg = match pres_of(i) {
            Some(q) => q.lon.0,
            None => p.centre_l + pt[0].0,
        };
        if p.wrap {
            if lon_deg > 180.0 {
                lon_deg -= 360.0;
            } else if lon_deg < -180.0 {
                lon_deg += 360.0;
            }
        }
        let lam = lon_deg.to_radians();
        let phi = pt[1].0.to_radians();
        geo_l.push(Coor4D([lam, phi, 0.0, 0.0]));
        geo_r.push(Coor4D([lam - p.shift, phi, 0.0, 0.0]));
    }

    // tuples outside of the domain, woven into the operand sets of both instances (forward: geographic)
    let note = if case.intruders.is_empty() {
        String::new()
    } else {
        format!(
            " [operand set: the {} domain points with {} other tuple(s) woven in (kind, position/65536): {:?}; forward ones (offset from central meridian, lat) deg: {:?}]",
            case.pts.len(),
            case.intruders.len(),
            case.intruders.iter().map(|i| (i.kind % 4, i.pos)).collect::<Vec<_>>(),
            case.intruders.iter().map(|i| intruder_geo(case, i)).collect::<Vec<_>>()
        )
    };
    let (mut intr_geo_l, mut intr_geo_r) = (vec![], vec![]);
    if case.fwd {
        for it in &case.intruders {
            let (d, lat) = intruder_geo(case, it);
            let lam = (p.centre_l + d).to_radians();
            intr_geo_l.push((it.pos, Coor4D([lam, lat.to_radians(), 0.0, 0.0])));
            intr_geo_r.push((it.pos, Coor4D([lam - p.shift, lat.to_radians(), 0.0, 0.0])));
        }
    }
    let mut intruder_out: Vec<(Coor4D, Coor4D)> = vec![];

    // right hand forward image (the reference in both directions)
    let mut plane_r = geo_r.clone();
    let xr = apply_woven(&ctx, op_r, &p.def_r, true, &mut plane_r, &intr_geo_r)?;
    let identity_plane = p.s == 1.0 && p.fo_l == p.fo_r;
    let map_plane = |c: &Coor4D| -> Coor4D {
        if identity_plane {
            *c
        } else {
            Coor4D([p.fo_l.0 + p.s * (c[0] - p.fo_r.0), p.fo_l.1 + p.s * (c[1] - p.fo_r.1), c[2], c[3]])
        }
    };
    let fo_mag = p.fo_l.0.abs().max(p.fo_l.1.abs()).max(p.fo_r.0.abs()).max(p.fo_r.1.abs());
    let mut worst = 0.0f64;
    let mut offaxis = None;

    if case.fwd {
        let mut plane_l = geo_l.clone();
        let xl = apply_woven(&ctx, op_l, &p.def_l, true, &mut plane_l, &intr_geo_l)?;
        intruder_out.extend(xl.into_iter().zip(xr));
        for i in 0..geo_l.len() {
            let exp = map_plane(&plane_r[i]);
            let got = plane_l[i];
            match (xy_nan(&got), xy_nan(&plane_r[i])) {
                (true, true) => {
                    rec.count(&format!("both_nan:{label}/{dirs}"), 1);
                    continue;
                }
                (false, false) => {}
                _ => vfail!(
                    format!("nan-mismatch:{rel}@{label}/{dirs}"),
                    "{rel}: '{}' at (lon, lat) = ({:?}, {:?}) rad gives {} but '{}' at ({:?}, {:?}) gives {}: one of them is NaN{note}{}",
                    p.def_l, geo_l[i][0], geo_l[i][1], fmt_c4(&got), p.def_r, geo_r[i][0], geo_r[i][1], fmt_c4(&plane_r[i]), pres_note(i)
                ),
            }
            let err = (got[0] - exp[0]).abs().max((got[1] - exp[1]).abs());
            // magnitudes whose rounding enters: both results, the false origins, and the right hand
            // result and false origin as amplified by the factor s of the relation
            let mag = got[0].abs().max(got[1].abs()).max(exp[0].abs()).max(exp[1].abs()).max(fo_mag).max(4.0 * p.a_l * p.k_l)
                .max(p.s * plane_r[i][0].abs().max(plane_r[i][1].abs()).max(p.fo_r.0.abs()).max(p.fo_r.1.abs()));
            let tol = match p.tol {
                Tol::Identical => TOL_IDENTICAL,
                Tol::General => CP * EPS * mag,
                Tol::SphereSec => CP * EPS * mag / geo_l[i][1].cos().abs().max(1e-6),
            };
            worst = worst.max(err / tol);
            vensure!(
                err <= tol,
                key,
                "{rel} (forward): '{}' at (lon, lat) = ({:?}, {:?}) rad gives ({:?}, {:?}); expected ({:?}, {:?}) = {:?} + {:?} * ('{}' at ({:?}, {:?}) = ({:?}, {:?}) minus {:?}); difference {:.3e} m, tolerance {:.3e} m{note}{}",
                p.def_l, geo_l[i][0], geo_l[i][1], got[0], got[1], exp[0], exp[1], p.fo_l, p.s, p.def_r, geo_r[i][0], geo_r[i][1],
                plane_r[i][0], plane_r[i][1], p.fo_r, err, tol, pres_note(i)
            );
            if case.pts[i][0].0 != 0.0 && case.pts[i][1].0 != 0.0 && offaxis.is_none() {
                offaxis = Some(i);
            }
        }
    } else {
        // inverse: right hand input = its own forward image, left hand input = mapped image
        let mut in_r: Vec<Coor4D> = vec![];
        let mut in_l: Vec<Coor4D> = vec![];
        let mut idx: Vec<usize> = vec![];
        for i in 0..geo_r.len() {
            if xy_nan(&plane_r[i]) || !plane_r[i][0].is_finite() || !plane_r[i][1].is_finite() {
                rec.count(&format!("no_forward_image:{label}"), 1);
                continue;
            }
            in_r.push(plane_r[i]);
            in_l.push(map_plane(&plane_r[i]));
            idx.push(i);
        }
        let intr_r: Vec<(u16, Coor4D)> = case.intruders.iter().map(|it| (it.pos, intruder_plane(&p, it))).collect();
        let intr_l: Vec<(u16, Coor4D)> = intr_r.iter().map(|(pos, c)| (*pos, map_plane(c))).collect();
        let mut out_r = in_r.clone();
        let mut out_l = in_l.clone();
        let xr = apply_woven(&ctx, op_r, &p.def_r, false, &mut out_r, &intr_r)?;
        let xl = apply_woven(&ctx, op_l, &p.def_l, false, &mut out_l, &intr_l)?;
        intruder_out.extend(xl.into_iter().zip(xr));
        // laea compresses radially (h = cos(c/2), 0.26 at the 150 degree limit of the domain); its inverse
        // obtains the authalic latitude as asin(sin xi), conditioned as sec(lat) (see below)
        let amp = if case.proj == Laea { 8.0 } else { 1.0 };
        for j in 0..idx.len() {
            let (l, r) = (out_l[j], out_r[j]);
            match (xy_nan(&l), xy_nan(&r)) {
                (true, true) => {
                    rec.count(&format!("both_nan:{label}/{dirs}"), 1);
                    continue;
                }
                (false, false) => {}
                // laea takes asin of an argument that is exactly +-1 for the image of a pole: its last bit
                // decides between NaN and +-pi/2 (same saturation as the sec(lat) model below)
                (ln, _) if case.proj == Laea && p.tol != Tol::Identical && (if ln { r[1] } else { l[1] }).cos().abs() < 1e-6 => {
                    rec.count(&format!("pole_asin_nan_tolerated:{label}"), 1);
                    continue;
                }
                _ => vfail!(
                    format!("nan-mismatch:{rel}@{label}/{dirs}"),
                    "{rel}: '{}' inverse of {} gives {} but '{}' inverse of {} gives {}: one of them is NaN{note}{}",
                    p.def_l, fmt_c4(&in_l[j]), fmt_c4(&l), p.def_r, fmt_c4(&in_r[j]), fmt_c4(&r), pres_note(idx[j])
                ),
            }
            let dlon = wrap_pi(l[0] - (r[0] + p.shift));
            let dlat = l[1] - r[1];
            let err = p.a_r * (dlon * r[1].cos()).hypot(dlat);
            let mag = in_r[j][0].abs().max(in_r[j][1].abs()).max((in_l[j][0].abs().max(in_l[j][1].abs()).max(fo_mag)) / p.s).max(4.0 * p.a_r * p.k_r);
            let mut tol = match p.tol {
                Tol::Identical => TOL_IDENTICAL,
                _ => CG * EPS * (amp * mag / p.k_r.min(1.0) + 8.0 * p.a_r),
            };
            if case.proj == Laea && p.tol != Tol::Identical {
                // asin near +-1: rounding of the plane input moves a latitude close to a pole by eps / cos(lat)
                tol /= r[1].cos().abs().max(1e-6);
            }
            if matches!(case.proj, Somerc) {
                // the inverse iterates the latitude until two iterates differ by < 1e-10 rad
                // (contraction ~ e^2): neighbouring inputs may legitimately stop one iterate apart
                tol += 1e-5 * p.a_r / 6.4e6;
            }
            worst = worst.max(err / tol);
            vensure!(
                err <= tol,
                key,
                "{rel} (inverse): '{}' at (x, y) = ({:?}, {:?}) gives (lon, lat) = ({:?}, {:?}) rad; '{}' at ({:?}, {:?}) gives ({:?}, {:?}); expected lon_l = lon_r + {:?} (mod 2pi), lat_l = lat_r; difference {:.3e} m on the ground (dlon {:.3e} rad, dlat {:.3e} rad), tolerance {:.3e} m{note}{}",
                p.def_l, in_l[j][0], in_l[j][1], l[0], l[1], p.def_r, in_r[j][0], in_r[j][1], r[0], r[1], p.shift, err, dlon, dlat, tol, pres_note(idx[j])
            );
            let i = idx[j];
            if case.pts[i][0].0 != 0.0 && case.pts[i][1].0 != 0.0 && offaxis.is_none() {
                offaxis = Some(i);
            }
        }
    }

    rec.metric(&format!("worst err/tol {rel}@{}/{dirs}", case.proj.name()), worst);
    rec.class(&format!("{label}/{dirs}"));
    rec.count(&format!("ellps:{}", if case.ellps.contains(',') { "(a,rf)" } else { &case.ellps }), 1);
    rec.count("point_comparisons", case.pts.len() as u64);
    if !case.intruders.is_empty() {
        // nothing is asserted about the intruders themselves; their fate is recorded
        rec.count("cases_with_intruders", 1);
        if case.intruders.iter().any(|i| i.pos < 4096) {
            rec.count("cases_with_intruder_in_first_position", 1);
        }
        for (l, r) in &intruder_out {
            let k = match (xy_nan(l), xy_nan(r)) {
                (true, true) => "intruder_refused_by_both",
                (false, false) => "intruder_not_refused",
                _ => "intruder_refused_by_one",
            };
            rec.count(k, 1);
        }
    }
    {
        let (mut presented, mut outside) = (0u64, 0u64);
        for i in 0..case.pts.len() {
            if let Some(q) = pres_of(i) {
                presented += 1;
                rec.count(&format!("lonpres:{}", PRES_NAMES[(q.kind as usize).min(PRES_NAMES.len() - 1)]), 1);
                if q.lon.0.abs() > 180.0 {
                    outside += 1;
                    rec.count(&format!("lonpres_raw_outside_pm180:{rel}@{}/{dirs}", case.proj.name()), 1);
                }
            }
        }
        if presented > 0 {
            rec.count("cases_with_presented_longitudes", 1);
            rec.count("presented_longitude_points", presented);
            rec.count("presented_longitude_points_outside_pm180", outside);
        }
    }
    rec.count("exact_pole_points", case.pts.iter().filter(|p| p[1].0.abs() == 90.0).count() as u64);
    rec.count("exact_equator_points", case.pts.iter().filter(|p| p[1].0 == 0.0).count() as u64);
    rec.count("exact_central_meridian_points", case.pts.iter().filter(|p| p[0].0 == 0.0).count() as u64);
    rec.count("exact_antimeridian_points", case.pts.iter().filter(|p| p[0].0.abs() == 180.0).count() as u64);
    if p.param_nontrivial {
        if let Some(i) = offaxis {
            rec.nontrivial(&format!(
                "{rel}|{label}|{}|{dirs}|{}|{:.2}|{:.2}",
                case.ellps, p.param_print, case.pts[i][0].0, case.pts[i][1].0
            ));
        }
    }
    Ok(())
}

// ---- tables -----------------------------------------------------------------------------------

struct Tables {
    /// usable built-in ellipsoids: (name, a, rf)
    ell: Vec<(String, f64, f64)>,
    /// built-in ellipsoids that cannot even be instantiated (owned by C06): excluded, counted
    unusable: Vec<String>,
}
static TABLES: OnceLock<Tables> = OnceLock::new();
fn tables() -> &'static Tables {
    TABLES.get().expect("tables")
}

fn load_tables() -> Tables {
    let mut ell = vec![];
    let mut unusable = vec![];
    for (name, a, _ax, rf, _d) in geodesy::verif_hooks::ellipsoid_table() {
        // usable = a projection on it instantiates and applies without panic
        let ok = vcore::guard::guard(|| {
            let mut ctx = Minimal::new();
            let op = ctx.op(&format!("merc ellps={name}")).ok()?;
            let mut d = [Coor4D([0.1, 0.2, 0.0, 0.0])];
            ctx.apply(op, Fwd, &mut d).ok()?;
            Some(d[0][0].is_finite())
        });
        let parsed = (a.trim().parse::<f64>(), rf.trim().parse::<f64>());
        match (ok, parsed) {
            (Ok(Some(true)), (Ok(a), Ok(rf))) => ell.push((name.to_string(), a, rf)),
            _ => unusable.push(name.to_string()),
        }
    }
    Tables { ell, unusable }
}

// ---- generation ----------------------------------------------------------------------------------

#[derive(Clone, Copy, Debug, PartialEq)]
enum Kind {
    FO,
    CM,
    K,
    A,
    LatTs,
    Lcc1sp,
    Sphere,
}

#[derive(Clone, Debug)]
struct Raw {
    proj: u16,
    ell: u16,
    ell_kind: u8,
    a: f64,
    rf: f64,
    aspect: u8,
    u: [f64; 3],
    mask: u8,
    lon0: (u8, f64),
    k0: (u8, f64),
    fo: (u8, f64, f64),
    alpha: (u8, f64),
    gamma: (u8, f64),
    variant: bool,
    r_lon0: (u8, f64),
    r_k0: (u8, f64),
    r_fo: (u8, f64, f64),
    r_c: (u8, f64),
    r_tau: (u8, f64),
    wrap: bool,
    explicit_zero: bool,
    mix_fo: bool,
    fwd: bool,
    pts: Vec<(f64, f64, u8)>,
    /// longitude presentations of NPRES appended points: (kind selector, u, base point)
    pres: Vec<(u8, f64, u16)>,
    intr: Vec<(u8, u16, f64, f64)>,
}

fn unit() -> std::ops::Range<f64> {
    -1.0f64..1.0
}

fn raw(npts: usize) -> impl Strategy<Value = Raw> {
    (
        (any::<u16>(), any::<u16>(), 0u8..8, 1.0f64..7.0e6, 150.0f64..1000.0),
        (0u8..8, unit(), unit(), unit(), any::<u8>()),
        ((0u8..8, unit()), (0u8..8, unit()), (0u8..8, unit(), unit())),
        ((0u8..6, unit()), (0u8..4, unit()), any::<bool>()),
        ((0u8..8, unit()), (0u8..8, unit()), (0u8..8, unit(), unit()), (0u8..8, unit()), (0u8..8, unit())),
        (any::<bool>(), any::<bool>(), any::<bool>(), any::<bool>()),
        (prop::collection::vec((unit(), unit(), 0u8..12), npts), prop::collection::vec((1u8..8, unit(), any::<u16>()), NPRES)),
        // 0..3 tuples from outside of the domain, at any position of the operand set (weighted to the front)
        prop::collection::vec((0u8..4, prop_oneof![1 => Just(0u16), 3 => any::<u16>()], unit(), unit()), 0..4),
    )
        .prop_map(|(e, b, g, o, r, f, pts, intr)| Raw {
            proj: e.0,
            ell: e.1,
            ell_kind: e.2,
            a: e.3,
            rf: e.4,
            aspect: b.0,
            u: [b.1, b.2, b.3],
            mask: b.4,
            lon0: g.0,
            k0: g.1,
            fo: g.2,
            alpha: o.0,
            gamma: o.1,
            variant: o.2,
            r_lon0: r.0,
            r_k0: r.1,
            r_fo: r.2,
            r_c: r.3,
            r_tau: r.4,
            wrap: f.0,
            explicit_zero: f.1,
            mix_fo: f.2,
            fwd: f.3,
            pts: pts.0,
            pres: pts.1,
            intr,
        })
}

fn sgn(u: f64) -> f64 {
    if u < 0.0 {
        -1.0
    } else {
        1.0
    }
}

fn lon0_val((kind, u): (u8, f64)) -> f64 {
    match kind {
        0 => 180.0 * sgn(u),
        1 => (u * 180.0).round(),
        2 => u * 1e-3,
        3 => (u * 180.0e4).round() / 1e4,
        _ => u * 180.0,
    }
}

fn k0_val((kind, u): (u8, f64)) -> f64 {
    match kind {
        0 => 0.9996,
        1 => 0.9999,
        2 => 1.0 + u * 1e-4,
        _ => 0.5 + (u + 1.0) * 0.75,
    }
}

fn fo_val((kind, u, v): (u8, f64, f64)) -> (f64, f64) {
    match kind {
        0 => (500_000.0, 0.0),
        1 => (500_000.0, 10_000_000.0),
        2 => (u * 1e3, v * 1e3),
        3 => ((u * 2e7).round(), (v * 2e7).round()),
        4 => (0.0, v * 1e6),
        5 => (u * 1e6, 0.0),
        _ => (u * 2e7, v * 2e7),
    }
}

fn tau_val((kind, u): (u8, f64)) -> f64 {
    match kind {
        0 => 56.0 * sgn(u),
        1 => (u * 89.0).round(),
        _ => u * 89.0,
    }
}

/// (dlon, lat) in degrees of the point at `dist` degrees along azimuth `az` degrees from (0, lat0)
fn offset(lat0: f64, dist: f64, az: f64) -> (f64, f64) {
    let (lon, lat) = vcore::refmath::great_circle_direct(1.0, 0.0, lat0.to_radians(), az.to_radians(), dist.to_radians());
    (lon.to_degrees(), lat.to_degrees())
}

/// map (u, v, special) to a point of the projection's documented domain
fn point(proj: Proj, bg: &Bg, (u, v, s): (f64, f64, u8)) -> [F; 2] {
    let (u, v) = match s {
        0 => (0.0, v),
        2 => (sgn(u), v),
        3 => (u, sgn(v)),
        _ => (u, v),
    };
    let on_equator = s == 1;
    let (d, phi) = match proj {
        Merc | Webmerc => (u * 180.0, if on_equator { 0.0 } else if s == 3 { v * 89.9 } else { v * 89.0 }),
        Tmerc | Utm => (u * 30.0, if on_equator { 0.0 } else { v * 89.0 }),
        Btmerc | Butm => (u * 3.0, if on_equator { 0.0 } else { v * 85.0 }),
        Lcc => {
            let sign = sgn(bg.lat_1.map(|f| f.0).unwrap_or(1.0));
            (u * 170.0, if on_equator { 0.0 } else { sign * (-75.0 + (v + 1.0) * 0.5 * 164.5) })
        }
        Laea => offset(bg.lat_0.map(|f| f.0).unwrap_or(0.0), u.abs() * 150.0, v * 180.0),
        Omerc => offset(bg.latc.map(|f| f.0).unwrap_or(0.0), u.abs() * 10.0, v * 180.0),
        Somerc => offset(bg.lat_0.map(|f| f.0).unwrap_or(0.0), u.abs() * 10.0, v * 180.0),
    };
    [F(d), F(phi)]
}

/// Exact boundary points of the domain, (longitude offset, latitude) in degrees: latitude exactly
/// +-90 where a finite image exists (lcc apex pole, tmerc/utm/btmerc/butm poles, laea poles within its
/// 150 degree disc, the centre of the polar laea), the opposite pole of lcc (NaN on both sides), latitude
/// exactly 0 and -0, longitude exactly on the central meridian, and lon_0 +- 180 where the projection is
/// defined there. `dr`, `pr`: a generic longitude offset and latitude of the domain.
fn boundary_points(proj: Proj, bg: &Bg, dr: f64, pr: f64) -> Vec<[F; 2]> {
    let dist = |lat0: f64, d: f64, phi: f64| -> f64 {
        vcore::refmath::great_circle(1.0, 0.0, lat0.to_radians(), d.to_radians(), phi.to_radians()).0.to_degrees()
    };
    let mut v: Vec<(f64, f64)> = vec![];
    match proj {
        Merc | Webmerc => {
            // no finite image of the poles
            v.extend([(dr, 0.0), (dr, -0.0), (0.0, pr), (0.0, 0.0), (180.0, pr), (-180.0, pr), (180.0, -0.0)]);
        }
        Tmerc | Utm | Btmerc | Butm => {
            v.extend([(dr, 90.0), (dr, -90.0), (0.0, 90.0), (0.0, -90.0), (dr, 0.0), (dr, -0.0), (0.0, pr), (0.0, -0.0)]);
        }
        Lcc => {
            let sign = sgn(bg.lat_1.map(|f| f.0).unwrap_or(1.0));
            v.extend([
                (dr, sign * 90.0),
                (0.0, sign * 90.0),
                (180.0, sign * 90.0),
                (dr, -sign * 90.0), // opposite pole: NaN, on both sides
                (dr, 0.0),
                (dr, -0.0),
                (0.0, pr),
                (180.0, pr),
                (-180.0, pr),
            ]);
        }
        Laea => {
            let lat0 = bg.lat_0.map(|f| f.0).unwrap_or(0.0);
            let cand = [
                (0.0, lat0), // the centre (a pole for the polar aspects)
                (dr, 90.0),
                (dr, -90.0),
                (dr.clamp(-90.0, 90.0), 0.0),
                (dr.clamp(-90.0, 90.0), -0.0),
                (0.0, pr),
                (180.0, pr),
                (-180.0, pr),
                (180.0, 90.0 * sgn(lat0)),
            ];
            for c in cand {
                if dist(lat0, c.0, c.1) <= 150.0 {
                    v.push(c);
                }
            }
        }
        Omerc => {
            let latc = bg.latc.map(|f| f.0).unwrap_or(0.0);
            v.extend([(0.0, latc), (dr, latc), (0.0, pr)]);
            if latc.abs() <= 10.0 {
                v.extend([(dr, 0.0), (dr, -0.0)]);
            }
        }
        Somerc => {
            let lat0 = bg.lat_0.map(|f| f.0).unwrap_or(0.0);
            v.extend([(0.0, lat0), (dr, lat0), (0.0, pr)]);
            if lat0.abs() <= 10.0 {
                v.extend([(dr, 0.0), (dr, -0.0), (0.0, -0.0)]);
            }
        }
    }
    v.into_iter().map(|(d, p)| [F(d), F(p)]).collect()
}

/// Overwrite the leading points of a case with exact boundary points: the first of the list (for lcc the
/// apex pole) always, then `extra` more, cycling through the list from `start`
fn place_boundaries(pts: &mut [[F; 2]], list: &[[F; 2]], start: usize, extra: usize) {
    if list.is_empty() || pts.is_empty() {
        return;
    }
    pts[0] = list[0];
    for i in 0..extra.min(pts.len().saturating_sub(1)).min(list.len()) {
        pts[1 + i] = list[(start + i) % list.len()];
    }
}

fn projs_for(kind: Kind, reg: Reg) -> Vec<Proj> {
    let mut v = match kind {
        Kind::FO => vec![Merc, Tmerc, Btmerc, Lcc, Laea, Omerc, Somerc],
        Kind::CM => vec![Merc, Tmerc, Btmerc, Lcc, Laea, Somerc, Omerc],
        Kind::K => vec![Merc, Tmerc, Btmerc, Lcc, Omerc, Somerc],
        Kind::A => vec![Merc, Webmerc, Tmerc, Utm, Btmerc, Butm, Lcc, Laea, Omerc, Somerc],
        Kind::LatTs | Kind::Sphere => vec![Merc],
        Kind::Lcc1sp => vec![Lcc],
    };
    v.retain(|p| !((kind == Kind::FO && *p == Merc && reg.merc_fo) || (kind == Kind::CM && *p == Merc && reg.merc_cm)));
    v
}

#[derive(Clone, Copy, Debug)]
struct Force {
    proj: Proj,
    /// laea aspect selector (see `bg_for`)
    aspect: Option<u8>,
    fwd: bool,
}

/// background parameters: every parameter of the gamut that is not the subject of the relation
fn bg_for(proj: Proj, r: &Raw, reg: Reg, aspect: u8) -> Bg {
    let mut b = Bg::default();
    let has = |bit: u8| r.mask & (1 << bit) != 0;
    let fo = fo_val(r.fo);
    let set_common = |b: &mut Bg, lon: bool, k: bool, fo_ok: bool| {
        if lon && has(0) {
            b.lon_0 = Some(F(lon0_val(r.lon0)));
        }
        if k && has(1) {
            b.k_0 = Some(F(k0_val(r.k0)));
        }
        if fo_ok && has(2) {
            b.x_0 = Some(F(fo.0));
            b.y_0 = Some(F(fo.1));
        }
    };
    match proj {
        Merc => {
            // lat_0 of merc is given no meaning by the property: never used
            set_common(&mut b, !reg.merc_cm, false, !reg.merc_fo);
            match aspect % 3 {
                1 => b.k_0 = Some(F(k0_val(r.k0))),
                2 => b.lat_ts = Some(F(sgn(r.u[0]) * (1.0 + r.u[0].abs() * 84.0))),
                _ => {}
            }
        }
        Webmerc => {}
        Tmerc => {
            set_common(&mut b, true, true, true);
            if has(3) {
                b.lat_0 = Some(F(r.u[0] * 80.0));
            }
        }
        Btmerc => {
            // lat_0 only as a background parameter (same on both sides); its meaning belongs to C01/C14
            set_common(&mut b, true, true, true);
            if has(3) {
                b.lat_0 = Some(F(r.u[0] * 80.0));
            }
        }
        Utm | Butm => {
            b.zone = Some(1 + pick(r.ell.wrapping_mul(31).wrapping_add(r.proj), 60) as u8);
            b.south = r.variant;
        }
        Lcc => {
            set_common(&mut b, true, true, true);
            let sign = sgn(r.u[0]);
            b.lat_1 = Some(F(sign * (1.0 + r.u[0].abs() * 85.0)));
            if has(4) {
                b.lat_2 = Some(F(sign * (1.0 + r.u[1].abs() * 85.0)));
            }
            if has(3) {
                b.lat_0 = Some(F(sign * r.u[2].abs() * 85.0));
            }
        }
        Laea => {
            set_common(&mut b, true, false, true);
            b.lat_0 = Some(F(match aspect {
                0 => 90.0,
                1 => -90.0,
                2 => 0.0,
                _ => sgn(r.u[0]) * (1.0 + r.u[0].abs() * 88.0),
            }));
        }
        Omerc => {
            set_common(&mut b, false, true, true);
            if has(0) {
                b.lonc = Some(F(lon0_val(r.lon0)));
            }
            b.latc = Some(F(sgn(r.u[0]) * (2.0 + r.u[0].abs() * 68.0)));
            let alpha = if r.alpha.0 == 0 { 90.0 } else { 90.0 + r.alpha.1 * 89.0 };
            b.alpha = Some(F(alpha));
            if r.gamma.0 != 0 {
                b.gamma_c = Some(F(alpha + r.gamma.1 * 10.0));
            }
            b.variant = r.variant;
        }
        Somerc => {
            set_common(&mut b, true, true, true);
            if has(3) {
                b.lat_0 = Some(F(r.u[0] * 70.0));
            }
        }
    }
    b
}

fn numeric_ellps(a: f64, rf: f64) -> String {
    format!("{},{}", num(a), num(rf))
}

fn build(kind: Kind, r: &Raw, reg: Reg, force: Option<Force>) -> Case {
    let t = tables();
    let projs = projs_for(kind, reg);
    let proj = force.map(|f| f.proj).unwrap_or_else(|| projs[pick(r.proj, projs.len())]);
    let mut aspect = force.and_then(|f| f.aspect).unwrap_or(r.aspect);
    let fwd = force.map(|f| f.fwd).unwrap_or(r.fwd);
    if force.is_none() && proj == Laea && reg.laea_eq_scale && aspect == 2 && (kind == Kind::A || (kind == Kind::FO && !fwd)) {
        // equatorial laea excluded by construction while the registered defect is present: its easting is
        // cos(xi) sin(dlon) / Rq ~ 1e-7 m instead of ~ 1e6 m and goes with 1/a (the northing scales
        // correctly). With a false origin the inverse loses every digit of x to the addition of x_0,
        // which is a consequence of that defect, not of the x_0 handling
        aspect = 3;
    }
    let mut bg = bg_for(proj, r, reg, aspect);

    // the reference ellipsoid
    let n = t.ell.len();
    let named = &t.ell[pick(r.ell, n)];
    let nonsphere: Vec<&(String, f64, f64)> = t.ell.iter().filter(|e| e.2 != 0.0).collect();
    let (mut ellps, mut a, mut rf) = if r.ell_kind < 6 {
        (named.0.clone(), named.1, named.2)
    } else {
        (numeric_ellps(r.a, r.rf), r.a, r.rf)
    };

    let rel = match kind {
        Kind::FO => {
            bg.x_0 = None;
            bg.y_0 = None;
            let (x, y) = fo_val(r.r_fo);
            Rel::FalseOrigin { x_0: F(x), y_0: F(y) }
        }
        Kind::CM => {
            let l = lon0_val(r.r_lon0);
            if proj == Omerc {
                bg.lonc = None;
                // (a negative zero would select the other side of that discontinuity)
                Rel::Lonc { lonc: F(if l == 0.0 { 0.0 } else { l }), explicit_zero: r.explicit_zero }
            } else {
                bg.lon_0 = None;
                Rel::CentralMeridian { lon_0: F(l), wrap: r.wrap && matches!(proj, Tmerc | Laea), explicit_zero: r.explicit_zero }
            }
        }
        Kind::K => {
            bg.k_0 = None;
            bg.lat_ts = None;
            if !r.mix_fo {
                bg.x_0 = None;
                bg.y_0 = None;
            }
            Rel::ScaleFactor { k_0: F(k0_val(r.r_k0)) }
        }
        Kind::A => {
            if !r.mix_fo {
                bg.x_0 = None;
                bg.y_0 = None;
            }
            if r.r_c.0 == 0 && t.ell.iter().any(|e| e.0 == "sphere") && t.ell.iter().any(|e| e.0 == "unitsphere") {
                // the built-in pair of spheres
                let (big, small) = (("sphere", 6_370_997.0), ("unitsphere", 1.0));
                let (rr, ll) = if r.r_c.1 < 0.0 { (big, small) } else { (small, big) };
                ellps = rr.0.to_string();
                a = rr.1;
                rf = 0.0;
                Rel::EllpsScale { ellps: ll.0.to_string(), a: F(ll.1) }
            } else {
                if r.ell_kind < 6 {
                    let e = nonsphere[pick(r.ell, nonsphere.len())];
                    a = e.1;
                    rf = e.2;
                } else {
                    a = r.a;
                    rf = r.rf;
                }
                ellps = numeric_ellps(a, rf);
                let c = match r.r_c.0 {
                    1 => 2.0,
                    2 => 0.5,
                    3 => 1.0 + r.r_c.1 * 1e-6,
                    _ => 10f64.powf(3.0 * r.r_c.1),
                };
                // the left hand semi-major axis is what its decimal text parses to
                let a_l: f64 = num(c * a).parse().unwrap();
                Rel::EllpsScale { ellps: numeric_ellps(a_l, rf), a: F(a_l) }
            }
        }
        Kind::LatTs => {
            bg.k_0 = None;
            bg.lat_ts = None;
            Rel::LatTs { lat_ts: F(tau_val(r.r_tau)) }
        }
        Kind::Lcc1sp => {
            bg.lat_2 = None;
            Rel::Lcc1sp
        }
        Kind::Sphere => {
            bg = Bg::default();
            match r.ell_kind {
                0..=2 if t.ell.iter().any(|e| e.0 == "sphere") => {
                    ellps = "sphere".into();
                    a = 6_370_997.0;
                }
                3..=4 if t.ell.iter().any(|e| e.0 == "unitsphere") => {
                    ellps = "unitsphere".into();
                    a = 1.0;
                }
                _ => {
                    // reciprocal flattening "inf" = flattening 0: a sphere of arbitrary radius
                    ellps = format!("{},inf", num(r.a));
                    a = r.a;
                }
            }
            rf = 0.0;
            Rel::SphereWebmerc
        }
    };
    let mut pts: Vec<[F; 2]> = r.pts.iter().map(|p| point(proj, &bg, *p)).collect();
    {
        // every case carries exact boundary points (deterministically: 1 fixed + 3 cycling)
        let g = point(proj, &bg, (r.u[1], r.u[2], 9));
        let list = boundary_points(proj, &bg, g[0].0, g[1].0);
        place_boundaries(&mut pts, &list, r.mask as usize + r.aspect as usize, 3);
    }
    if matches!(rel, Rel::Lonc { .. }) {
        // omerc with alpha = 90 is discontinuous along lon = lonc (u jumps by 2 u_c with the sign of
        // lonc - lon, i.e. with the sign of a zero): the extra relation is not posed on that meridian
        for p in pts.iter_mut() {
            if p[0].0.abs() < 1e-9 {
                p[0] = F(0.25);
            }
        }
    }
    // the longitude-presentation dimension: NPRES further points, copies of points of the case presented
    // with a raw longitude outside of the nominal range (appended point k has kind k+1, the last a drawn one)
    let mut pres: Vec<Pres> = vec![];
    if !matches!(rel, Rel::CentralMeridian { .. } | Rel::Lonc { .. }) {
        let sel: Vec<(u8, f64, usize)> = r.pres.iter().enumerate().map(|(k, q)| (if k < 7 { k as u8 + 1 } else { q.0 }, q.1, pick(q.2, pts.len()))).collect();
        append_presented(proj, &bg, &mut pts, &mut pres, &sel);
    }
    let intruders = r.intr.iter().map(|(kind, pos, u, v)| Intruder { kind: *kind, pos: *pos, u: F(*u), v: F(*v) }).collect();
    Case { proj, ellps, a: F(a), rf: F(rf), bg, rel, fwd, pts, intruders, pres }
}

/// append one presented copy of `pts[base]` per entry (kind, u, base) of `sel`
fn append_presented(proj: Proj, bg: &Bg, pts: &mut Vec<[F; 2]>, pres: &mut Vec<Pres>, sel: &[(u8, f64, usize)]) {
    let n = pts.len();
    if n == 0 {
        return;
    }
    pres.resize(n, Pres { kind: 0, lon: F(0.0) });
    for (kind, u, base) in sel {
        let b = pts[*base % n];
        let (k, d, raw) = present(proj, bg, b[0].0, b[1].0, *kind, *u);
        pts.push([F(d), b[1]]);
        pres.push(Pres { kind: k, lon: F(raw) });
    }
}

fn mix(mut x: u64) -> u64 {
    x = x.wrapping_add(0x9E3779B97F4A7C15);
    x = (x ^ (x >> 30)).wrapping_mul(0xBF58476D1CE4E5B9);
    x = (x ^ (x >> 27)).wrapping_mul(0x94D049BB133111EB);
    x ^ (x >> 31)
}
/// deterministic value in [-1, 1)
fn h11(i: u64, j: u64) -> f64 {
    (mix(mix(i) ^ j.wrapping_mul(0xD1342543DE82EF95)) >> 11) as f64 / (1u64 << 52) as f64 - 1.0
}

// ---- noop aliases ----------------------------------------------------------------------------------

const ALIASES: [&str; 5] = ["noop", "longlat", "latlon", "latlong", "lonlat"];
const ALIAS_SUFFIX: [&str; 6] = ["", " inv", " ellps=intl", " no_defs", " lon_0=9 x_0=500000 k_0=0.9996", " datum=WGS84 inv"];

#[derive(Clone, Debug, Serialize, Deserialize)]
struct AliasCase {
    def: String,
    /// 0 = bare name, 1 = with `inv`, 2.. = with parameters outside the (empty) gamut
    suffix: u8,
    fwd: bool,
    data: Vec<P4>,
    /// how many of the tuples (the trailing ones) are geographic tuples with a raw longitude outside of +-180 degrees
    #[serde(default)]
    raw_lon_tuples: u8,
}

fn check_alias(c: &AliasCase, rec: &mut Rec) -> CaseResult {
    let mut ctx = Minimal::new();
    let op = match try_op(&mut ctx, &c.def) {
        Err(p) => vfail!(format!("panic-instantiate@{}", p.sig()), "instantiating '{}' panics: {} at {}:{}", c.def, p.msg, p.file, p.line),
        Ok(Err(e)) => {
            if c.suffix < 2 {
                vfail!("noop-alias-rejected", "the noop alias '{}' is rejected: {e:?}", c.def);
            }
            rec.count("rejected_with_foreign_parameters", 1);
            return Ok(());
        }
        Ok(Ok(op)) => op,
    };
    let before = c4s(&c.data);
    let mut data = before.clone();
    match try_apply(&ctx, op, dir_of(c.fwd), &mut data) {
        Err(p) => vfail!(format!("panic-apply@{}", p.sig()), "applying '{}' panics: {} at {}:{}", c.def, p.msg, p.file, p.line),
        Ok(Err(e)) => vfail!("apply-error", "apply of '{}' returned an error: {e:?}", c.def),
        Ok(Ok(_)) => {}
    }
    for (i, (b, a)) in before.iter().zip(&data).enumerate() {
        for k in 0..4 {
            vensure!(
                b[k].to_bits() == a[k].to_bits(),
                "noop-alias-changes-data",
                "'{}' ({}) changed element {k} of tuple {i}: {:?} (bits {:016x}) -> {:?} (bits {:016x}); input {}",
                c.def, if c.fwd { "fwd" } else { "inv" }, b[k], b[k].to_bits(), a[k], a[k].to_bits(), fmt_c4(b)
            );
        }
    }
    vensure!(data.len() == before.len(), "noop-alias-changes-data", "'{}' changed the number of tuples", c.def);
    rec.class(&format!("{}{}", c.def.split(' ').next().unwrap_or(""), if c.suffix == 0 { "" } else { "+args" }));
    if c.raw_lon_tuples > 0 {
        rec.count("alias_cases_with_raw_longitude_tuples", 1);
        rec.count("alias_raw_longitude_tuples_outside_pm180", c.raw_lon_tuples as u64);
    }
    if !c.data.is_empty() {
        let bits: Vec<u64> = before.iter().flat_map(|c| (0..4).map(move |k| c[k].to_bits())).collect();
        rec.nontrivial(&(c.def.clone(), c.fwd, bits));
    }
    Ok(())
}

// ---- main -------------------------------------------------------------------------------------------

fn probe(kind: Kind, force_proj: Proj, aspect: Option<u8>) -> bool {
    // a fixed, simple member of the class in both directions; `true` = the relation fails
    let r = vcore::engine::sample_one(&raw(4), 1);
    [true, false].iter().any(|&fwd| {
        let mut r = r.clone();
        r.ell_kind = 0;
        r.ell = 0;
        r.r_fo = (0, 0.0, 0.0);
        r.r_lon0 = (1, 0.07);
        r.r_c = (1, 0.0);
        r.mask = 0;
        r.pts = vec![(0.3, 0.4, 9), (-0.2, 0.1, 9)];
        r.intr = vec![];
        let c = build(kind, &r, Reg::default(), Some(Force { proj: force_proj, aspect, fwd }));
        let mut rec = Rec::default();
        check_rel(&c, &mut rec, Reg::default(), true).is_err()
    })
}

fn main() {
    let mut run = Run::init("C13");
    TABLES.set(load_tables()).ok();
    let t = tables();

    // Registered defect classes (DESIGN.md section 5, #10 and #11): probed on the tree, excluded from the
    // generators only while present, and always exercised (strictly) in the section `registered-classes`.
    let reg = Reg {
        merc_fo: probe(Kind::FO, Merc, None),
        merc_cm: probe(Kind::CM, Merc, None),
        laea_eq_scale: probe(Kind::A, Laea, Some(2)),
    };
    run.note(
        "excluded_known_classes",
        serde_json::json!({
            "merc false origin (x_0/y_0 subtracted)": reg.merc_fo,
            "merc central meridian (lon_0 not in radians, wrong sign in inverse)": reg.merc_cm,
            "laea equatorial aspect x ellipsoid scale": reg.laea_eq_scale,
            "unusable built-in ellipsoids": t.unusable,
        }),
    );
    run.note("builtin_ellipsoids_used", serde_json::json!(t.ell.iter().map(|e| e.0.clone()).collect::<Vec<_>>()));

    run.assume("gamuts transcribed from src/inner_op/*.rs: x_0,y_0: merc tmerc btmerc lcc laea omerc somerc; lon_0: merc tmerc btmerc lcc laea somerc (omerc: lonc, checked as an extra under its own key); k_0: merc tmerc btmerc lcc omerc somerc; ellps: all ten");
    run.assume("the relations are read literally: lon_0=L is compared with the same projection at lon_0=0 fed with lambda - L*pi/180 (no wrapping to [-pi, pi] is demanded; inverse longitudes are compared modulo 2 pi)");
    run.assume("'unshifted' = minus the declared false origin (x_0, y_0), for utm/butm minus (500000, 0 | 10000000)");
    run.assume("tolerances: forward CP*eps*M plane metres with M the largest magnitude taking part (coordinates, false origin, 4*a*k_0), CP = 16; inverse CG*eps*(M/min(k_0,1) [x8 for laea, and x sec(lat) because its inverse takes asin(sin xi)] + 8a) ground metres, CG = 64, plus 10 um for somerc whose inverse is iterative; identical code paths (utm vs tmerc, lcc 1SP vs 2SP) 1e-9 m; merc vs webmerc additionally x sec(lat) (two closed forms of the isometric latitude)");
    run.assume("ellipsoids as `ellps=a,rf` text carry the values their decimal text parses to; spheres of arbitrary radius are written `R,inf` (reciprocal flattening infinite = flattening 0) and skipped if that spelling is not accepted");
    run.assume("longitude presentation: the relations are stated for the operators as functions of the raw input, so raw longitudes outside of [-180, 180] deg (0..360 conventions, unwrapped tracks; out to +-720 deg + central meridian) are valid inputs; both instances of a relation get the bit-identical raw value and the relation is asserted with the unchanged tolerance model (whose magnitude term M includes the results themselves), whether or not an operator wraps its input. Periodicity of a single operator is not asserted here (C01/C05/C14). The central-meridian relation is not presented (its two instances get different longitudes; it stays literal)");
    run.assume("lat_0 is never used for merc (no meaning given by the property); for tmerc, btmerc, lcc, laea, somerc it only appears as a background parameter with the same value on both sides");

    let npts = 16;
    let strict = move |c: &Case, rec: &mut Rec| check_rel(c, rec, reg, true);
    let lenient = move |c: &Case, rec: &mut Rec| check_rel(c, rec, reg, false);

    // 0. the registered classes, strictly (prints KNOWN-FINDING while they are present)
    {
        let seed = run.seed;
        let classes: [(Kind, Proj, Option<u8>); 3] = [(Kind::FO, Merc, None), (Kind::CM, Merc, None), (Kind::A, Laea, Some(2))];
        let n = run.scale(1_800, 18_000);
        run.sweep(
            "registered-classes",
            "the three registered defect classes (merc x false origin, merc x central meridian, equatorial laea x ellipsoid scale), both directions, parameters drawn as in the random sections; checked strictly (not excluded)",
            n,
            move |i| {
                let (kind, proj, aspect) = classes[i % 3];
                let fwd = (i / 3) % 2 == 0;
                let r = vcore::engine::sample_one(&raw(npts), seed ^ mix(i as u64));
                build(kind, &r, reg, Some(Force { proj, aspect, fwd }))
            },
            strict,
        );
    }

    let sections: [(&str, Kind, usize, usize, &str); 7] = [
        ("false-origin", Kind::FO, 120_000, 1_600_000, "P(x_0=a,y_0=b) = P(0,0) + (a,b) for merc tmerc btmerc lcc laea omerc somerc (every aspect), all built-in ellipsoids + random (a,rf), 16 points of the domain, forward or inverse"),
        ("central-meridian", Kind::CM, 120_000, 1_600_000, "P(lon_0=L)(lam,phi) = P(lon_0=0 or absent)(lam-L deg,phi) for merc tmerc btmerc lcc laea somerc (+ omerc lonc as an extra); L over [-180,180] incl. +-180, integers, tiny values; input longitude wrapped to [-180,180] in half of the tmerc/laea cases"),
        ("scale-factor", Kind::K, 120_000, 1_600_000, "P(k_0=k) - FO = k (P(k_0 absent) - FO) for merc tmerc btmerc lcc omerc somerc; k in [0.5,2] incl. 0.9996/0.9999/1+-1e-4; half of the cases with a non-zero false origin"),
        ("ellps-scale", Kind::A, 180_000, 2_400_000, "P(ellps=c*a,rf) - FO = c (P(ellps=a,rf) - FO) for all ten projections; (a,rf) of every built-in ellipsoid and random; c log-uniform in [1e-3,1e3], 2, 1/2, 1+-1e-6, and the built-in pair sphere/unitsphere"),
        ("lat-ts", Kind::LatTs, 60_000, 800_000, "merc lat_ts=t = merc k_0=cos t/sqrt(1-e^2 sin^2 t), t in [-89,89]"),
        ("lcc-one-parallel", Kind::Lcc1sp, 60_000, 800_000, "lcc lat_1=p [lat_0 lon_0 k_0 x_0 y_0] = the same with lat_2=p added, both hemispheres"),
        ("merc-sphere-webmerc", Kind::Sphere, 60_000, 800_000, "merc ellps=S = webmerc ellps=S for S in {sphere, unitsphere, `R,inf`}, whole globe |lat| <= 89.9"),
    ];
    for (name, kind, q, th, rule) in sections {
        let n = run.scale(q, th);
        run.section(
            name,
            &format!("{rule}; in every relation but the central-meridian one each case carries 8 further points = points of the case presented with a raw longitude outside of the nominal range (+-1 and +-2 full turns, 0..360 / -360..0 style, exactly +-180/+-360/+-540/+-720, free raw values to +-720 deg where they name a point of the domain), fed bit-identically to both instances; non-trivial = relation parameter differs from its default and a point is off the central meridian and off the equator; distinct by (relation, projection/aspect, ellipsoid, direction, parameter, first such point)"),
            n,
            move || raw(npts).prop_map(move |r| build(kind, &r, reg, None)),
            lenient,
        );
    }

    // exhaustive: 60 zones x 2 hemispheres x {utm, butm} x every built-in ellipsoid x 2 directions
    {
        let nell = t.ell.len();
        let n = 60 * 2 * 2 * nell * 2;
        run.enumerate(
            "utm-zones",
            "all 60 zones x north/south x {utm vs tmerc, butm vs btmerc} x every usable built-in ellipsoid x {forward, inverse}; 16 points per case within 30 deg (utm) / 3 deg (butm) of the zone's central meridian, |lat| <= 89 / 85, one of them on the central meridian and one on the equator, six exact boundary points (poles, latitude 0 and -0, central meridian), and 8 further points presented with raw longitudes outside of [-180, 180] deg (+-1/+-2 turns, 0..360 style, exact multiples of 180, free raw values); y_0=0 written explicitly in half of the northern cases",
            n,
            move |i| {
                let zone = (i % 60) as u8 + 1;
                let south = (i / 60) % 2 == 1;
                let proj = if (i / 120) % 2 == 0 { Utm } else { Butm };
                let e = &tables().ell[(i / 240) % nell];
                let fwd = i / (240 * nell) == 0;
                let bg = Bg { zone: Some(zone), south, ..Default::default() };
                let pts = (0..16u64)
                    .map(|j| {
                        let s = match j {
                            0 => 0,
                            1 => 1,
                            2 => 2,
                            _ => 9,
                        };
                        point(proj, &bg, (h11(i as u64, 2 * j), h11(i as u64, 2 * j + 1), s))
                    })
                    .collect::<Vec<[F; 2]>>();
                let mut pts = pts;
                let g = pts[15];
                let list = boundary_points(proj, &bg, g[0].0, g[1].0);
                place_boundaries(&mut pts[3..], &list, i / 7, 5);
                // two cases in three carry a refused tuple (and every sixth a NaN tuple as well)
                let mut intruders = vec![];
                if i % 3 != 0 {
                    let pos = if i % 3 == 1 { 0 } else { (mix(i as u64) & 0xffff) as u16 };
                    intruders.push(Intruder { kind: 2, pos, u: F(h11(i as u64, 91)), v: F(h11(i as u64, 92)) });
                }
                if i % 6 == 0 {
                    intruders.push(Intruder { kind: 0, pos: (mix(i as u64 ^ 77) & 0xffff) as u16, u: F(0.0), v: F(0.0) });
                }
                // longitude presentation: 8 further points with raw longitudes outside of [-180, 180] (all kinds)
                let mut pres = vec![];
                let sel: Vec<(u8, f64, usize)> = (0..NPRES as u64)
                    .map(|k| (if k < 7 { k as u8 + 1 } else { 1 + (mix(i as u64 ^ 555) % 7) as u8 }, h11(i as u64, 200 + k), (mix(i as u64 ^ (900 + k)) % 16) as usize))
                    .collect();
                append_presented(proj, &bg, &mut pts, &mut pres, &sel);
                Case { proj, ellps: e.0.clone(), a: F(e.1), rf: F(e.2), bg, rel: Rel::UtmZone { explicit_y0: zone % 2 == 0 }, fwd, pts, intruders, pres }
            },
            strict,
        );
    }

    // noop aliases
    {
        let n = run.scale(90_000, 1_000_000);
        run.section(
            "noop-aliases",
            "noop, longlat, latlon, latlong, lonlat (bare, with inv, with parameters outside their empty gamut) x both directions x 0..8 tuples drawn from all f64 classes (NaN payloads, infinities, -0, subnormals, huge) plus 0..3 geographic tuples whose longitude is presented outside of +-180 degrees (full turns, 0..360, exact +-180/360/540/720, free to +-720; radians or degrees); all four elements compared by bit pattern; non-trivial = non-empty data",
            n,
            || {
                (
                    0usize..ALIASES.len(),
                    0usize..ALIAS_SUFFIX.len(),
                    any::<bool>(),
                    prop::collection::vec(any_p4_class(), 0..8),
                    // geographic tuples (lon, lat, h, t) with the longitude presented outside of +-180 degrees, in
                    // radians or in degrees (the aliases do not know which): every presentation kind of the relations
                    prop::collection::vec((1u8..8, unit(), unit(), unit(), any::<bool>()), 0..4),
                )
                    .prop_map(|(a, s, fwd, mut data, geo)| {
                        let mut n = 0u8;
                        for (kind, u, v, w, deg) in geo {
                            let (_, _, raw) = present(Merc, &Bg::default(), u * 180.0, v * 90.0, kind, w);
                            if raw.abs() > 180.0 {
                                n += 1;
                                let (lon, lat) = if deg { (raw, v * 90.0) } else { (raw.to_radians(), (v * 90.0).to_radians()) };
                                data.push(p4(lon, lat, w * 1000.0, 2000.0 + 30.0 * u));
                            }
                        }
                        AliasCase { def: format!("{}{}", ALIASES[a], ALIAS_SUFFIX[s]), suffix: s as u8, fwd, data, raw_lon_tuples: n }
                    })
            },
            check_alias,
        );
    }

    run.finish("pairs of differently parameterised instances of the same projection (or derived operator and its base) compared through apply(Fwd) and apply(Inv) on generated points of the domain, each same-raw-longitude relation also on those points presented with raw longitudes outside of [-180, 180] deg (out to +-720 deg); a case is non-trivial when the relation parameter differs from its default and at least one point lies off the central meridian and off the equator; the 60 x 2 UTM zones are enumerated exhaustively for every built-in ellipsoid");
}
