//! C07 — Datum shifts: Helmert is a similarity with the declared conventions and epochs;
//! Molodensky agrees with the cartesian three-parameter Helmert path it approximates.
//!
//! Oracles
//!  * reference model written from EPSG Guidance Note 7-2 (methods 1033/1032 and their
//!    time-dependent siblings 1053/1056):  x' = T(t) + (1 + s(t)·1e-6) · R(r(t)) · x  with
//!    P(t) = P + (t − t_epoch)·dP evaluated per tuple.  In small-angle mode R is the EPSG
//!    matrix I + [r]× (position vector) or its transpose (coordinate frame).  For `exact` the
//!    property only says "a proper rotation", so the matrix is *extracted* from a static
//!    rotation-only instantiation of the library (unit vectors in, columns out) and judged on
//!    its own: orthonormal, det = +1, equal to the elementary rotation when only one axis is
//!    rotated, first-order agreement with the EPSG matrix for every composition order, and
//!    transposed between the two conventions.  The composition with T(t), s(t) and the
//!    per-tuple epoch handling is then checked against that matrix.
//!  * metamorphic laws: distance ratio = 1 + s, position_vector(r) = coordinate_frame(−r) in
//!    small-angle mode, scalar (PROJ) and list spellings bit-identical, 4th coordinate
//!    bit-identical, `t_obs = τ` = every tuple given epoch τ, a mixed-epoch set in ONE apply
//!    call = each tuple on its own, inverse∘forward and forward∘inverse.
//!  * differential: molodensky (three parameterisations, full and abridged, both directions)
//!    against `cart ellps=E0 | helmert x= y= z= | cart inv ellps=E1`, second order in the shift.
//!  * container dimension (sections `*-containers*`): every statement above is made about the
//!    *operands*, whatever coordinate set holds them.  Each of the 36 container kinds (Vec / array /
//!    &mut slice of Coor4D, Coor3D, Coor2D, Coor32, plain or in the (set, h, t) / (set, t) adapters)
//!    presents documented tuples to an operator (Coor3D: epoch NaN; Coor2D/Coor32: height 0, epoch
//!    NaN, f32 values; the adapters: their fixed values).  The stored result must be, bit for bit,
//!    the operator on a Vec<Coor4D> of those tuples, that 4-D result must satisfy the reference model
//!    (forward: T + (1+s)Rx; inverse: the model forward takes it back to second order), a per-tuple
//!    epoch of NaN gives NaN, and with `t_obs` the result equals the rate-carrying operator without
//!    `t_obs` on the same points at epoch t_obs - in the dimensions the container stores.

use geodesy::prelude::{Context, Coor2D, Coor32, Coor3D, Coor4D, CoordinateSet, Ellipsoid, EllipsoidBase, Minimal, OpHandle};
use proptest::prelude::*;
use serde::{Deserialize, Serialize};
use vcore::engine::Failure;
use vcore::geo::*;
use vcore::refmath::{self, El, M3};
use vcore::*;

const EPS: f64 = f64::EPSILON;

// ---- tolerances (ground metres) ------------------------------------------------------
// Rounding model: every quantity that enters a sum contributes one unit `EPS * magnitude`;
// K_ROUND is the number of such units allowed. Calibrated on the repaired tree (thorough tier,
// 3.9e7 tuples): worst forward model 1.98 units, round trip 1.27, distances 3.35 (see the
// `worst_*_units` metrics in the evidence), i.e. margin 5-8x.
const K_ROUND: f64 = 16.0;
// |R^T R x − x| = |r × (r × x)| ≤ |r|²|x| for R = I + [r]× : mathematical bound, 5 % slack
const K_SECOND_ORDER: f64 = 1.05;
// |(I+[r]×) d| = sqrt(|d|² + |r×d|²) ≤ |d| (1 + |r|²/2): mathematical bound, 5 % slack
const K_DIST_SECOND_ORDER: f64 = 0.525;
// Molodensky: c·δ²/(a·cos φ) + floor, abridged additionally c'·(|h|/a + f)·δ. Calibrated (6.8e6 tuples):
// worst full error = 0.68·δ²/(a·cos φ) (10.6 m at δ ≈ 3 km), worst abridged excess = 0.54·(|h|/a + f)·δ.
const K_MOLO: f64 = 2.0;
const K_MOLO_ABRIDGED: f64 = 4.0;
const MOLO_FLOOR: f64 = 1.0e-3;

// ---- small helpers -------------------------------------------------------------------

#[derive(Clone, Copy, Debug, PartialEq, Eq)]
enum Dir {
    Fwd,
    Inv,
}
use Dir::{Fwd, Inv};

fn l1(v: &[f64; 3]) -> f64 {
    v[0].abs() + v[1].abs() + v[2].abs()
}
fn l2(v: &[f64; 3]) -> f64 {
    refmath::norm3(v)
}
fn sub(a: &[f64; 3], b: &[f64; 3]) -> [f64; 3] {
    [a[0] - b[0], a[1] - b[1], a[2] - b[2]]
}
fn xyz(c: &Coor4D) -> [f64; 3] {
    [c[0], c[1], c[2]]
}
fn f3(v: &[F; 3]) -> [f64; 3] {
    [v[0].0 + 0.0, v[1].0 + 0.0, v[2].0 + 0.0] // + 0.0: never render "-0"
}
fn list3(v: &[f64; 3]) -> String {
    format!("{},{},{}", num(v[0]), num(v[1]), num(v[2]))
}
fn rad3(v: &[f64; 3]) -> [f64; 3] {
    [refmath::arcsec(v[0]), refmath::arcsec(v[1]), refmath::arcsec(v[2])]
}

fn inst(ctx: &mut Minimal, def: &str) -> Result<OpHandle, Failure> {
    match try_op(ctx, def) {
        Err(p) => Err(Failure {
            key: format!("panic-instantiate@{}", p.sig()),
            msg: format!("instantiating '{def}' panics: {} at {}:{}", p.msg, p.file, p.line),
        }),
        Ok(Err(e)) => Err(Failure { key: "well-formed-definition-rejected".into(), msg: format!("documented, well-formed definition '{def}' rejected: {e:?}") }),
        Ok(Ok(h)) => Ok(h),
    }
}

/// One apply call on the whole set; the 4th coordinate must come back bit-identical.
fn apply_set(ctx: &Minimal, op: OpHandle, dir: Dir, def: &str, data: &[Coor4D], check_t: bool) -> Result<Vec<Coor4D>, Failure> {
    let mut d = data.to_vec();
    match try_apply(ctx, op, dir_of(dir == Dir::Fwd), &mut d) {
        Err(p) => {
            return Err(Failure {
                key: format!("panic-apply@{}", p.sig()),
                msg: format!("applying '{def}' ({dir:?}) panics: {} at {}:{}", p.msg, p.file, p.line),
            })
        }
        Ok(Err(e)) => return Err(Failure { key: "apply-error".into(), msg: format!("apply of '{def}' ({dir:?}) returned an error: {e:?}") }),
        Ok(Ok(_)) => {}
    }
    if check_t {
        for (i, (a, b)) in data.iter().zip(d.iter()).enumerate() {
            if !bits_eq(a[3], b[3]) {
                return Err(Failure {
                    key: "fourth-coordinate-changed".into(),
                    msg: format!("'{def}' ({dir:?}) tuple {i} {}: 4th coordinate {:?} (bits {:016x}) came back as {:?} (bits {:016x}); must be untouched", fmt_c4(a), a[3], a[3].to_bits(), b[3], b[3].to_bits()),
                });
            }
        }
    }
    Ok(d)
}

/// One apply call per tuple (fresh operator state for each tuple).
fn apply_each(ctx: &Minimal, op: OpHandle, dir: Dir, def: &str, data: &[Coor4D]) -> Result<Vec<Coor4D>, Failure> {
    let mut out = Vec::with_capacity(data.len());
    for c in data {
        out.push(apply_set(ctx, op, dir, def, std::slice::from_ref(c), true)?[0]);
    }
    Ok(out)
}

// ---- the Helmert specification --------------------------------------------------------

#[derive(Clone, Debug, Serialize, Deserialize)]
struct HCase {
    t: [F; 3],  // translation, m
    r: [F; 3],  // rotation, arcsec
    s: F,       // scale, ppm
    dt: [F; 3], // m / year
    dr: [F; 3], // arcsec / year
    ds: F,      // ppm / year
    exact: bool,
    pv: bool,
    t_epoch: F,
    t_obs: Option<F>,
    /// bit g set: group g uses the list / long spelling (0 translation, 1 rotation, 2 scale,
    /// 3 velocity, 4 angular_velocity, 5 scale_trend), otherwise the PROJ scalar spelling
    list_mask: u8,
    /// bit0: give t_epoch even if static; bit1: give convention even if unrotated;
    /// bit2: the scalar spelling omits zero components
    extras: u8,
    pts: Vec<P4>,
}

#[derive(Clone, Debug)]
struct Spec {
    t: [f64; 3],
    r: [f64; 3],
    s: f64,
    dt: [f64; 3],
    dr: [f64; 3],
    ds: f64,
    exact: bool,
    pv: bool,
    t_epoch: f64,
    t_obs: Option<f64>,
    extras: u8,
}

/// effective parameters for one tuple
#[derive(Clone, Copy, Debug)]
struct Eff {
    t: [f64; 3],
    r: [f64; 3], // arcsec
    s: f64,      // ppm
    d: f64,      // years since t_epoch (0 when static)
}

impl Spec {
    fn of(c: &HCase) -> Spec {
        Spec {
            t: f3(&c.t),
            r: f3(&c.r),
            s: c.s.0 + 0.0,
            dt: f3(&c.dt),
            dr: f3(&c.dr),
            ds: c.ds.0 + 0.0,
            exact: c.exact,
            pv: c.pv,
            t_epoch: c.t_epoch.0 + 0.0,
            t_obs: c.t_obs.map(|v| v.0 + 0.0),
            extras: c.extras,
        }
    }
    fn dynamic(&self) -> bool {
        l1(&self.dt) != 0.0 || l1(&self.dr) != 0.0 || self.ds != 0.0
    }
    fn rotated(&self) -> bool {
        l1(&self.r) != 0.0 || l1(&self.dr) != 0.0
    }
    fn per_tuple_epochs(&self) -> bool {
        self.dynamic() && self.t_obs.is_none()
    }
    fn conv(&self) -> &'static str {
        if self.pv {
            "position_vector"
        } else {
            "coordinate_frame"
        }
    }
    fn group(&self, out: &mut Vec<String>, v: &[f64; 3], list: bool, list_key: &str, scalar: [&str; 3]) {
        if l1(v) == 0.0 {
            return;
        }
        if list {
            out.push(format!("{list_key}={}", list3(v)));
        } else {
            for i in 0..3 {
                if v[i] != 0.0 || self.extras & 4 == 0 {
                    out.push(format!("{}={}", scalar[i], num(v[i])));
                }
            }
        }
    }
    fn render(&self, list_mask: u8) -> String {
        let mut p: Vec<String> = vec!["helmert".into()];
        let l = |g: u8| list_mask & (1 << g) != 0;
        self.group(&mut p, &self.t, l(0), "translation", ["x", "y", "z"]);
        self.group(&mut p, &self.r, l(1), "rotation", ["rx", "ry", "rz"]);
        if self.s != 0.0 {
            p.push(format!("{}={}", if l(2) { "scale" } else { "s" }, num(self.s)));
        }
        self.group(&mut p, &self.dt, l(3), "velocity", ["dx", "dy", "dz"]);
        self.group(&mut p, &self.dr, l(4), "angular_velocity", ["drx", "dry", "drz"]);
        if self.ds != 0.0 {
            p.push(format!("{}={}", if l(5) { "scale_trend" } else { "ds" }, num(self.ds)));
        }
        if self.rotated() || self.extras & 2 != 0 {
            p.push(format!("convention={}", self.conv()));
        }
        if self.exact {
            p.push("exact".into());
        }
        if self.dynamic() || self.extras & 1 != 0 {
            p.push(format!("t_epoch={}", num(self.t_epoch)));
        }
        if let Some(t) = self.t_obs {
            p.push(format!("t_obs={}", num(t)));
        }
        p.join(" ")
    }
    /// P(t) = P + (t − t_epoch)·dP, with t := t_obs when that is given; static sets ignore t
    fn at(&self, t: f64) -> Eff {
        if !self.dynamic() {
            return Eff { t: self.t, r: self.r, s: self.s, d: 0.0 };
        }
        let d = self.t_obs.unwrap_or(t) - self.t_epoch;
        self.at_dt(d, d, d)
    }
    /// separate elapsed times for the three parameter groups (used to *diagnose* known defect classes)
    fn at_dt(&self, d_t: f64, d_r: f64, d_s: f64) -> Eff {
        let mut e = Eff { t: self.t, r: self.r, s: self.s + d_s * self.ds, d: d_r };
        for i in 0..3 {
            e.t[i] = self.t[i] + d_t * self.dt[i];
            e.r[i] = self.r[i] + d_r * self.dr[i];
        }
        e
    }
    /// magnitude of the quantities summed when transforming x at elapsed time d: one rounding unit is EPS·mag
    fn mag(&self, e: &Eff, x: &[f64; 3]) -> f64 {
        let d = e.d.abs();
        let tt = l1(&self.t) + d * l1(&self.dt);
        let rr = if self.exact { l1(&rad3(&self.r)) + d * l1(&rad3(&self.dr)) } else { 0.0 };
        let ss = 1.0 + (self.s.abs() + d * self.ds.abs()) * 1e-6;
        tt + ss * l1(x) * (1.0 + rr)
    }
}

/// EPSG GN 7-2 small-angle matrix for the convention (radians)
fn epsg_small(r: &[f64; 3], pv: bool) -> M3 {
    let m = refmath::rotation_position_vector(r[0], r[1], r[2], false);
    if pv {
        m
    } else {
        refmath::transpose(&m)
    }
}

/// The library's static rotation matrix for (r arcsec, mode, convention): unit vectors in, columns out
/// (with T = 0 and s = 0 the arithmetic 1·R_ij + 0·… + 0 is exact, so the elements are the library's own).
fn lib_matrix(ctx: &mut Minimal, r: &[f64; 3], exact: bool, pv: bool) -> Result<(M3, String), Failure> {
    let def = format!(
        "helmert rotation={} convention={}{}",
        list3(r),
        if pv { "position_vector" } else { "coordinate_frame" },
        if exact { " exact" } else { "" }
    );
    let op = inst(ctx, &def)?;
    let units = [Coor4D::raw(1., 0., 0., 0.), Coor4D::raw(0., 1., 0., 0.), Coor4D::raw(0., 0., 1., 0.)];
    let out = apply_set(ctx, op, Fwd, &def, &units, true)?;
    let mut m = [[0.0; 3]; 3];
    for j in 0..3 {
        for i in 0..3 {
            m[i][j] = out[j][i];
        }
    }
    Ok((m, def))
}

fn max_abs_diff(a: &M3, b: &M3) -> f64 {
    let mut w: f64 = 0.0;
    for i in 0..3 {
        for j in 0..3 {
            let d = (a[i][j] - b[i][j]).abs();
            w = if d.is_nan() { f64::INFINITY } else { w.max(d) };
        }
    }
    w
}
fn det(m: &M3) -> f64 {
    m[0][0] * (m[1][1] * m[2][2] - m[1][2] * m[2][1]) - m[0][1] * (m[1][0] * m[2][2] - m[1][2] * m[2][0]) + m[0][2] * (m[1][0] * m[2][1] - m[1][1] * m[2][0])
}
const IDENT: M3 = [[1.0, 0.0, 0.0], [0.0, 1.0, 0.0], [0.0, 0.0, 1.0]];

/// Judge the library's rotation matrices for r (arcsec): both conventions, given mode.
/// Returns the matrix of the requested convention.
fn judge_matrix(ctx: &mut Minimal, r: &[f64; 3], exact: bool, pv: bool, rec: &mut Rec) -> Result<M3, Failure> {
    let (mp, defp) = lib_matrix(ctx, r, exact, true)?;
    let (mc, defc) = lib_matrix(ctx, r, exact, false)?;
    let rr = rad3(r);
    // conventions are transposes of each other
    let tr = max_abs_diff(&mp, &refmath::transpose(&mc));
    rec.metric("worst_transpose_diff", tr);
    vensure!(tr <= 4.0 * EPS, "conventions-not-transposes",
        "rotation matrix of '{defp}' = {mp:?} is not the transpose of that of '{defc}' = {mc:?} (max element difference {tr:e}, allowed {:e})", 4.0 * EPS);
    if !exact {
        // EPSG GN 7-2: R = [[1,-rz,ry],[rz,1,-rx],[-ry,rx,1]] for the position vector convention
        let e = epsg_small(&rr, true);
        let d = max_abs_diff(&mp, &e);
        let tol = 4.0 * EPS * l1(&rr).max(1.0);
        rec.metric("worst_small_angle_matrix_diff", d);
        vensure!(d <= tol, "small-angle-matrix-differs-from-epsg",
            "'{defp}': library matrix {mp:?} vs EPSG GN7-2 position-vector small-angle matrix {e:?} for r = {r:?} arcsec = {rr:?} rad (max element difference {d:e}, allowed {tol:e})");
    } else {
        // proper rotation
        let g = refmath::mat_mul(&refmath::transpose(&mp), &mp);
        let o = max_abs_diff(&g, &IDENT);
        let dt = (det(&mp) - 1.0).abs();
        rec.metric("worst_exact_orthonormality", o);
        rec.metric("worst_exact_det_minus_1", dt);
        vensure!(o <= 16.0 * EPS && dt <= 16.0 * EPS, "exact-matrix-not-a-proper-rotation",
            "'{defp}': matrix {mp:?} is not a proper rotation: max|RtR - I| = {o:e}, |det - 1| = {dt:e} (allowed {:e})", 16.0 * EPS);
        let reference = refmath::rotation_position_vector(rr[0], rr[1], rr[2], true);
        let nz = rr.iter().filter(|v| **v != 0.0).count();
        if nz <= 1 {
            // a rotation about one axis: every composition order gives the elementary rotation
            let d = max_abs_diff(&mp, &reference);
            rec.metric("worst_single_axis_diff", d);
            vensure!(d <= 8.0 * EPS, "exact-single-axis-rotation-wrong",
                "'{defp}': matrix {mp:?} differs from the elementary position-vector rotation {reference:?} for r = {r:?} arcsec (max element difference {d:e}, allowed {:e})", 8.0 * EPS);
        } else {
            // any of the 6 composition orders differs from Rz·Ry·Rx by at most the sum of the
            // commutator norms, ||[Ra,Rb]|| <= 2|a||b|
            let bound = 2.0 * ((rr[0] * rr[1]).abs() + (rr[0] * rr[2]).abs() + (rr[1] * rr[2]).abs()) + 16.0 * EPS;
            let d = max_abs_diff(&mp, &reference);
            if bound < 0.5 {
                rec.metric("worst_first_order_diff_over_bound", d / bound);
                rec.count("exact_first_order_checked", 1);
            }
            vensure!(d <= bound, "exact-matrix-first-order-disagrees-with-epsg",
                "'{defp}': matrix {mp:?} differs from the position-vector rotation {reference:?} for r = {r:?} arcsec by {d:e}; every composition order of the three elementary rotations stays within {bound:e}");
        }
    }
    Ok(if pv { mp } else { mc })
}

/// the library's documented inverse: de-offset, un-scale, multiply by the transposed matrix
fn model_inv(e: &Eff, m: &M3, y: &[f64; 3]) -> [f64; 3] {
    let sc = 1.0 + e.s * 1e-6;
    let v = [(y[0] - e.t[0]) / sc, (y[1] - e.t[1]) / sc, (y[2] - e.t[2]) / sc];
    refmath::mat_vec(&refmath::transpose(m), &v)
}

fn model_fwd(e: &Eff, m: &M3, x: &[f64; 3]) -> [f64; 3] {
    let sc = 1.0 + e.s * 1e-6;
    let v = refmath::mat_vec(m, x);
    [e.t[0] + sc * v[0], e.t[1] + sc * v[1], e.t[2] + sc * v[2]]
}

struct MatCache {
    keys: Vec<[u64; 3]>,
    mats: Vec<M3>,
}
impl MatCache {
    /// rotation matrix the reference model uses for effective rotation r (arcsec)
    fn get(&mut self, ctx: &mut Minimal, spec: &Spec, r: &[f64; 3], rec: &mut Rec) -> Result<M3, Failure> {
        if !spec.rotated() {
            return Ok(IDENT);
        }
        let k = [r[0].to_bits(), r[1].to_bits(), r[2].to_bits()];
        if let Some(i) = self.keys.iter().position(|x| *x == k) {
            return Ok(self.mats[i]);
        }
        let lib = judge_matrix(ctx, r, spec.exact, spec.pv, rec)?;
        // small-angle mode: the independent EPSG matrix; exact mode: the judged library matrix
        let m = if spec.exact { lib } else { epsg_small(&rad3(r), spec.pv) };
        self.keys.push(k);
        self.mats.push(m);
        Ok(m)
    }
}

fn kind_label(s: &Spec) -> &'static str {
    let (t, r, sc) = (l1(&s.t) != 0.0, l1(&s.r) != 0.0, s.s != 0.0);
    if s.dynamic() {
        if l1(&s.dt) != 0.0 && l1(&s.dr) != 0.0 && s.ds != 0.0 && t && r && sc {
            "14p"
        } else {
            "partial-rates"
        }
    } else {
        match (t, r, sc) {
            (_, false, false) => "3p",
            (_, true, false) => "6p",
            (_, true, true) => "7p",
            (_, false, true) => "4p-scale",
        }
    }
}

fn check_helmert(c: &HCase, rec: &mut Rec) -> CaseResult {
    let spec = Spec::of(c);
    let def = spec.render(c.list_mask);
    let mut ctx = Minimal::new();
    let op = inst(&mut ctx, &def)?;
    let inp: Vec<Coor4D> = c4s(&c.pts);
    let n = inp.len();
    let mut cache = MatCache { keys: vec![], mats: vec![] };
    let mut deferred: Option<Failure> = None; // diagnosed (candidate known) classes surface last
    let mut scale_suspect = false;
    let dynamic = spec.dynamic();

    // effective parameters, matrices, reference values per tuple
    let mut eff = Vec::with_capacity(n);
    let mut mats = Vec::with_capacity(n);
    let mut yref = Vec::with_capacity(n);
    for p in &inp {
        let e = spec.at(p[3]);
        let m = cache.get(&mut ctx, &spec, &e.r, rec)?;
        yref.push(model_fwd(&e, &m, &xyz(p)));
        eff.push(e);
        mats.push(m);
    }

    // ---- 1. forward, each tuple on its own, against the reference model ------------------
    let fwd = apply_each(&ctx, op, Fwd, &def, &inp)?;
    for i in 0..n {
        let x = xyz(&inp[i]);
        let unit = EPS * spec.mag(&eff[i], &x);
        let tol = K_ROUND * unit;
        let err = l2(&sub(&xyz(&fwd[i]), &yref[i]));
        if !(err <= tol) {
            // known class: with t_obs the scale trend is folded three times
            if dynamic && spec.t_obs.is_some() && spec.ds != 0.0 {
                let d = eff[i].d;
                let alt = spec.at_dt(d, d, 3.0 * d);
                let yalt = model_fwd(&alt, &mats[i], &x);
                if l2(&sub(&xyz(&fwd[i]), &yalt)) <= tol {
                    scale_suspect = true;
                    deferred.get_or_insert(Failure {
                        key: "t_obs-scale-trend-applied-three-times".into(),
                        msg: format!(
                            "'{def}' tuple {}: library {:?}; expected {:?} with scale s + (t_obs - t_epoch)*ds = {} ppm; the library value equals the model with s + 3*(t_obs - t_epoch)*ds = {} ppm ({:?}); error {err:e} m, tolerance {tol:e} m",
                            fmt_c4(&inp[i]), xyz(&fwd[i]), yref[i], eff[i].s, alt.s, yalt
                        ),
                    });
                    continue;
                }
            }
            let key = if !dynamic { "forward-model-static" } else if spec.t_obs.is_some() { "forward-model-t_obs" } else { "forward-model-tuple-epoch" };
            vfail!(key,
                "'{def}' tuple {} (applied alone): library {:?}; reference T(t) + (1+s(t)*1e-6)*R(r(t))*x = {:?} with T = {:?}, r = {:?} arcsec, s = {} ppm, R = {:?}; error {err:e} m, tolerance {tol:e} m",
                fmt_c4(&inp[i]), xyz(&fwd[i]), yref[i], eff[i].t, eff[i].r, eff[i].s, mats[i]);
        }
        if unit > 0.0 {
            rec.metric(if spec.exact { "worst_forward_units_exact" } else { "worst_forward_units_small" }, err / unit);
        }
    }
    rec.count("tuples", n as u64);

    // ---- 2. the whole set in ONE apply call: every tuple at its own epoch ---------------
    let fwd_set = apply_set(&ctx, op, Fwd, &def, &inp, true)?;
    let inv_each = apply_each(&ctx, op, Inv, &def, &inp)?;
    let inv_set = apply_set(&ctx, op, Inv, &def, &inp, true)?;
    let mut distinct_epochs: Vec<u64> = inp.iter().map(|p| p[3].to_bits()).collect();
    distinct_epochs.sort_unstable();
    distinct_epochs.dedup();
    let mixed = distinct_epochs.len() >= 2;
    if !scale_suspect {
        // the model of a known defect class: T is incremented at every epoch change instead of recomputed
        let mut acc_t = Vec::with_capacity(n);
        {
            let mut tt = spec.t;
            let mut prev = f64::NAN;
            for p in &inp {
                #[allow(clippy::float_cmp)]
                if p[3] != prev {
                    prev = p[3];
                    for a in 0..3 {
                        tt[a] += (p[3] - spec.t_epoch) * spec.dt[a];
                    }
                }
                acc_t.push(tt);
            }
        }
        for forward in [true, false] {
            let (set, expected): (&Vec<Coor4D>, Vec<[f64; 3]>) = if forward { (&fwd_set, yref.clone()) } else { (&inv_set, inv_each.iter().map(xyz).collect()) };
            for i in 0..n {
                let x = xyz(&inp[i]);
                let sc = (1.0 + eff[i].s * 1e-6).abs();
                let tol = K_ROUND * EPS * spec.mag(&eff[i], &x) * if forward { 1.0 } else { (1.0_f64).max(1.0 / sc) };
                let err = l2(&sub(&xyz(&set[i]), &expected[i]));
                if err <= tol {
                    continue;
                }
                let mut explained = spec.per_tuple_epochs() && l1(&spec.dt) != 0.0 && mixed;
                let mut at_i = [0.0; 3];
                for k in 0..n {
                    if !explained {
                        break;
                    }
                    let e = Eff { t: acc_t[k], ..eff[k] };
                    let xk = xyz(&inp[k]);
                    let y = if forward { model_fwd(&e, &mats[k], &xk) } else { model_inv(&e, &mats[k], &xk) };
                    if k == i {
                        at_i = y;
                    }
                    let sck = (1.0 + eff[k].s * 1e-6).abs();
                    let tolk = K_ROUND * EPS * (spec.mag(&eff[k], &xk) + l1(&acc_t[k])) * (1.0_f64).max(1.0 / sck);
                    if !(l2(&sub(&xyz(&set[k]), &y)) <= tolk) {
                        explained = false;
                    }
                }
                let f = Failure {
                    key: if explained { "mixed-epoch-set-translation-rate-accumulates" } else if forward { "mixed-epoch-set-differs-from-own-epoch-model" } else { "mixed-epoch-set-inverse-differs-from-single-tuple-inverse" }.into(),
                    msg: format!(
                        "'{def}' applied ({}) to {n} tuples with epochs {:?} in one call: tuple {i} {} -> library {:?}, expected {:?} (parameters at its own epoch: T = {:?}, r = {:?} arcsec, s = {} ppm; {}); error {err:e} m, tolerance {tol:e} m{}",
                        if forward { "Fwd" } else { "Inv" },
                        inp.iter().map(|p| p[3]).collect::<Vec<_>>(), fmt_c4(&inp[i]), xyz(&set[i]), expected[i], eff[i].t, eff[i].r, eff[i].s,
                        if forward { format!("applied alone the same tuple gives {:?}", xyz(&fwd[i])) } else { "expected = the same tuple applied alone, which round-trips with the forward reference".to_string() },
                        if explained { format!("; the whole set equals the model in which T is incremented by (t - t_epoch)*dT at every epoch change instead of being recomputed ({at_i:?})") } else { String::new() }
                    ),
                };
                if explained {
                    deferred.get_or_insert(f);
                    break;
                }
                return Err(f);
            }
            if deferred.is_some() {
                break;
            }
        }
    }

    // ---- 3. similarity: distances scale by 1 + s(t) ---------------------------------------
    if !scale_suspect {
        for i in 0..n.saturating_sub(1) {
            let j = i + 1;
            if spec.per_tuple_epochs() && !bits_eq(inp[i][3], inp[j][3]) {
                continue;
            }
            let (xi, xj) = (xyz(&inp[i]), xyz(&inp[j]));
            let din = l2(&sub(&xi, &xj));
            let dout = l2(&sub(&xyz(&fwd[i]), &xyz(&fwd[j])));
            let sc = 1.0 + eff[i].s * 1e-6;
            let e0 = Eff { d: eff[i].d, ..eff[i] };
            let unit = EPS * (l1(&spec.t) + e0.d.abs() * l1(&spec.dt) + sc.abs() * (l1(&xi) + l1(&xj)));
            let r2 = if spec.exact { 0.0 } else { let r = rad3(&eff[i].r); r[0] * r[0] + r[1] * r[1] + r[2] * r[2] };
            let tol = K_DIST_SECOND_ORDER * sc.abs() * r2 * din + K_ROUND * unit;
            let err = (dout - sc.abs() * din).abs();
            rec.count("distance_pairs", 1);
            if unit > 0.0 && spec.exact {
                rec.metric("worst_distance_units_exact", err / unit);
            }
            vensure!(err <= tol, "distance-ratio-is-not-the-scale",
                "'{def}': |y{i} - y{j}| = {dout:?} but (1 + s*1e-6)*|x{i} - x{j}| = {:?} (s = {} ppm, |dx| = {din:?}); tuples {} and {}; error {err:e} m, tolerance {tol:e} m ({})",
                sc.abs() * din, eff[i].s, fmt_c4(&inp[i]), fmt_c4(&inp[j]), if spec.exact { "rounding only" } else { "0.5*|r|^2*|dx| + rounding" });
        }
    }

    // ---- 4. t_obs = tau is the same as giving every tuple the epoch tau --------------------
    if let (true, Some(tau)) = (dynamic, spec.t_obs) {
        let mut free = spec.clone();
        free.t_obs = None;
        let def_free = free.render(c.list_mask);
        let op_free = inst(&mut ctx, &def_free)?;
        let at_tau: Vec<Coor4D> = inp.iter().map(|p| Coor4D::raw(p[0], p[1], p[2], tau)).collect();
        let y_free = apply_set(&ctx, op_free, Fwd, &def_free, &at_tau, true)?; // one epoch only
        for i in 0..n {
            let x = xyz(&inp[i]);
            let tol = K_ROUND * EPS * spec.mag(&eff[i], &x);
            let err = l2(&sub(&xyz(&fwd_set[i]), &xyz(&y_free[i])));
            if !(err <= tol) {
                if scale_suspect {
                    break; // already diagnosed above
                }
                vfail!("t_obs-not-equivalent-to-tuple-epoch",
                    "'{def}' on {} gives {:?}, but '{def_free}' on the same point with epoch {tau} gives {:?}; difference {err:e} m, tolerance {tol:e} m",
                    fmt_c4(&inp[i]), xyz(&fwd_set[i]), xyz(&y_free[i]));
            }
        }
        rec.count("t_obs_equivalence_tuples", n as u64);
    }

    // ---- 5. position_vector(r) = coordinate_frame(-r) in small-angle mode -----------------
    if spec.rotated() && !spec.exact {
        let mut twin = spec.clone();
        twin.pv = !spec.pv;
        for a in 0..3 {
            twin.r[a] = -spec.r[a] + 0.0;
            twin.dr[a] = -spec.dr[a] + 0.0;
        }
        let def_twin = twin.render(c.list_mask);
        let op_twin = inst(&mut ctx, &def_twin)?;
        let y_twin = apply_each(&ctx, op_twin, Fwd, &def_twin, &inp)?;
        for i in 0..n {
            let x = xyz(&inp[i]);
            let tol = K_ROUND * EPS * spec.mag(&eff[i], &x);
            let err = l2(&sub(&xyz(&fwd[i]), &xyz(&y_twin[i])));
            vensure!(err <= tol, "conventions-do-not-differ-by-sign-in-small-angle-mode",
                "'{def}' on {} gives {:?}, but '{def_twin}' (other convention, rotations negated) gives {:?}; difference {err:e} m, tolerance {tol:e} m (rounding only)",
                fmt_c4(&inp[i]), xyz(&fwd[i]), xyz(&y_twin[i]));
        }
        rec.count("sign_twin_tuples", n as u64);
    }

    // ---- 6. scalar (PROJ) and list spellings are interchangeable: bit-identical ------------
    {
        let alt_mask = !c.list_mask & 63;
        let mut alt = spec.clone();
        alt.extras ^= 4;
        let def_alt = alt.render(alt_mask);
        if def_alt != def {
            let op_alt = inst(&mut ctx, &def_alt)?;
            let y_alt = apply_set(&ctx, op_alt, Fwd, &def_alt, &inp, true)?;
            if let Some(i) = first_bits_diff(&fwd_set, &y_alt) {
                vfail!("scalar-and-list-spellings-differ",
                    "'{def}' and '{def_alt}' spell the same parameters but differ (forward) on tuple {i} {}: {} vs {}", fmt_c4(&inp[i]), fmt_c4(&fwd_set[i]), fmt_c4(&y_alt[i]));
            }
            let x_a = apply_set(&ctx, op, Inv, &def, &inp, true)?;
            let x_b = apply_set(&ctx, op_alt, Inv, &def_alt, &inp, true)?;
            if let Some(i) = first_bits_diff(&x_a, &x_b) {
                vfail!("scalar-and-list-spellings-differ",
                    "'{def}' and '{def_alt}' spell the same parameters but differ (inverse) on tuple {i} {}: {} vs {}", fmt_c4(&inp[i]), fmt_c4(&x_a[i]), fmt_c4(&x_b[i]));
            }
            rec.count("spelling_pairs", 1);
        }
    }

    // ---- 7. inverse undoes forward (and forward undoes inverse) ----------------------------
    {
        let back = apply_each(&ctx, op, Inv, &def, &fwd)?;
        let pre = &inv_each;
        let again = apply_each(&ctx, op, Fwd, &def, &pre)?;
        for i in 0..n {
            let x = xyz(&inp[i]);
            let mut e = eff[i];
            if scale_suspect {
                e.s = spec.s + 3.0 * e.d * spec.ds; // rounding magnitude only
            }
            let r = rad3(&e.r);
            let r2 = if spec.exact || !spec.rotated() { 0.0 } else { r[0] * r[0] + r[1] * r[1] + r[2] * r[2] };
            let sc = (1.0 + e.s * 1e-6).abs();
            let unit = EPS * (spec.mag(&e, &x) + l1(&xyz(&fwd[i]))) * (1.0_f64).max(1.0 / sc);
            let tol = K_SECOND_ORDER * r2 * l2(&x) + K_ROUND * unit;
            let err = l2(&sub(&xyz(&back[i]), &x));
            if r2 == 0.0 {
                if unit > 0.0 {
                    rec.metric("worst_roundtrip_units_exact", err / unit);
                }
            } else if r2 * l2(&x) > 1000.0 * unit {
                rec.metric("worst_roundtrip_second_order_ratio", err / (r2 * l2(&x)));
            }
            vensure!(err <= tol, if spec.exact || !spec.rotated() { "inverse-does-not-undo-forward-exactly" } else { "inverse-does-not-undo-forward-to-second-order" },
                "'{def}': {} -> fwd {:?} -> inv {:?}; error {err:e} m, tolerance {tol:e} m ({})",
                fmt_c4(&inp[i]), xyz(&fwd[i]), xyz(&back[i]), if r2 == 0.0 { "rounding only".to_string() } else { format!("1.05*|r|^2*|x| with |r|^2 = {r2:e}, plus rounding") });
            // forward after inverse: error |r|^2 |x - T|
            let unit2 = EPS * (spec.mag(&e, &xyz(&pre[i])) + l1(&x) + l1(&e.t)) * (1.0_f64).max(1.0 / sc);
            let tol2 = K_SECOND_ORDER * r2 * l2(&sub(&x, &e.t)) + K_ROUND * unit2;
            let err2 = l2(&sub(&xyz(&again[i]), &x));
            vensure!(err2 <= tol2, if spec.exact || !spec.rotated() { "forward-does-not-undo-inverse-exactly" } else { "forward-does-not-undo-inverse-to-second-order" },
                "'{def}': {} -> inv {:?} -> fwd {:?}; error {err2:e} m, tolerance {tol2:e} m", fmt_c4(&inp[i]), xyz(&pre[i]), xyz(&again[i]));
        }
    }

    // ---- bookkeeping -------------------------------------------------------------------------
    rec.class(&format!(
        "{}|{}|{}|{}",
        kind_label(&spec),
        if !spec.rotated() { "unrotated" } else if spec.pv { "position_vector" } else { "coordinate_frame" },
        if spec.exact { "exact" } else { "small-angle" },
        if spec.t_obs.is_some() && dynamic { "t_obs" } else { "no-t_obs" }
    ));
    if spec.rotated() && spec.exact {
        let m = l1(&rad3(&spec.r)).max(l1(&rad3(&spec.dr)));
        rec.class(if m < 1e-4 { "exact-angles<=20as" } else if m < 0.06 { "exact-angles<=3deg" } else { "exact-angles-any" });
    }
    if spec.per_tuple_epochs() && mixed {
        rec.class("rates-with-mixed-epochs-in-one-call");
        if l1(&spec.dt) != 0.0 {
            rec.count("mixed_epoch_sets_with_translation_rate", 1);
        }
    }
    if (dynamic && mixed) || spec.rotated() {
        rec.nontrivial(&(def.clone(), n, inp.first().map(|p| (p[0].to_bits(), p[3].to_bits()))));
    }
    match deferred {
        Some(f) => Err(f),
        None => Ok(()),
    }
}

// ---- Helmert generators ----------------------------------------------------------------------

fn val(b: f64) -> impl Strategy<Value = f64> {
    prop_oneof![
        2 => Just(0.0),
        6 => -b..b,
        1 => Just(b),
        1 => Just(-b),
        3 => (-1000i32..=1000).prop_map(move |k| k as f64 * (b / 1000.0)),
    ]
}
fn val3(b: f64) -> impl Strategy<Value = [f64; 3]> {
    [val(b), val(b), val(b)]
}

fn point_xyz() -> impl Strategy<Value = [f64; 3]> {
    let on_sphere = |lon: f64, lat: f64, rad: f64| [rad * lat.cos() * lon.cos(), rad * lat.cos() * lon.sin(), rad * lat.sin()];
    prop_oneof![
        5 => (-3.2f64..3.2, -1.57f64..1.57, 6.35e6f64..6.4e6).prop_map(move |(lo, la, r)| on_sphere(lo, la, r)),
        3 => [-5.7e6f64..5.7e6, -5.7e6f64..5.7e6, -5.7e6f64..5.7e6],
        1 => [-100.0f64..100.0, -100.0f64..100.0, -100.0f64..100.0],
        1 => Just([0.0, 0.0, 0.0]),
        1 => (0usize..3, prop::bool::ANY).prop_map(|(a, neg)| { let mut v = [0.0; 3]; v[a] = if neg { -1.0e7 } else { 1.0e7 }; v }),
        1 => (-3.2f64..3.2, -1.57f64..1.57).prop_map(move |(lo, la)| on_sphere(lo, la, 1.0e7)),
    ]
}

fn epoch_offset() -> impl Strategy<Value = f64> {
    prop_oneof![
        2 => Just(0.0),
        6 => -40.0f64..40.0,
        2 => (-400i32..=400).prop_map(|k| k as f64 * 0.25),
        1 => -3000.0f64..3000.0,
    ]
}

fn weird_epoch() -> impl Strategy<Value = f64> {
    prop_oneof![
        Just(f64::NAN), Just(f64::INFINITY), Just(f64::NEG_INFINITY), Just(-0.0), Just(0.0), Just(2020.0), Just(1.0e300), 1900.0f64..2100.0,
    ]
}

#[derive(Clone, Debug)]
struct RawH {
    kind: u8,
    subset: u16,
    t: [f64; 3],
    r: [f64; 3],
    s: f64,
    dt: [f64; 3],
    dr: [f64; 3],
    ds: f64,
    angle_class: u8,
    single_axis: Option<u8>,
    exact: bool,
    pv: bool,
    t_epoch: f64,
    t_obs: Option<f64>,
    list_mask: u8,
    extras: u8,
    offsets: Vec<f64>,
    weird: Vec<f64>,
    use_weird: bool,
    pts: Vec<([f64; 3], u16)>,
}

fn build_helmert(raw: RawH) -> HCase {
    // which of the 14 parameters are present: bit 0-2 T, 3-5 R, 6 s, 7-9 dT, 10-12 dR, 13 ds
    let mask: u16 = match raw.kind {
        0 => 0b00_0000_0000_0111,                 // 3 parameters
        1 => 0b00_0000_0011_1111,                 // 6
        2 => 0b00_0000_0111_1111,                 // 7
        3 | 4 => 0b11_1111_1111_1111,             // 14
        5 => 0b00_0000_0111_1111 | (raw.subset & 0b11_1111_1000_0000), // 7 + some rates
        6 => raw.subset & 0b11_1111_1000_0000,    // rates only
        _ => raw.subset,                          // anything
    };
    let angle_scale = if raw.exact { [1.0, 360.0, 129_600.0][raw.angle_class as usize % 3] } else { 1.0 };
    let mut t = raw.t;
    let mut r = raw.r;
    let mut dt = raw.dt;
    let mut dr = raw.dr;
    let mut s = raw.s;
    let mut ds = raw.ds;
    for a in 0..3 {
        r[a] *= angle_scale;
        dr[a] *= angle_scale;
        if mask & (1 << a) == 0 {
            t[a] = 0.0;
        }
        if mask & (1 << (3 + a)) == 0 {
            r[a] = 0.0;
        }
        if mask & (1 << (7 + a)) == 0 {
            dt[a] = 0.0;
        }
        if mask & (1 << (10 + a)) == 0 {
            dr[a] = 0.0;
        }
        if let Some(ax) = raw.single_axis {
            if raw.exact && a as u8 != ax % 3 {
                r[a] = 0.0;
                dr[a] = 0.0;
            }
        }
    }
    if mask & (1 << 6) == 0 {
        s = 0.0;
    }
    if mask & (1 << 13) == 0 {
        ds = 0.0;
    }
    let dynamic = dt != [0.0; 3] || dr != [0.0; 3] || ds != 0.0;
    let per_tuple = dynamic && raw.t_obs.is_none();
    let pts = raw
        .pts
        .iter()
        .map(|(x, e)| {
            let epoch = if !per_tuple && raw.use_weird {
                raw.weird[pick(*e, raw.weird.len())]
            } else {
                raw.t_epoch + raw.offsets[pick(*e, raw.offsets.len())]
            };
            p4(x[0], x[1], x[2], epoch)
        })
        .collect();
    let f = |v: [f64; 3]| [F(v[0] + 0.0), F(v[1] + 0.0), F(v[2] + 0.0)];
    HCase {
        t: f(t),
        r: f(r),
        s: F(s + 0.0),
        dt: f(dt),
        dr: f(dr),
        ds: F(ds + 0.0),
        exact: raw.exact,
        pv: raw.pv,
        t_epoch: F(raw.t_epoch),
        t_obs: raw.t_obs.map(|o| F(raw.t_epoch + o)),
        list_mask: raw.list_mask & 63,
        extras: raw.extras & 7,
        pts,
    }
}

fn helmert_case(max_pts: usize) -> impl Strategy<Value = HCase> {
    helmert_case_n(1, max_pts)
}

fn helmert_case_n(min_pts: usize, max_pts: usize) -> impl Strategy<Value = HCase> {
    let params = (val3(1000.0), val3(10.0), val(100.0), val3(10.0), val3(0.1), val(1.0));
    let shape = (0u8..8, any::<u16>(), 0u8..3, prop::option::weighted(0.3, 0u8..3), any::<bool>(), any::<bool>());
    let time = (
        prop_oneof![3 => (1950i32..=2050).prop_map(|y| y as f64), 1 => Just(2010.0), 2 => 1950.0f64..2050.0],
        prop::option::weighted(0.4, epoch_offset()),
        prop::collection::vec(epoch_offset(), 1..=4),
        prop::collection::vec(weird_epoch(), 1..=3),
        prop::bool::weighted(0.5),
    );
    let text = (any::<u8>(), any::<u8>());
    let pts = prop::collection::vec((point_xyz(), any::<u16>()), min_pts..=max_pts);
    (params, shape, time, text, pts).prop_map(|((t, r, s, dt, dr, ds), (kind, subset, angle_class, single_axis, exact, pv), (t_epoch, t_obs, offsets, weird, use_weird), (list_mask, extras), pts)| {
        build_helmert(RawH { kind, subset, t, r, s, dt, dr, ds, angle_class, single_axis, exact, pv, t_epoch, t_obs, list_mask, extras, offsets, weird, use_weird, pts })
    })
}

/// Finite grid: parameter-set kinds x conventions x modes x angle classes x t_obs x spelling,
/// canonical values, a fixed set of stations with mixed epochs.
fn grid_case(i: usize) -> HCase {
    let mut k = i;
    let mut take = |n: usize| {
        let v = k % n;
        k /= n;
        v
    };
    let kind = take(7) as u8;
    let pv = take(2) == 0;
    let exact = take(2) == 1;
    let angle_class = take(3) as u8;
    let tobs = take(2) == 1;
    let list_mask = [0u8, 63, 0b101010][take(3)];
    let pts = vec![
        ([-4052051.7643, 4212836.2017, -2545106.0245], 0u16),       // ALIC (GDA94), repo test point
        ([3513638.19, 778956.45, 5248216.46], 30000),               // BUDP-like
        ([-4052051.7643, 4212836.2017, -2545106.0245], 0),          // same station, first epoch again
        ([1.0e7, 0.0, 0.0], 50000),
        ([0.0, 0.0, 0.0], 65000),
        ([-2.0e6, -5.0e6, 3.0e6], 65000),
    ];
    build_helmert(RawH {
        kind,
        subset: 0b10_1010_0101_1011 ^ ((i as u16) << 7),
        t: [100.5, -200.25, 300.125],
        r: [1.5, -2.5, 3.5],
        s: 2.5,
        dt: [0.01, -0.02, 0.03],
        dr: [0.001, 0.002, -0.003],
        ds: 0.01,
        angle_class,
        single_axis: None,
        exact,
        pv,
        t_epoch: 2010.0,
        t_obs: if tobs { Some(5.5) } else { None },
        list_mask,
        extras: (i % 8) as u8,
        offsets: vec![-10.0, 8.0, 15.25, 0.0],
        weird: vec![f64::NAN],
        use_weird: false,
        pts,
    })
}
const GRID_N: usize = 7 * 2 * 2 * 3 * 2 * 3;

// ---- Molodensky -------------------------------------------------------------------------------

#[derive(Clone, Debug, Serialize, Deserialize)]
struct MCase {
    e0: String,
    e1: String,
    /// 0: `ellps=E0 da= df=`; 1: `ellps_0=GRS80 ellps_1=E1` (source = the default ellipsoid);
    /// 2: `ellps_0=E0 ellps_1=E1`
    form: u8,
    abridged: bool,
    fwd: bool,
    d: [F; 3],
    pts: Vec<P4>, // lon, lat (rad), h, t
}

const ELLPS_POOL: [&str; 20] = [
    "GRS80", "WGS84", "intl", "bessel", "clrk66", "clrk80", "krass", "airy", "mod_airy", "helmert", "WGS72", "aust_SA", "evrst30", "fschr60", "hough",
    "GRS67", "new_intl", "6378245.5,298.3", "6377000,301.5", "6378137,298.257223563",
];

fn ellipsoid(name: &str) -> Result<(Ellipsoid, El), Failure> {
    match vcore::guard::guard(|| Ellipsoid::named(name)) {
        Ok(Ok(e)) => {
            let el = El::new(e.semimajor_axis(), e.flattening());
            Ok((e, el))
        }
        Ok(Err(e)) => Err(Failure { key: "ellipsoid-unknown".into(), msg: format!("Ellipsoid::named({name:?}) fails: {e:?}") }),
        Err(p) => Err(Failure { key: format!("panic-ellipsoid@{}", p.sig()), msg: format!("Ellipsoid::named({name:?}) panics: {}", p.msg) }),
    }
}

fn molodensky_def(c: &MCase, e0: &str, da: f64, df: f64) -> String {
    let d = f3(&c.d);
    let shifts = format!("dx={} dy={} dz={}", num(d[0]), num(d[1]), num(d[2]));
    let ab = if c.abridged { " abridged" } else { "" };
    match c.form {
        0 => format!("molodensky ellps={e0} da={} df={} {shifts}{ab}", num(da), num(df)),
        _ => format!("molodensky ellps_0={e0} ellps_1={} {shifts}{ab}", c.e1),
    }
}

fn check_molodensky(c: &MCase, rec: &mut Rec) -> CaseResult {
    molo_eval(c, rec, true).map(|_| ())
}

/// Molodensky on a Vec<Coor4D> of the case's points against the Helmert path; returns the library result.
/// `book`: do the class / non-trivial bookkeeping of the molodensky section.
fn molo_eval(c: &MCase, rec: &mut Rec, book: bool) -> Result<Vec<Coor4D>, Failure> {
    let mut m = MoloOps::new(c)?;
    let inp = c4s(&c.pts);
    m.judge(c, &inp, rec, book)
}

/// the molodensky operator of a case and the Helmert path it approximates, instantiated once
struct MoloOps {
    ctx: Minimal,
    op: OpHandle,
    op_path: OpHandle,
    def: String,
    path: String,
    e0name: String,
    el0: El,
    el1: El,
}

impl MoloOps {
    fn new(c: &MCase) -> Result<MoloOps, Failure> {
        let e0name: &str = if c.form == 1 { "GRS80" } else { &c.e0 };
        let (_, el0) = ellipsoid(e0name)?;
        let (_, el1) = ellipsoid(&c.e1)?;
        let (da, df) = (el1.a - el0.a, el1.f - el0.f);
        let d = f3(&c.d);
        let def = molodensky_def(c, e0name, da, df);
        let path = format!("cart ellps={e0name} | helmert x={} y={} z={} | cart inv ellps={}", num(d[0]), num(d[1]), num(d[2]), c.e1);
        let mut ctx = Minimal::new();
        let op = inst(&mut ctx, &def)?;
        let op_path = inst(&mut ctx, &path)?;
        Ok(MoloOps { ctx, op, op_path, def, path, e0name: e0name.to_string(), el0, el1 })
    }

    /// the operator on a Vec<Coor4D> of `inp` (direction of the case) against the Helmert path
    fn judge(&mut self, c: &MCase, inp: &[Coor4D], rec: &mut Rec, book: bool) -> Result<Vec<Coor4D>, Failure> {
        let MoloOps { ctx, op, op_path, def, path, e0name, el0, el1 } = self;
        let (op, op_path, el0, el1) = (*op, *op_path, *el0, *el1);
        let (def, path, e0name): (&str, &str, &str) = (def, path, e0name);
        let (da, df) = (el1.a - el0.a, el1.f - el0.f);
        let d = f3(&c.d);
        let dir = if c.fwd { Fwd } else { Inv };
        let got = apply_set(ctx, op, dir, def, inp, true)?;
        let want = apply_set(ctx, op_path, dir, path, inp, false)?;
        molo_judge(c, ctx, def, path, e0name, el0, el1, da, df, &d, dir, inp, got, want, rec, book)
    }
}

#[allow(clippy::too_many_arguments)]
fn molo_judge(c: &MCase, ctx: &mut Minimal, def: &str, path: &str, e0name: &str, el0: El, el1: El, da: f64, df: f64, d: &[f64; 3], dir: Dir, inp: &[Coor4D], got: Vec<Coor4D>, want: Vec<Coor4D>, rec: &mut Rec, book: bool) -> Result<Vec<Coor4D>, Failure> {
    let d = *d;
    let delta = l2(&d) + da.abs() + el0.a * df.abs();
    // the ellipsoid on which input / output live
    let (el_in, el_out) = if c.fwd { (el0, el1) } else { (el1, el0) };
    for i in 0..inp.len() {
        let (lat_in, h_in) = (inp[i][1], inp[i][2]);
        let (lat, h) = (want[i][1], want[i][2]);
        let e_lon = refmath::wrap_pi(got[i][0] - want[i][0]) * (el_out.n(lat) + h) * lat.cos();
        let e_lat = (got[i][1] - want[i][1]) * (el_out.m(lat) + h);
        let e_h = got[i][2] - want[i][2];
        let err = (e_lon * e_lon + e_lat * e_lat + e_h * e_h).sqrt();
        let cosmin = lat.cos().abs().min(lat_in.cos().abs());
        let second = delta * delta / (el_in.a * cosmin);
        let first_abridged = (h_in.abs().max(h.abs()) / el_in.a + el0.f.max(el1.f)) * delta;
        let tol = K_MOLO * second + MOLO_FLOOR + if c.abridged { K_MOLO_ABRIDGED * first_abridged } else { 0.0 };
        if !(err <= tol) {
            // known class: the context's global default ellps=GRS80 overrides ellps_0
            if c.form == 2 {
                let mut twin = c.clone();
                twin.form = 1;
                let def_twin = molodensky_def(&twin, "GRS80", 0.0, 0.0);
                let op_twin = inst(ctx, &def_twin)?;
                let y_twin = apply_set(ctx, op_twin, dir, &def_twin, inp, true)?;
                if vec_bits_eq(&y_twin, &got) {
                    vfail!("molodensky-ellps_0-overridden-by-default-ellps",
                        "'{def}' ({dir:?}) on {}: library {}; the Helmert path '{path}' gives {}; ground error {err:e} m, tolerance {tol:e} m (delta = {delta} m). The result is bit-identical to that of '{def_twin}': ellps_0={} is ignored, da = {da}, df = {df:e} are lost",
                        fmt_c4(&inp[i]), fmt_c4(&got[i]), fmt_c4(&want[i]), c.e0);
                }
            }
            vfail!(if c.abridged { "molodensky-abridged-vs-helmert-path" } else { "molodensky-vs-helmert-path" },
                "'{def}' ({dir:?}) on {}: library {}; the Helmert path '{path}' gives {}; ground error {err:e} m (lon {e_lon:e}, lat {e_lat:e}, h {e_h:e}), tolerance {tol:e} m (delta = |d| + |da| + a|df| = {delta} m, da = {da}, df = {df:e})",
                fmt_c4(&inp[i]), fmt_c4(&got[i]), fmt_c4(&want[i]));
        }
        if !c.abridged && second > 0.0 {
            rec.metric("worst_full_error_over_delta2_per_a_cos", (err - MOLO_FLOOR).max(0.0) / second);
            rec.metric("worst_full_error_m", err);
        }
        if c.abridged && first_abridged > 0.0 {
            rec.metric("worst_abridged_error_over_first_order_term", (err - K_MOLO * second - MOLO_FLOOR).max(0.0) / first_abridged);
            rec.metric("worst_abridged_error_m", err);
        }
    }
    rec.count("tuples", inp.len() as u64);
    if !book {
        return Ok(got);
    }
    rec.class(&format!("form{}|{}|{}", c.form, if c.abridged { "abridged" } else { "full" }, if c.fwd { "fwd" } else { "inv" }));
    if c.form == 2 && e0name != "GRS80" {
        rec.class(if (el0.a - 6378137.0).abs() + el0.a * (el0.f - 1.0 / 298.257222101).abs() > 1.0 { "form2-source-far-from-default" } else { "form2-source-close-to-default" });
    }
    if delta > 1.0 {
        rec.nontrivial(&(def, c.fwd, inp.first().map(|p| (p[0].to_bits(), p[1].to_bits()))));
    }
    Ok(got)
}

fn molodensky_case(max_pts: usize) -> impl Strategy<Value = MCase> {
    molodensky_case_n(1, max_pts)
}

fn molodensky_case_n(min_pts: usize, max_pts: usize) -> impl Strategy<Value = MCase> {
    let geo = (
        prop_oneof![6 => -3.14159f64..3.14159, 1 => Just(0.0), 1 => Just(3.1415), 1 => Just(-3.1415)],
        prop_oneof![6 => -89.0f64..89.0, 1 => Just(0.0), 1 => Just(89.0), 1 => Just(-89.0), 1 => -1.0f64..1.0],
        prop_oneof![3 => Just(0.0), 4 => -1000.0f64..10000.0, 1 => Just(10000.0)],
        prop_oneof![Just(0.0), 1900.0f64..2100.0, Just(f64::NAN)],
    )
        .prop_map(|(lon, lat, h, t)| p4(lon, lat.to_radians(), h, t));
    (any::<u16>(), any::<u16>(), 0u8..3, any::<bool>(), any::<bool>(), val3(1000.0), prop::collection::vec(geo, min_pts..=max_pts)).prop_map(|(a, b, form, abridged, fwd, d, pts)| {
        let mut i0 = pick(a, ELLPS_POOL.len());
        let i1 = pick(b, ELLPS_POOL.len());
        if form == 2 && i0 == 0 {
            i0 = 2; // form 2 = source ellipsoid other than the default
        }
        MCase { e0: ELLPS_POOL[i0].into(), e1: ELLPS_POOL[i1].into(), form, abridged, fwd, d: [F(d[0] + 0.0), F(d[1] + 0.0), F(d[2] + 0.0)], pts }
    })
}

// ---- the container dimension ---------------------------------------------------------------------
//
// The property quantifies over operands, not over the type that holds them.  A container of native
// dimension below 4 presents documented tuples to an operator (doc comments of the CoordinateSet
// implementations and of the (set, h, t) / (set, t) adapters; written down here, not read through
// the library) and keeps of the result what it can hold.

trait Elem: Copy {
    const NAME: &'static str;
    fn from4(p: [f64; 4]) -> Self;
    /// what get_coord documents for an element holding p
    fn seen(p: [f64; 4]) -> [f64; 4];
    fn stored(&self) -> Vec<f64>;
    /// what the element holds after set_coord(r)
    fn keep(r: [f64; 4]) -> Vec<f64>;
}
impl Elem for Coor4D {
    const NAME: &'static str = "Coor4D";
    fn from4(p: [f64; 4]) -> Self {
        Coor4D(p)
    }
    fn seen(p: [f64; 4]) -> [f64; 4] {
        p
    }
    fn stored(&self) -> Vec<f64> {
        self.0.to_vec()
    }
    fn keep(r: [f64; 4]) -> Vec<f64> {
        r.to_vec()
    }
}
impl Elem for Coor3D {
    const NAME: &'static str = "Coor3D";
    fn from4(p: [f64; 4]) -> Self {
        Coor3D([p[0], p[1], p[2]])
    }
    fn seen(p: [f64; 4]) -> [f64; 4] {
        [p[0], p[1], p[2], f64::NAN]
    }
    fn stored(&self) -> Vec<f64> {
        self.0.to_vec()
    }
    fn keep(r: [f64; 4]) -> Vec<f64> {
        r[..3].to_vec()
    }
}
impl Elem for Coor2D {
    const NAME: &'static str = "Coor2D";
    fn from4(p: [f64; 4]) -> Self {
        Coor2D([p[0], p[1]])
    }
    fn seen(p: [f64; 4]) -> [f64; 4] {
        [p[0], p[1], 0.0, f64::NAN]
    }
    fn stored(&self) -> Vec<f64> {
        self.0.to_vec()
    }
    fn keep(r: [f64; 4]) -> Vec<f64> {
        r[..2].to_vec()
    }
}
impl Elem for Coor32 {
    const NAME: &'static str = "Coor32";
    fn from4(p: [f64; 4]) -> Self {
        Coor32([p[0] as f32, p[1] as f32])
    }
    fn seen(p: [f64; 4]) -> [f64; 4] {
        [p[0] as f32 as f64, p[1] as f32 as f64, 0.0, f64::NAN]
    }
    fn stored(&self) -> Vec<f64> {
        vec![self.0[0] as f64, self.0[1] as f64]
    }
    fn keep(r: [f64; 4]) -> Vec<f64> {
        vec![r[0] as f32 as f64, r[1] as f32 as f64]
    }
}

/// tuples per container case (arrays need a constant; = the number of stations of the finite grid)
const CONT_N: usize = 6;
const INNERS: [&str; 4] = ["Coor4D", "Coor3D", "Coor2D", "Coor32"];
const SHAPES: [&str; 3] = ["Vec", "array", "&mut slice"];
const WRAPS: [&str; 3] = ["", "(set, h, t)", "(set, t)"];

struct ContOut {
    label: String,
    stored: Vec<Vec<f64>>,
    count: usize,
}

fn cont_apply(ctx: &Minimal, op: OpHandle, dir: Dir, def: &str, label: &str, set: &mut dyn CoordinateSet) -> Result<usize, Failure> {
    match try_apply(ctx, op, dir_of(dir == Dir::Fwd), set) {
        Err(p) => Err(Failure { key: format!("panic-apply@{}", p.sig()), msg: format!("applying '{def}' ({dir:?}) to a {label} panics: {} at {}:{}", p.msg, p.file, p.line) }),
        Ok(Err(e)) => Err(Failure { key: "apply-error-container".into(), msg: format!("apply of '{def}' ({dir:?}) to a {label} returned an error: {e:?}") }),
        Ok(Ok(n)) => Ok(n),
    }
}

/// the tuple a container of element kind `inner` in adapter `wrap` documents for an element made from p
fn seen_of(inner: usize, wrap: usize, p: [f64; 4], h: f64, t: f64) -> [f64; 4] {
    let b = match inner {
        0 => Coor4D::seen(p),
        1 => Coor3D::seen(p),
        2 => Coor2D::seen(p),
        _ => Coor32::seen(p),
    };
    match wrap {
        1 => [b[0], b[1], h, t],
        2 => [b[0], b[1], b[2], t],
        _ => b,
    }
}
fn keep_of(inner: usize, r: [f64; 4]) -> Vec<f64> {
    match inner {
        0 => Coor4D::keep(r),
        1 => Coor3D::keep(r),
        2 => Coor2D::keep(r),
        _ => Coor32::keep(r),
    }
}
fn cont_label(inner: usize, shape: usize, wrap: usize) -> String {
    if wrap == 0 {
        format!("{} of {}", SHAPES[shape], INNERS[inner])
    } else {
        format!("{} of {} in {}", SHAPES[shape], INNERS[inner], WRAPS[wrap])
    }
}

#[allow(clippy::too_many_arguments)]
fn cont_run<T: Elem>(ctx: &Minimal, op: OpHandle, dir: Dir, def: &str, shape: usize, wrap: usize, pts: &[[f64; 4]], h: f64, t: f64) -> Result<ContOut, Failure>
where
    Vec<T>: CoordinateSet,
    [T; CONT_N]: CoordinateSet,
    for<'a> &'a mut [T]: CoordinateSet,
{
    let label = if wrap == 0 { format!("{} of {}", SHAPES[shape], T::NAME) } else { format!("{} of {} in {}", SHAPES[shape], T::NAME, WRAPS[wrap]) };
    let mut elems: Vec<T> = pts.iter().map(|p| T::from4(*p)).collect();
    let count;
    match shape {
        0 => match wrap {
            1 => {
                let mut w = (elems, h, t);
                count = cont_apply(ctx, op, dir, def, &label, &mut w)?;
                elems = w.0;
            }
            2 => {
                let mut w = (elems, t);
                count = cont_apply(ctx, op, dir, def, &label, &mut w)?;
                elems = w.0;
            }
            _ => count = cont_apply(ctx, op, dir, def, &label, &mut elems)?,
        },
        1 => {
            let mut a: [T; CONT_N] = match elems[..].try_into() {
                Ok(a) => a,
                Err(_) => vfail!("harness-bad-container-case", "a container case needs exactly {CONT_N} points"),
            };
            match wrap {
                1 => {
                    let mut w = (a, h, t);
                    count = cont_apply(ctx, op, dir, def, &label, &mut w)?;
                    a = w.0;
                }
                2 => {
                    let mut w = (a, t);
                    count = cont_apply(ctx, op, dir, def, &label, &mut w)?;
                    a = w.0;
                }
                _ => count = cont_apply(ctx, op, dir, def, &label, &mut a)?,
            }
            elems = a.to_vec();
        }
        _ => {
            let mut sl: &mut [T] = &mut elems[..];
            match wrap {
                1 => {
                    let mut w = (sl, h, t);
                    count = cont_apply(ctx, op, dir, def, &label, &mut w)?;
                }
                2 => {
                    let mut w = (sl, t);
                    count = cont_apply(ctx, op, dir, def, &label, &mut w)?;
                }
                _ => count = cont_apply(ctx, op, dir, def, &label, &mut sl)?,
            }
        }
    }
    Ok(ContOut { label, stored: elems.iter().map(|e| e.stored()).collect(), count })
}

#[allow(clippy::too_many_arguments)]
fn cont_any(inner: usize, ctx: &Minimal, op: OpHandle, dir: Dir, def: &str, shape: usize, wrap: usize, pts: &[[f64; 4]], h: f64, t: f64) -> Result<ContOut, Failure> {
    match inner {
        0 => cont_run::<Coor4D>(ctx, op, dir, def, shape, wrap, pts, h, t),
        1 => cont_run::<Coor3D>(ctx, op, dir, def, shape, wrap, pts, h, t),
        2 => cont_run::<Coor2D>(ctx, op, dir, def, shape, wrap, pts, h, t),
        _ => cont_run::<Coor32>(ctx, op, dir, def, shape, wrap, pts, h, t),
    }
}

/// spacing of f32 numbers around v (what a Coor32 can resolve)
fn f32_spacing(v: f64) -> f64 {
    let a = (v.abs() as f32).max(f32::MIN_POSITIVE);
    (f32::from_bits(a.to_bits() + 1) - a) as f64
}

#[derive(Clone, Debug, Serialize, Deserialize)]
struct HContCase {
    /// exactly CONT_N tuples: what a 4-D container holds
    base: HCase,
    /// fixed third coordinate and epoch of the (set, h, t) and (set, t) adapters
    wh: F,
    wt: F,
}

fn check_helmert_containers(c: &HContCase, rec: &mut Rec) -> CaseResult {
    vensure!(c.base.pts.len() == CONT_N, "harness-bad-container-case", "a container case needs exactly {CONT_N} points");
    let spec = Spec::of(&c.base);
    let def = spec.render(c.base.list_mask);
    let mut ctx = Minimal::new();
    let op = inst(&mut ctx, &def)?;
    let dynamic = spec.dynamic();
    let per_tuple = spec.per_tuple_epochs();
    let regime = if !dynamic { "static" } else if per_tuple { "tuple-epoch" } else { "t_obs" };
    // the rate-carrying operator without t_obs
    let free = match (dynamic, spec.t_obs) {
        (true, Some(tau)) => {
            let mut f = spec.clone();
            f.t_obs = None;
            let d = f.render(c.base.list_mask);
            Some((inst(&mut ctx, &d)?, d, tau))
        }
        _ => None,
    };
    let pts: Vec<[f64; 4]> = c.base.pts.iter().map(|p| [p[0].0, p[1].0, p[2].0, p[3].0]).collect();
    let (wh, wt) = (c.wh.0, c.wt.0);
    let mut cache = MatCache { keys: vec![], mats: vec![] };
    let mut nan_outcomes = 0u64;

    for inner in 0..4usize {
        for wrap in 0..3usize {
            let seen: Vec<[f64; 4]> = pts.iter().map(|p| seen_of(inner, wrap, *p, wh, wt)).collect();
            let seen4: Vec<Coor4D> = seen.iter().map(|p| Coor4D(*p)).collect();
            let view = cont_label(inner, 0, wrap);
            for dir in [Fwd, Inv] {
                // -- the operator on a Vec<Coor4D> holding the documented tuples, against the reference model
                let reference = apply_set(&ctx, op, dir, &def, &seen4, true)?;
                let mut tols = [0.0f64; CONT_N];
                let mut nan_epoch = [false; CONT_N];
                for i in 0..CONT_N {
                    let x = xyz(&seen4[i]);
                    let got = xyz(&reference[i]);
                    if per_tuple && seen[i][3].is_nan() {
                        // P + (NaN - t_epoch)*dP is NaN for every parameter group (IEEE): no epoch, no result
                        nan_epoch[i] = true;
                        vensure!(got.iter().all(|v| v.is_nan()), "rates-without-epoch-give-a-number",
                            "'{def}' ({dir:?}) has rates and no t_obs; the tuple {:?} (the view a {view} gives of {:?}) has no epoch (NaN), yet the result is {got:?}: parameters at epoch NaN are NaN",
                            seen[i], pts[i]);
                        continue;
                    }
                    let e = spec.at(seen[i][3]);
                    let m = cache.get(&mut ctx, &spec, &e.r, rec)?;
                    let sc = (1.0 + e.s * 1e-6).abs();
                    if dir == Fwd {
                        let want = model_fwd(&e, &m, &x);
                        let unit = EPS * spec.mag(&e, &x);
                        let tol = K_ROUND * unit;
                        let err = l2(&sub(&got, &want));
                        tols[i] = tol;
                        if unit > 0.0 && err.is_finite() {
                            rec.metric("worst_forward_units", err / unit);
                        }
                        vensure!(err <= tol, &format!("forward-model-{regime}-container-view"),
                            "'{def}' on {:?} (the view a {view} gives of {:?}): library {got:?}; reference T(t) + (1+s(t)*1e-6)*R(r(t))*x = {want:?} with T = {:?}, r = {:?} arcsec, s = {} ppm, R = {m:?}; error {err:e} m, tolerance {tol:e} m",
                            seen[i], pts[i], e.t, e.r, e.s);
                    } else {
                        // the model forward takes the inverse back: R R^T - I is second order (nil when exact)
                        let r = rad3(&e.r);
                        let r2 = if spec.exact || !spec.rotated() { 0.0 } else { r[0] * r[0] + r[1] * r[1] + r[2] * r[2] };
                        let unit = EPS * (spec.mag(&e, &got) + l1(&x) + l1(&e.t)) * (1.0_f64).max(1.0 / sc);
                        let tol = K_SECOND_ORDER * r2 * l2(&sub(&x, &e.t)) + K_ROUND * unit;
                        let again = model_fwd(&e, &m, &got);
                        let err = l2(&sub(&again, &x));
                        tols[i] = K_ROUND * EPS * spec.mag(&e, &x) * (1.0_f64).max(1.0 / sc);
                        if r2 == 0.0 && unit > 0.0 && err.is_finite() {
                            rec.metric("worst_inverse_units_exact", err / unit);
                        }
                        vensure!(err <= tol, &format!("inverse-model-{regime}-container-view"),
                            "'{def}' Inv on {:?} (the view a {view} gives of {:?}): library {got:?}; the reference forward T + (1+s*1e-6)*R*x with T = {:?}, r = {:?} arcsec, s = {} ppm takes that to {again:?}, not back to the input; error {err:e} m, tolerance {tol:e} m ({})",
                            seen[i], pts[i], e.t, e.r, e.s, if r2 == 0.0 { "rounding only".to_string() } else { format!("1.05*|r|^2*|x - T| with |r|^2 = {r2:e}, plus rounding") });
                    }
                }
                // -- t_obs = tau: the operator without t_obs on the same points at epoch tau
                let at_tau = match &free {
                    Some((op_free, def_free, tau)) => {
                        let with_tau: Vec<Coor4D> = seen.iter().map(|p| Coor4D([p[0], p[1], p[2], *tau])).collect();
                        Some((apply_set(&ctx, *op_free, dir, def_free, &with_tau, true)?, def_free, *tau))
                    }
                    None => None,
                };
                // -- the containers themselves
                for shape in 0..3usize {
                    let out = cont_any(inner, &ctx, op, dir, &def, shape, wrap, &pts, wh, wt)?;
                    for i in 0..CONT_N {
                        let want = keep_of(inner, reference[i].0);
                        let same = want.len() == out.stored[i].len() && want.iter().zip(&out.stored[i]).all(|(a, b)| bits_eq(*a, *b));
                        vensure!(same, &format!("{regime}-helmert-result-depends-on-container"),
                            "'{def}' ({dir:?}) on a {} (fixed h = {wh:?}, t = {wt:?}): tuple {i}, which the container presents as {:?}, comes back as {:?}; the same operator on a Vec<Coor4D> holding that tuple gives {:?}, of which the container keeps {want:?}",
                            out.label, seen[i], out.stored[i], reference[i].0);
                        if let Some((y, def_free, tau)) = &at_tau {
                            let want = keep_of(inner, y[i].0);
                            for j in 0..want.len().min(3) {
                                let tol = tols[i] + if inner == 3 { f32_spacing(want[j]) } else { 0.0 };
                                let err = (out.stored[i][j] - want[j]).abs();
                                vensure!(err <= tol, "t_obs-not-equivalent-to-tuple-epoch-in-container",
                                    "'{def}' ({dir:?}) on a {}: tuple {i} {:?} comes back as {:?}, but '{def_free}' on the same point with epoch {tau} gives {:?}; coordinate {j} differs by {err:e} m, tolerance {tol:e} m",
                                    out.label, seen[i], out.stored[i], y[i].0);
                            }
                        }
                    }
                    if nan_epoch.iter().all(|b| !*b) {
                        vensure!(out.count == CONT_N, &format!("{regime}-helmert-count-depends-on-container"),
                            "'{def}' ({dir:?}) on a {} reports {} successes for {CONT_N} tuples with finite results {:?}", out.label, out.count, out.stored);
                    } else {
                        nan_outcomes += 1;
                    }
                    rec.count("container_applications", 1);
                    if inner != 0 && wrap == 0 {
                        rec.count(&format!("{regime}_on_plain_container_below_4d"), 1);
                    } else if inner != 0 {
                        rec.count(&format!("{regime}_on_adapter_over_container_below_4d"), 1);
                    }
                }
            }
        }
    }
    rec.count("tuple_epoch_nan_outcomes", nan_outcomes);
    rec.count("tuples", (72 * CONT_N) as u64);
    rec.class(&format!(
        "{regime}|{}|{}|{}",
        kind_label(&spec),
        if !spec.rotated() { "unrotated" } else if spec.pv { "position_vector" } else { "coordinate_frame" },
        if spec.exact { "exact" } else { "small-angle" }
    ));
    rec.class(if wt.is_nan() { "adapter epoch NaN" } else { "adapter epoch finite" });
    rec.nontrivial(&(def, pts[0][0].to_bits(), wh.to_bits(), wt.to_bits()));
    Ok(())
}

fn helmert_cont_case() -> impl Strategy<Value = HContCase> {
    let wh = prop_oneof![1 => Just(0.0f64), 5 => -6.4e6f64..6.4e6, 1 => Just(1234.5f64), 1 => Just(-1.0e7f64)];
    (helmert_case_n(CONT_N, CONT_N), wh, prop::option::weighted(0.85, epoch_offset())).prop_map(|(base, wh, off)| {
        let wt = off.map_or(f64::NAN, |o| base.t_epoch.0 + o);
        HContCase { base, wh: F(wh), wt: F(wt) }
    })
}

/// the finite Helmert grid (6 stations) x adapter epoch finite / NaN
fn grid_cont_case(i: usize) -> HContCase {
    HContCase { base: grid_case(i % GRID_N), wh: F(1234.5), wt: F(if (i / GRID_N) % 2 == 0 { 2015.5 } else { f64::NAN }) }
}

#[derive(Clone, Debug, Serialize, Deserialize)]
struct MContCase {
    /// exactly CONT_N tuples (lon, lat, h, t)
    base: MCase,
    wh: F,
    wt: F,
}

fn check_molodensky_containers(c: &MContCase, rec: &mut Rec) -> CaseResult {
    vensure!(c.base.pts.len() == CONT_N, "harness-bad-container-case", "a container case needs exactly {CONT_N} points");
    let b = &c.base;
    let mut ops = MoloOps::new(b)?;
    let def = ops.def.clone();
    let dir = if b.fwd { Fwd } else { Inv };
    let pts: Vec<[f64; 4]> = b.pts.iter().map(|p| [p[0].0, p[1].0, p[2].0, p[3].0]).collect();
    let (wh, wt) = (c.wh.0, c.wt.0);
    for inner in 0..4usize {
        for wrap in 0..3usize {
            let seen: Vec<[f64; 4]> = pts.iter().map(|p| seen_of(inner, wrap, *p, wh, wt)).collect();
            // the operator on a Vec<Coor4D> of the documented tuples, judged against the Helmert path
            let seen4: Vec<Coor4D> = seen.iter().map(|p| Coor4D(*p)).collect();
            let reference = ops.judge(b, &seen4, rec, false)?;
            for shape in 0..3usize {
                let out = cont_any(inner, &ops.ctx, ops.op, dir, &def, shape, wrap, &pts, wh, wt)?;
                for i in 0..CONT_N {
                    let want = keep_of(inner, reference[i].0);
                    let same = want.len() == out.stored[i].len() && want.iter().zip(&out.stored[i]).all(|(a, b)| bits_eq(*a, *b));
                    vensure!(same, "molodensky-result-depends-on-container",
                        "'{def}' ({dir:?}) on a {} (fixed h = {wh:?}, t = {wt:?}): tuple {i}, which the container presents as {:?}, comes back as {:?}; the same operator on a Vec<Coor4D> holding that tuple gives {:?}, of which the container keeps {want:?}",
                        out.label, seen[i], out.stored[i], reference[i].0);
                }
                // successes = tuples whose three computed coordinates are NaN-free (all of them, for the finite inputs generated here)
                let ok = reference.iter().filter(|r| !(r[0].is_nan() || r[1].is_nan() || r[2].is_nan())).count();
                vensure!(out.count == ok, "molodensky-count-depends-on-container",
                    "'{def}' ({dir:?}) on a {} reports {} successes; the operator on a Vec<Coor4D> of the same tuples has {ok} NaN-free results of {CONT_N}; stored {:?}", out.label, out.count, out.stored);
                rec.count("container_applications", 1);
                if inner != 0 {
                    rec.count("applications_on_container_below_4d", 1);
                }
            }
        }
    }
    rec.class(&format!("form{}|{}|{}", b.form, if b.abridged { "abridged" } else { "full" }, if b.fwd { "fwd" } else { "inv" }));
    rec.nontrivial(&(def, b.fwd, pts[0][0].to_bits(), wh.to_bits()));
    Ok(())
}

fn molodensky_cont_case() -> impl Strategy<Value = MContCase> {
    let wh = prop_oneof![1 => Just(0.0f64), 4 => -1000.0f64..10000.0, 1 => Just(1234.5f64)];
    let wt = prop_oneof![2 => Just(2020.0f64), 2 => 1990.0f64..2030.0, 1 => Just(f64::NAN)];
    (molodensky_case_n(CONT_N, CONT_N), wh, wt).prop_map(|(base, wh, wt)| MContCase { base, wh: F(wh), wt: F(wt) })
}

// ---- self test of the reference ---------------------------------------------------------------

fn selftest() {
    // EPSG GN 7-2, 4.3.3 (method 1033 family), example WGS 72 -> WGS 84 (position vector):
    // tX = 0, tY = 0, tZ = +4.5 m, rX = rY = 0, rZ = +0.554", dS = +0.219 ppm
    // Xs = 3657660.66, Ys = 255768.55, Zs = 5201382.11  ->  Xt = 3657660.78, Yt = 255778.43, Zt = 5201387.75
    let r = rad3(&[0.0, 0.0, 0.554]);
    let m = epsg_small(&r, true);
    let e = Eff { t: [0.0, 0.0, 4.5], r: [0.0, 0.0, 0.554], s: 0.219, d: 0.0 };
    let y = model_fwd(&e, &m, &[3657660.66, 255768.55, 5201382.11]);
    assert!((y[0] - 3657660.78).abs() < 0.006 && (y[1] - 255778.43).abs() < 0.006 && (y[2] - 5201387.75).abs() < 0.006, "reference model disagrees with the EPSG GN 7-2 position vector example: {y:?}");
    // the coordinate frame twin of the same example has rZ = -0.554"
    let m = epsg_small(&rad3(&[0.0, 0.0, -0.554]), false);
    let y2 = model_fwd(&e, &m, &[3657660.66, 255768.55, 5201382.11]);
    assert!(l2(&sub(&y, &y2)) < 1e-9);
    // exact single-axis position-vector rotation by +90 deg about Z takes +X to +Y
    let q = refmath::rotation_position_vector(0.0, 0.0, std::f64::consts::FRAC_PI_2, true);
    let v = refmath::mat_vec(&q, &[1.0, 0.0, 0.0]);
    assert!((v[1] - 1.0).abs() < 1e-15 && v[0].abs() < 1e-15);
}

fn main() {
    let mut run = Run::init("C07");
    selftest();
    run.assume("small-angle mode means the EPSG GN 7-2 matrix I + [r]x (position vector) / its transpose (coordinate frame), compared at rounding level; 'equals with -r' is read the same way");
    run.assume("for `exact` the composition order of the three elementary rotations is not prescribed by the property: the matrix is extracted from the library's static rotation-only operator and must be a proper rotation, the elementary rotation on single axes, first-order EPSG for small angles, and transposed between conventions");
    run.assume("rates: |dT| <= 10 m/yr, |dr| <= 1 % of the rotation class bound per year, |ds| <= 1 ppm/yr; tuple epochs within +-40 yr of t_epoch (10 %: +-3000 yr); epochs of tuples are finite whenever they are used (rates without t_obs); NaN/inf epochs only where the epoch must be ignored");
    run.assume("rounding tolerance = 16 units of eps*(|T(t)|_1 + (1+|s|)|x|_1 (1+|r(t)|_1)); second-order terms are the mathematical bounds |r|^2|x| (round trip) and |r|^2|dx|/2 (distances) with 5 % slack");
    run.assume("molodensky: ellipsoid constants a, f are taken from the library's own Ellipsoid::named (table correctness belongs to C06); |lat| <= 89 deg, -1 km <= h <= 10 km; tolerance 2*delta^2/(a*cos(lat)) + 1 mm, abridged additionally 4*(|h|/a + f)*delta");

    run.assume("containers: the tuple a container presents to an operator is what its documentation states (Coor3D: epoch NaN; Coor2D: height 0, epoch NaN; Coor32: the f32 values, height 0, epoch NaN; (set, h, t) and (set, t): the fixed values), written down in the harness; a 2-D container keeps x, y of the result, a 3-D one x, y, z; rates with an epoch of NaN and no t_obs give NaN coordinates (IEEE), the success count is then not judged");
    let max_pts = if run.is_thorough() { 48 } else { 24 };
    run.enumerate(
        "helmert-grid",
        "finite grid: 7 parameter-set kinds (3/6/7/14, 7+rates, rates only, subset) x 2 conventions x exact/small-angle x 3 angle classes x with/without t_obs x 3 spellings, canonical values, 6 stations with 4 distinct epochs in one call; non-trivial = rotation or (rates and mixed epochs)",
        GRID_N,
        grid_case,
        check_helmert,
    );
    let n = run.scale(80_000, 1_600_000);
    run.section(
        "helmert-model",
        "random 3/6/7/14-parameter sets and subsets (|T|<=1 km, |r|<=10 arcsec small-angle or up to 360 deg exact incl. single-axis, |s|<=100 ppm, rates), both conventions, scalar/list spelling per parameter group, with/without t_obs, 1..24 (48) cartesian points within 1e7 m with 1..4 distinct epochs in one apply call; checked against the matrix reference per tuple and the metamorphic laws; non-trivial = rotation or (rates and >= 2 distinct epochs), distinct by definition text and first point",
        n,
        move || helmert_case(max_pts),
        check_helmert,
    );
    let n = run.scale(40_000, 800_000);
    run.section(
        "molodensky-vs-helmert-path",
        "molodensky in three parameterisations (ellps+da,df / ellps_0=default,ellps_1 / ellps_0,ellps_1 both given) x full/abridged x both directions x 20 ellipsoids x |d|<=1 km per axis, 1..16 geographic points (|lat|<=89 deg, h in [-1,10] km) against cart | helmert | cart inv; non-trivial = total shift delta > 1 m",
        n,
        || molodensky_case(16),
        check_molodensky,
    );
    run.enumerate(
        "helmert-containers-grid",
        "the finite Helmert grid (7 parameter-set kinds x 2 conventions x exact/small-angle x 3 angle classes x with/without t_obs x 3 spellings; 6 stations, 4 epochs) x adapter epoch finite/NaN, applied in both directions to all 36 container kinds (Vec / array / &mut slice of Coor4D, Coor3D, Coor2D, Coor32, each plain, in (set, h, t) and in (set, t)): stored result = bit for bit the operator on a Vec<Coor4D> of the tuples the container documents (height 0 / epoch NaN / f32 / fixed values), that 4-D result against the matrix reference (forward) or taken back by the reference forward (inverse), NaN when rates meet an epoch of NaN, with t_obs = the operator without t_obs at that epoch in the stored dimensions, all successes counted",
        2 * GRID_N,
        grid_cont_case,
        check_helmert_containers,
    );
    let n = run.scale(12_000, 300_000);
    run.section(
        "helmert-containers",
        "random parameter sets as in helmert-model with exactly 6 points, adapter height within +-1e7 m and adapter epoch within the epoch range or NaN, both directions on all 36 container kinds; oracles as in helmert-containers-grid; every case is non-trivial (33 of 36 kinds are not a plain 4-D container)",
        n,
        helmert_cont_case,
        check_helmert_containers,
    );
    let n = run.scale(6_000, 150_000);
    run.section(
        "molodensky-containers",
        "molodensky cases as in molodensky-vs-helmert-path with exactly 6 points, adapter height in [-1,10] km, adapter epoch finite or NaN, on all 36 container kinds: stored result = bit for bit the operator on a Vec<Coor4D> of the documented tuples (2-D containers: height 0), which is judged against the Helmert path with the tolerance of that section; all successes counted",
        n,
        molodensky_cont_case,
        check_molodensky_containers,
    );
    run.finish("generated Helmert parameter sets and mixed-epoch coordinate sets checked against an EPSG GN 7-2 matrix reference evaluated per tuple, plus metamorphic laws (distance ratio, convention sign/transposition, spelling, t_obs, inverse) and Molodensky against the cartesian Helmert path; see sections");
}
